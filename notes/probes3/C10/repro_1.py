"""C10 / sphere limit: Tmatrix claims it can handle a coated (layered) Sphere.
 - Tmatrix.can_handle(layered Sphere) is True
 - public calc_* then dies with an unrelated TypeError ('list' ** 'int')
   instead of TheoryNotCompatibleError
 - calling the theory directly (numpy-array n, r; no validate_scatterer) SILENTLY
   returns the scattering of the bare core (first layer), ignoring the coating.
Run from the checkout root.  Exit 1 when the violation is present."""
import sys, os; sys.path.insert(0, os.getcwd())
import warnings; warnings.filterwarnings('ignore')
import numpy as np
import holopy
from holopy.scattering import Sphere, Tmatrix, Mie, calc_scat_matrix
from holopy.scattering.errors import TheoryNotCompatibleError
from holopy.core import detector_points
print(holopy.__file__)
nm, wl = 1.33, 0.66
k = 2 * np.pi * nm / wl
coated = Sphere(n=np.array([1.59, 1.40]), r=np.array([0.3, 0.6]), center=(0, 0, 0))
core = Sphere(n=1.59, r=0.3, center=(0, 0, 0))
pos = np.array([[10., 10., 10.], [0.2, 0.5, 0.9], [0., 0., 0.]])   # phi = 0

bad = False
ch = Tmatrix().can_handle(coated)
print("Tmatrix().can_handle(coated sphere) =", ch)

th = pos[1]
det = detector_points(theta=th, phi=0 * th, r=10 + 0 * th)
try:
    calc_scat_matrix(det, coated, nm, wl, theory=Tmatrix())
    print("public calc_scat_matrix: returned a value")
except TheoryNotCompatibleError as e:
    print("public calc_scat_matrix: TheoryNotCompatibleError (good)")
except Exception as e:
    print("public calc_scat_matrix:", type(e).__name__, "-", e)
    bad = bad or ch

try:
    t = np.array(Tmatrix().raw_scat_matrs(coated, pos, k, nm))[:, 0, 0]
    m_coated = np.array(Mie(False, False).raw_scat_matrs(coated, pos, k, nm))[:, 0, 0]
    m_core = np.array(Mie(False, False).raw_scat_matrs(core, pos, k, nm))[:, 0, 0]
    print("Tmatrix  S2(coated) :", t)
    print("Mie      S2(coated) :", m_coated)
    print("Mie      S2(core)   :", m_core)
    d_coated = abs(t - m_coated).max() / abs(m_coated).max()
    d_core = abs(t - m_core).max() / abs(m_core).max()
    print("rel. diff to coated sphere: %.3g ; to bare core: %.3g" % (d_coated, d_core))
    if d_coated > 1e-2 and d_core < 1e-4:
        print("=> direct Tmatrix call silently dropped the coating")
        bad = True
except TheoryNotCompatibleError:
    print("direct raw_scat_matrs: TheoryNotCompatibleError (good)")
except Exception as e:
    print("direct raw_scat_matrs raised", type(e).__name__, e)
sys.exit(1 if bad else 0)
