"""C10 / 'never terminates the interpreter' -- further triggers of the Fortran STOP
(the STOP itself is a known finding; these triggers need NO out-of-range Euler angle
and no large particle):
  A. an index-matched particle (n == medium_index): QSCA = QEXT = 0, the convergence
     test DSCA=|(QSCA1-QSCA)/QSCA| is 0/0 = NaN, never <= DDELT, loop runs to NPN1/NPNG1
     and hits STOP (ampld.lp.f:377-385 / 355).
  B. a detector given in spherical coordinates with a negative azimuth (phi in (-pi,pi],
     the numpy arctan2 convention); Mie accepts it, Tmatrix forwards it unreduced to
     AMPL whose range guard (ampld.lp.f:568-575) STOPs.
In both cases the python process ends silently with exit status 0.
Run from the checkout root.  Exit 1 when a child interpreter was terminated."""
import sys, os, subprocess
head = '''
import sys, os; sys.path.insert(0, os.getcwd())
import warnings; warnings.filterwarnings('ignore')
import numpy as np
from holopy.scattering import Sphere, Spheroid, Tmatrix, Mie, calc_field
from holopy.core import detector_grid, detector_points
'''
cases = {
 'A index-matched spheroid': head + '''
det = detector_grid(4, .5)
s = Spheroid(n=1.33, r=(.3, .5), center=(1, 1, 5))
try:
    f = calc_field(det, s, 1.33, .66, (1, 0), theory=Tmatrix())
    print('finite:', bool(np.isfinite(f.values).all()))
except Exception as e:
    print('python exception', type(e).__name__)
print('SURVIVED')
''',
 'A index-matched sphere': head + '''
det = detector_grid(4, .5)
s = Sphere(n=1.33, r=.5, center=(1, 1, 5))
try:
    f = calc_field(det, s, 1.33, .66, (1, 0), theory=Tmatrix())
    print('finite:', bool(np.isfinite(f.values).all()))
except Exception as e:
    print('python exception', type(e).__name__)
print('SURVIVED')
''',
 'B negative detector azimuth': head + '''
det = detector_points(theta=[0.3, 0.3], phi=[0.5, -0.5], r=[10., 10.])
s = Sphere(n=1.59, r=.5, center=(0, 0, 0))
m = calc_field(det, s, 1.33, .66, (1, 0), theory=Mie(False, False))
print('Mie ok, finite:', bool(np.isfinite(m.values).all())); sys.stdout.flush()
try:
    f = calc_field(det, s, 1.33, .66, (1, 0), theory=Tmatrix())
    print('finite:', bool(np.isfinite(f.values).all()))
except Exception as e:
    print('python exception', type(e).__name__)
print('SURVIVED')
''',
}
bad = False
for name, code in cases.items():
    r = subprocess.run([sys.executable, '-c', code], capture_output=True, text=True, cwd=os.getcwd())
    alive = 'SURVIVED' in r.stdout
    print('%-30s exit status %d, stdout=%r -> %s' % (
        name, r.returncode, r.stdout.strip(), 'ok' if alive else 'INTERPRETER TERMINATED'))
    bad = bad or not alive
sys.exit(1 if bad else 0)
