"""C15 repro 7 (loud, extreme magnitudes only): a valid Uniform prior with huge
bounds cannot be reloaded.

Uniform.__init__ computes the default guess as (upper_bound + lower_bound) / 2,
which overflows to inf for bounds above ~9e307 although the midpoint is
representable.  The object is created without complaint (guess=inf), saved as
`guess: .inf`, and on load the constructor rejects its own saved guess.
"""
import sys, os; sys.path.insert(0, os.getcwd())
import io
import numpy as np
np.NaN = np.nan
import holopy as hp
from holopy.inference import prior

p = prior.Uniform(1e308, 1.7e308)
print('constructed:', p)
f = io.BytesIO()
hp.save(f, p)
print(f.getvalue().decode())
f.seek(0)
try:
    back = hp.load(f)
    print('reloaded:', back)
    sys.exit(0 if back == p and np.isfinite(back.guess) else 1)
except Exception as e:
    print('VIOLATION: reload raised %s: %s' % (type(e).__name__, e))
    sys.exit(1)
