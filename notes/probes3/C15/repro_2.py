"""C15 repro 2: ties between priors are lost when a scatterer / prior (not
wrapped in a Model) is saved and reloaded.

HoloPy expresses a tie by using the *same* prior object in several places.
HoloPyObject.to_yaml builds its MappingNode by hand and never registers it in
dumper.represented_objects, so a HoloPy object that occurs twice is never
written as anchor/alias (although plain numbers ARE written as anchors/aliases)
and comes back as two independent copies.  A model built from the reloaded
scatterer therefore has more free parameters than one built from the original.
"""
import sys, os; sys.path.insert(0, os.getcwd())
import io, warnings
import numpy as np
np.NaN = np.nan
import holopy as hp
from holopy.scattering import Sphere, Spheres
from holopy.inference import AlphaModel, prior

warnings.simplefilter('ignore')


def roundtrip(obj):
    f = io.BytesIO()
    hp.save(f, obj)
    text = f.getvalue().decode()
    f.seek(0)
    return text, hp.load(f)


bad = False

# (a) two spheres sharing one radius prior
r = prior.Uniform(.4, .6)
cluster = Spheres([Sphere(n=1.59, r=r, center=[0, 0, 5]),
                   Sphere(n=1.59, r=r, center=[2, 0, 5])])
text, back = roundtrip(cluster)
print(text)
names_before = AlphaModel(cluster)._parameter_names
names_after = AlphaModel(back)._parameter_names
print('library equality  :', cluster == back)
print('tie before reload :', cluster.scatterers[0].r is cluster.scatterers[1].r)
print('tie after reload  :', back.scatterers[0].r is back.scatterers[1].r)
print('model parameters from original scatterer:', names_before)
print('model parameters from reloaded scatterer:', names_after)
bad |= names_before != names_after

# (b) a derived prior that uses its base prior twice
x = prior.Uniform(1, 2)
p = x * x
text, pback = roundtrip(p)
n1 = AlphaModel(Sphere(n=1.5, r=p, center=[0, 0, 1]))._parameter_names
n2 = AlphaModel(Sphere(n=1.5, r=pback, center=[0, 0, 1]))._parameter_names
print('x*x: parameters before', n1, 'after', n2)
bad |= n1 != n2

if bad:
    print('VIOLATION: the reloaded object is "equal" but no longer carries '
          'the ties of the original')
    sys.exit(1)
print('OK')
sys.exit(0)
