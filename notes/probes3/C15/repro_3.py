"""C15 repro 3: a FitResult's cached best-fit hologram is written to the file
but never read back; the reloaded result differs from the saved one and saving
it again does not reproduce the same file.

FitResult.hologram caches its value as `_hologram` and appends that key to
`_kwargs_keys`, so `_serialize_as_dataset` stores the array in the file.
`FitResult._unserialize` however only looks for the keys
['lnprobs', 'samples', '_best_fit'] ('_best_fit' is the pre-rename name of the
attribute), so `_hologram` (and `_guess_hologram`) are dropped on load.
"""
import sys, os; sys.path.insert(0, os.getcwd())
import tempfile, warnings
import numpy as np
np.NaN = np.nan          # sandbox: nmpfit uses np.NaN
import xarray as xr
import holopy as hp
from holopy.scattering import Sphere, calc_holo
from holopy.core.metadata import detector_grid
from holopy.inference import AlphaModel, NmpfitStrategy, prior

warnings.simplefilter('ignore')
det = detector_grid(shape=(10, 10), spacing=.1)
holo = calc_holo(det, Sphere(1.59, .5, [.5, .5, 5]), medium_index=1.33,
                 illum_wavelen=.66, illum_polarization=(1, 0))
model = AlphaModel(Sphere(n=1.59, r=prior.Uniform(.4, .6),
                          center=[.5, .5, prior.Uniform(4, 6)]),
                   alpha=prior.Uniform(.5, 1.), noise_sd=.1)
result = hp.fit(holo, model, NmpfitStrategy(maxiter=2))
result.hologram          # compute + cache the best-fit hologram
result.guess_hologram

d = tempfile.mkdtemp()
fn = os.path.join(d, 'result.h5')
hp.save(fn, result)
with xr.open_dataset(fn, engine='h5netcdf') as ds:
    stored = sorted(ds.data_vars)
back = hp.load(fn)
fn2 = os.path.join(d, 'result2.h5')
hp.save(fn2, back)
with xr.open_dataset(fn2, engine='h5netcdf') as ds:
    stored2 = sorted(ds.data_vars)

print('variables stored in file        :', stored)
print('_kwargs_keys of saved result    :', result._kwargs_keys)
print('_kwargs_keys of reloaded result :', back._kwargs_keys)
print('reloaded has cached _hologram   :', hasattr(back, '_hologram'))
print('variables after re-saving reload:', stored2)

if ('_hologram' in stored and not hasattr(back, '_hologram')) \
        or stored != stored2:
    print('VIOLATION: cached holograms were saved but are not restored; '
          're-saving the reloaded result gives a different file')
    sys.exit(1)
print('OK')
sys.exit(0)
