"""C15 repro 6 (loud, low severity): hp.save(name, fit_result) followed by
hp.load(name) fails when `name` has no extension.

For DataArrays hp.save applies default_extension() (-> name.h5) and hp.load
applies it too.  For FitResult / SamplingResult objects hp.save calls
obj._save(name) which writes to exactly `name`, while hp.load still looks for
`name.h5`; the netCDF file `name` is then fed to the yaml reader and to the
TIFF reader and the call ends in NoMetadata.
"""
import sys, os; sys.path.insert(0, os.getcwd())
import tempfile, warnings
import numpy as np
np.NaN = np.nan
import holopy as hp
from holopy.scattering import Sphere, calc_holo
from holopy.core.metadata import detector_grid
from holopy.inference import AlphaModel, NmpfitStrategy, prior

warnings.simplefilter('ignore')
det = detector_grid(shape=(10, 10), spacing=.1)
holo = calc_holo(det, Sphere(1.59, .5, [.5, .5, 5]), medium_index=1.33,
                 illum_wavelen=.66, illum_polarization=(1, 0))
model = AlphaModel(Sphere(n=1.59, r=prior.Uniform(.4, .6),
                          center=[.5, .5, prior.Uniform(4, 6)]),
                   alpha=prior.Uniform(.5, 1.), noise_sd=.1)
result = hp.fit(holo, model, NmpfitStrategy(maxiter=2))

d = tempfile.mkdtemp()
name = os.path.join(d, 'myfit')
hp.save(name, holo)
print('image  saved as', sorted(os.listdir(d)), '-> load works:',
      hp.load(name).shape)
d = tempfile.mkdtemp()
name = os.path.join(d, 'myfit')
hp.save(name, result)
print('result saved as', sorted(os.listdir(d)))
try:
    back = hp.load(name)
    print('reloaded', type(back))
    sys.exit(0)
except Exception as e:
    print('VIOLATION: hp.load(%r) after hp.save(%r, result) raised %s: %s'
          % ('myfit', 'myfit', type(e).__name__, e))
    sys.exit(1)
