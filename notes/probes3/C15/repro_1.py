"""C15 repro 1: hp.save(name, obj) / hp.load(name) do not agree on the file name.

hp.save writes a non-array HoloPy object (scatterer, model, prior, ...) to
exactly `name`, but hp.load(name) first tries `name + '.h5'` (default_extension)
and only falls back to the yaml reader when that fails.  If a sibling
`name.h5` exists (e.g. the hologram that was saved under the same base name,
which hp.save itself put into `name.h5`), hp.load(name) silently returns that
other object instead of the one that was saved to `name`.
"""
import sys, os; sys.path.insert(0, os.getcwd())
import tempfile, warnings
import numpy as np
np.NaN = np.nan
import holopy as hp
from holopy.scattering import Sphere, calc_holo
from holopy.core.metadata import detector_grid

warnings.simplefilter('ignore')
d = tempfile.mkdtemp()
base = os.path.join(d, 'run1')           # no extension, as allowed by hp.save

sphere = Sphere(n=1.59, r=0.5, center=[0.2, 0.2, 5])
holo = calc_holo(detector_grid(shape=(4, 4), spacing=.1), sphere,
                 medium_index=1.33, illum_wavelen=.66,
                 illum_polarization=(1, 0))

hp.save(base, holo)      # -> run1.h5  (hp.save adds the default extension)
hp.save(base, sphere)    # -> run1     (yaml text, no extension added)
print('files written:', sorted(os.listdir(d)))

back = hp.load(base)     # asks for the file the sphere was written to
print('saved   :', repr(sphere))
print('reloaded:', type(back))

if isinstance(back, Sphere) and back == sphere:
    print('OK: reloaded object is the saved sphere')
    sys.exit(0)
print('VIOLATION: hp.load(%r) did not return the object hp.save(%r, sphere) '
      'wrote; it returned the contents of the sibling run1.h5' % ('run1', 'run1'))
sys.exit(1)
