"""C15 repro 5: TemperedSamplingResult loses its last stage result on
save -> load.

TemperedStrategy.sample() appends the result of EVERY stage strategy
(including the final one) to stage_results, and TemperedSamplingResult._save
writes all of them (groups stage_results[0..n-1]).  TemperedSamplingResult._load
reads only range(len(strategy.stage_strategies) - 1) groups, so the reloaded
object has one stage result fewer than the object that was saved, although the
data is in the file.  Default TemperedStrategy() is used so that the (already
known) loss of the strategy's constructor arguments plays no role: both the
saved and the reloaded strategy have 4 stage strategies.
(emcee is not needed: stage results are assembled by hand exactly the way
TemperedStrategy.sample assembles them.)
"""
import sys, os; sys.path.insert(0, os.getcwd())
import tempfile, warnings
import numpy as np
np.NaN = np.nan
import xarray as xr
import h5py
import holopy as hp
from holopy.scattering import Sphere, calc_holo
from holopy.core.metadata import detector_grid, make_subset_data
from holopy.inference import AlphaModel, TemperedStrategy, prior
from holopy.inference.result import SamplingResult, TemperedSamplingResult

warnings.simplefilter('ignore')
det = detector_grid(shape=(8, 9), spacing=(.1, .12))
holo = calc_holo(det, Sphere(1.59, .5, [.4, .5, 5]), medium_index=1.33,
                 illum_wavelen=.66, illum_polarization=(1, 0))
holo.attrs['noise_sd'] = .05
model = AlphaModel(Sphere(n=1.59, r=prior.Uniform(.4, .6),
                          center=[.4, .5, prior.Uniform(4, 6)]),
                   alpha=prior.Uniform(.5, 1.))
names = model._parameter_names
guess = np.array([p.guess for p in model._parameters])


def fake_sampling(strategy, seed):
    rng = np.random.RandomState(seed)
    data = make_subset_data(holo, 20, seed=seed)
    samples = xr.DataArray(guess * (1 + .01 * rng.rand(4, 3, len(names))),
                           dims=['walker', 'chain', 'parameter'],
                           coords={'parameter': names})
    lnprobs = xr.DataArray(rng.rand(4, 3), dims=['walker', 'chain'])
    return SamplingResult(data, model, strategy, 1.,
                          {'samples': samples, 'lnprobs': lnprobs})


strategy = TemperedStrategy()
# same bookkeeping as TemperedStrategy.sample: one result per stage strategy
stage_results = [fake_sampling(s, i)
                 for i, s in enumerate(strategy.stage_strategies)]
result = TemperedSamplingResult(stage_results[-1], stage_results, strategy, 2.)

fn = os.path.join(tempfile.mkdtemp(), 'tempered.h5')
hp.save(fn, result)
with h5py.File(fn, 'r') as f:
    groups = sorted(k for k in f.keys() if k.startswith('stage_results'))
back = hp.load(fn)
print('stage strategies (saved / reloaded):',
      len(result.strategy.stage_strategies), len(back.strategy.stage_strategies))
print('groups in file                     :', groups)
print('len(stage_results) saved           :', len(result.stage_results))
print('len(stage_results) reloaded        :', len(back.stage_results))
if len(back.stage_results) != len(result.stage_results):
    print('VIOLATION: a stage result that is in the file is not restored')
    sys.exit(1)
print('OK')
sys.exit(0)
