"""C15 repro 4: a result that holds pixel-subset data comes back with an extra,
internal `_flat` attribute on its data (and on every hologram computed from
it).

`FitResult._serialize_as_dataset` stores the flattened coordinates of subset
data in data.attrs['_flat'].  `_unserialize` uses that list to rebuild the
`flat` MultiIndex but then passes the attrs - still containing `_flat` - to the
rebuilt DataArray.  The reloaded result.data therefore has a metadata entry the
saved one did not have, and copy_metadata propagates it to result.hologram.
(emcee is not needed: the SamplingResult is assembled by hand.)
"""
import sys, os; sys.path.insert(0, os.getcwd())
import tempfile, warnings
import numpy as np
np.NaN = np.nan
import xarray as xr
import holopy as hp
from holopy.scattering import Sphere, calc_holo
from holopy.core.metadata import detector_grid, make_subset_data
from holopy.inference import AlphaModel, EmceeStrategy, prior
from holopy.inference.result import SamplingResult

warnings.simplefilter('ignore')
det = detector_grid(shape=(8, 9), spacing=(.1, .12))
holo = calc_holo(det, Sphere(1.59, .5, [.4, .5, 5]), medium_index=1.33,
                 illum_wavelen=.66, illum_polarization=(1, 0))
holo.attrs['noise_sd'] = .05
model = AlphaModel(Sphere(n=1.59, r=prior.Uniform(.4, .6),
                          center=[.4, .5, prior.Uniform(4, 6)]),
                   alpha=prior.Uniform(.5, 1.))
data = make_subset_data(holo, 30, seed=1)
names = model._parameter_names
guess = np.array([p.guess for p in model._parameters])
rng = np.random.RandomState(0)
samples = xr.DataArray(guess * (1 + .01 * rng.rand(4, 5, len(names))),
                       dims=['walker', 'chain', 'parameter'],
                       coords={'parameter': names})
lnprobs = xr.DataArray(rng.rand(4, 5), dims=['walker', 'chain'])
result = SamplingResult(data, model, EmceeStrategy(4, 5, 30, seed=1), 1.5,
                        {'samples': samples, 'lnprobs': lnprobs})

fn = os.path.join(tempfile.mkdtemp(), 'result.h5')
hp.save(fn, result)
back = hp.load(fn)
before = sorted(result.data.attrs)
after = sorted(back.data.attrs)
print('data.attrs of saved result   :', before)
print('data.attrs of reloaded result:', after)
print('values equal:', np.array_equal(result.data.values, back.data.values))
print('hologram.attrs of reloaded   :', sorted(back.hologram.attrs))
if before != after:
    print('VIOLATION: reloaded data carries extra metadata', set(after) - set(before))
    sys.exit(1)
print('OK')
sys.exit(0)
