"""load_average(paths, refimg=..., spacing=...) : the documented override
'spacing ... used preferentially over refimg value if both are provided'
is used only to turn refimg's coordinates into pixel INDICES; the result is then
relabelled with refimg's coordinates.  With a spacing different from refimg's the
average is built from the wrong (repeated) pixels, silently, and still carries
refimg's spacing.
"""
import sys, os; sys.path.insert(0, os.getcwd())
import warnings; warnings.simplefilter('ignore')
import tempfile
import numpy as np
from PIL import Image
from holopy.core.io import load_image, load_average
from holopy.core.metadata import get_spacing

rng = np.random.default_rng(0)
d = tempfile.mkdtemp()
arrs = [rng.integers(1, 255, (12, 16)).astype(np.uint8) for _ in range(3)]
paths = []
for i, a in enumerate(arrs):
    p = os.path.join(d, 'im%d.tif' % i); Image.fromarray(a).save(p); paths.append(p)
batch_mean = np.mean(np.array(arrs, dtype=float), axis=0)

ref = load_image(paths[0], spacing=0.1)
ok = load_average(paths, refimg=ref)
print('no override : equals batch mean?', np.allclose(ok.values[0], batch_mean))
m = load_average(paths, refimg=ref, spacing=0.5)
print('spacing=0.5 : spacing of result', get_spacing(m), ' shape', m.shape)
print('             equals batch mean?', np.allclose(m.values[0], batch_mean))
rows = [int(np.where(np.isclose(batch_mean[:, 0], m.values[0][i, 0]))[0][0]) for i in range(12)]
print('             row i of the result is row', rows, 'of the true mean')
bad = not np.allclose(m.values[0], batch_mean) and np.allclose(get_spacing(m), 0.1)
sys.exit(1 if bad else 0)
