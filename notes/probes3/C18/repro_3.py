"""center_find / make_center_priors return garbage, silently, for the multi-colour
hologram that calc_holo itself produces (dims ('illumination','x','y','z')).

The single-colour hologram of the same sphere is located to 0.01 pixel.
"""
import sys, os; sys.path.insert(0, os.getcwd())
import warnings; warnings.simplefilter('ignore')
import numpy as np
from holopy.core.metadata import detector_grid
from holopy.core.process import center_find
from holopy.core.prior import make_center_priors
from holopy.scattering import calc_holo, Sphere

sp = 0.1
s = Sphere(n=1.59, r=0.5, center=(4.2, 7.1, 10))
true_px = np.array([42., 71.])
det1 = detector_grid((100, 120), sp)
h1 = calc_holo(det1, s, medium_index=1.33, illum_wavelen=0.66, illum_polarization=(1, 0))
det2 = detector_grid((100, 120), sp, extra_dims={'illumination': ['red', 'green']})
h2 = calc_holo(det2, s, medium_index=1.33, illum_wavelen={'red': 0.66, 'green': 0.52},
               illum_polarization=(1, 0))
c1 = center_find(h1); c2 = center_find(h2)
print('single colour dims', h1.dims, '-> centre', c1, '(true', true_px, ')')
print('two colours   dims', h2.dims, '-> centre', c2)
print('make_center_priors(two colours):', make_center_priors(h2)[:2])
# the same two-colour data in the axis order load_image uses is fine
c3 = center_find(h2.transpose('z', 'x', 'y', 'illumination'))
print('same data as (z,x,y,illumination) -> centre', c3)
bad = np.abs(c2 - true_px).max() > 1
sys.exit(1 if bad else 0)
