"""bg_correct with a dark field on unsigned-integer camera frames: raw - dark and
background - dark are formed in the images' own dtype, so every pixel where the
dark frame is brighter than the image wraps around (uint8: 3 - 5 = 254) and the
result is hundreds instead of a small negative number.
"""
import sys, os; sys.path.insert(0, os.getcwd())
import warnings; warnings.simplefilter('ignore')
import numpy as np
from holopy.core.metadata import data_grid
from holopy.core.process import bg_correct

rng = np.random.default_rng(0)
raw_a = rng.integers(60, 200, (6, 6)).astype(np.uint8)
bg_a = rng.integers(100, 200, (6, 6)).astype(np.uint8)
df_a = rng.integers(2, 8, (6, 6)).astype(np.uint8)
raw_a[2, 3] = 3; df_a[2, 3] = 5            # one pixel darker than the dark frame
raw, bg, df = [data_grid(a, spacing=0.1) for a in (raw_a, bg_a, df_a)]
res = bg_correct(raw, bg, df)
expected = (raw_a.astype(float) - df_a) / (bg_a.astype(float) - df_a)
print('pixel (2,3): raw=3 dark=5 bg=%d' % bg_a[2, 3])
print('  bg_correct  :', float(res.values[0, 2, 3]))
print('  (raw-dark)/(bg-dark):', expected[2, 3])
res_f = bg_correct(raw.astype(float), bg.astype(float), df.astype(float))
print('  same frames as float:', float(res_f.values[0, 2, 3]))
bad = not np.allclose(res.values[0], expected)
sys.exit(1 if bad else 0)
