"""subimage with an odd size never returns the requested size: the window is
s-1 or s+1 pixels wide depending on the parity of the centre (half-to-even
rounding of c - s/2 and c + s/2).  The docstring says 'Shape values must be even',
but nothing enforces it and the result is silently of another size.
"""
import sys, os; sys.path.insert(0, os.getcwd())
import warnings; warnings.simplefilter('ignore')
import numpy as np
from holopy.core.metadata import data_grid
from holopy.core.process import subimage
im = data_grid(np.arange(144.).reshape(12, 12) + 1, spacing=0.1)
bad = False
for s in (3, 5):
    got = [(c, subimage(im, (c, c), s).shape[1:]) for c in range(3, 9)]
    print('requested', (s, s), '->', got)
    bad |= any(g != (s, s) for _, g in got)
sys.exit(1 if bad else 0)
