"""bg_correct refuses a cropped hologram and an equally sized background of the
same pixel size, because it compares the two spacings with exact float equality.

The spacing is read as the first coordinate difference; for a crop that starts at
pixel 10 this is 1.1-1.0 = 0.10000000000000009, for the background 0.1-0.0 = 0.1.
"""
import sys, os; sys.path.insert(0, os.getcwd())
import warnings; warnings.simplefilter('ignore')
import numpy as np
from holopy.core.metadata import data_grid, get_spacing
from holopy.core.process import bg_correct, subimage
from holopy.core.errors import BadImage

rng = np.random.default_rng(0)
full = data_grid(rng.random((60, 60)) + 1, spacing=0.1)
bg = data_grid(rng.random((20, 20)) + 1, spacing=0.1)      # background already 20x20
refused = 0; total = 0
for c in range(10, 51, 4):
    raw = subimage(full, (c, c), 20)
    total += 1
    try:
        out = bg_correct(raw, bg)
        assert np.allclose(out.values, raw.values / bg.values)
    except BadImage as e:
        refused += 1
        print('crop centre %2d: BadImage(%s); spacings %r vs %r, allclose=%s'
              % (c, e, get_spacing(raw).tolist(), get_spacing(bg).tolist(),
                 np.allclose(get_spacing(raw), get_spacing(bg))))
print('%d of %d crops refused' % (refused, total))
sys.exit(1 if refused else 0)
