"""bg_correct pairs colour channels (and axes) by POSITION, ignoring their labels.

raw has channels ['red','green']; the background is the very same picture with the
channels stored in the other order ['green','red'] (what load_image(channel=[1,0])
produces).  Shapes and spacings agree, so bg_correct accepts the pair and divides
red by green: an image divided by itself is no longer 1.  Plain labelled division
(raw / bg), which is what bg_correct did before it switched to `.values`, gives 1.
"""
import sys, os; sys.path.insert(0, os.getcwd())
import warnings; warnings.simplefilter('ignore')
import numpy as np
from holopy.core.metadata import data_grid
from holopy.core.process import bg_correct

rng = np.random.default_rng(0)
arr = rng.random((6, 6, 2)) + 1.0            # strictly positive
raw = data_grid(arr, spacing=0.1, medium_index=1.33,
                illum_wavelen={'red': 0.66, 'green': 0.52},
                illum_polarization=(1, 0),
                extra_dims={'illumination': ['red', 'green']})
bg = raw.sel(illumination=['green', 'red'])   # same data, same labels, other order
bg.attrs = raw.attrs

res = bg_correct(raw, bg)
print('channels of raw :', list(raw.illumination.values))
print('channels of bg  :', list(bg.illumination.values))
print('bg_correct(raw, bg)  min/max:', float(res.min()), float(res.max()))
print('labelled raw / bg    min/max:', float((raw / bg).min()), float((raw / bg).max()))
expected = (raw / bg).transpose(*raw.dims).values      # aligned by label
bad = not np.allclose(res.values, expected)
print('VIOLATION: channels divided crosswise' if bad else 'ok')

# same slip for the image axes: a square background stored as (z, y, x)
raw1 = raw.isel(illumination=0, drop=True); raw1.attrs = {}
bgT = raw1.transpose('z', 'y', 'x')
resT = bg_correct(raw1, bgT)
badT = not np.allclose(resT.values, 1.0)
print('transposed background: result all ones?', not badT)
sys.exit(1 if (bad or badT) else 0)
