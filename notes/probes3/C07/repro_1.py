"""C07 repro 1: FitResult.forward / .hologram / .guess_hologram of a result whose
data are a pixel subset (original_dims present) rebuilds the detector at z = 0,
ignoring the z recorded in original_dims.  For an image that does not sit at
z = 0 the "best-fit hologram" is silently computed at the wrong plane."""
import sys, os; sys.path.insert(0, os.getcwd())
import warnings; warnings.filterwarnings('ignore')
import numpy as np
np.NaN = np.nan
import holopy as hp
from holopy.core.metadata import data_grid, update_metadata, make_subset_data
from holopy.scattering import calc_holo, Sphere
from holopy.inference import prior, AlphaModel
from holopy.inference.scipyfit import LeastSquaresScipyStrategy

kw = dict(medium_index=1.33, illum_wavelen=0.66, illum_polarization=(1, 0))
sphere = Sphere(n=1.59, r=0.5, center=(1.0, 1.2, 6.0))
bad = False
for z in (0.0, 2.0):
    det = data_grid(np.zeros((16, 20)), spacing=(0.1, 0.12), z=z)
    data = update_metadata(calc_holo(det, sphere, **kw), noise_sd=0.05)
    model = AlphaModel(
        Sphere(n=1.59, r=prior.Uniform(0.4, 0.6, guess=0.52),
               center=(1.0, 1.2, 6.0)), alpha=1.0)
    np.random.seed(0)
    result = hp.fit(data, model, strategy=LeastSquaresScipyStrategy(npixels=60))
    best = result.hologram                      # goes through FitResult.forward
    expected = calc_holo(data, result.scatterer, **kw)
    diff = float(np.abs(best.transpose(*expected.dims).values
                        - expected.values).max())
    print("image at z=%.1f: fitted r=%.6f; result.hologram z coord=%s "
          "(original_dims z=%s); max|result.hologram - calc_holo(data, "
          "result.scatterer)| = %.3g"
          % (z, result.parameters['r'], best.z.values,
             result.data.original_dims['z'], diff))
    if diff > 1e-8:
        bad = True
print("VIOLATION" if bad else "ok")
sys.exit(1 if bad else 0)
