"""C07 repro 4: copy_metadata(old, data) (default do_coords=True) is meant to find,
for each coordinate of `old` that is missing in `data`, the coordinate of `data`
with the same values and rename it.  The `raise` sits INSIDE the search loop of
find_and_rename, so only the FIRST coordinate of `data` is ever examined: a
matching coordinate in any later position is reported as non-existent."""
import sys, os; sys.path.insert(0, os.getcwd())
import warnings; warnings.filterwarnings('ignore')
import numpy as np, xarray as xr
import holopy as hp
from holopy.core import copy_metadata
from holopy.core.metadata import data_grid

old = data_grid(np.zeros((3, 4)), spacing=(0.1, 0.2), medium_index=1.33,
                illum_wavelen=0.66, illum_polarization=(1, 0))   # dims z, x, y
vals = np.arange(12.).reshape(1, 3, 4)
bad = False
for dims in [('depth', 'x', 'y'), ('z', 'row', 'y'), ('z', 'x', 'col'),
             ('z', 'row', 'col')]:
    new = xr.DataArray(vals, dims=dims, coords={
        dims[0]: old.z.values, dims[1]: old.x.values, dims[2]: old.y.values})
    try:
        out = copy_metadata(old, new)
        ok = out.dims == old.dims and all(
            np.array_equal(out[k].values, old[k].values) for k in 'xyz')
        print(dims, '->', out.dims, 'ok' if ok else 'WRONG LABELS')
        bad |= not ok
    except ValueError as e:
        print(dims, '-> ValueError:', str(e).split(' in <')[0],
              '  (but a coordinate with exactly these values exists)')
        bad = True
print("VIOLATION" if bad else "ok")
sys.exit(1 if bad else 0)
