"""C07 repro 2: explicit points given in spherical coordinates (detector_points(r=,
theta=, phi=)) and the same physical points given in Cartesian coordinates give
different fields for a cluster computed by Mie superposition.  The spherical
triple is silently re-interpreted relative to EACH component sphere's own
centre (ImageFormation._transform_to_desired_coordinates ignores `origin` for
spherical detectors), so the fields of the individual spheres are evaluated at
different physical locations and then added coherently.  Multisphere (one
origin: the cluster centre) agrees between the two ways of giving the points."""
import sys, os; sys.path.insert(0, os.getcwd())
import warnings; warnings.filterwarnings('ignore')
import numpy as np
import holopy as hp
from holopy.core.metadata import detector_points
from holopy.scattering import calc_field, Sphere, Spheres
from holopy.scattering.theory import Mie, Multisphere

kw = dict(medium_index=1.33, illum_wavelen=0.66, illum_polarization=(1, 0))
cluster = Spheres([Sphere(n=1.36, r=0.3, center=(4.0, 5.0, 10.0)),
                   Sphere(n=1.36, r=0.3, center=(6.0, 5.0, 10.0))])
c = np.array(cluster.center)          # (5, 5, 10)
r = np.full(5, 12.0)
theta = np.linspace(0.05, 0.6, 5)
phi = np.linspace(0.0, 3.0, 5)
sph = detector_points(r=r, theta=theta, phi=phi)
cart = detector_points(x=c[0] + r*np.sin(theta)*np.cos(phi),
                       y=c[1] + r*np.sin(theta)*np.sin(phi),
                       z=c[2] - r*np.cos(theta))
out = {}
for name, th in [('Multisphere', Multisphere()), ('Mie superposition', Mie())]:
    fs = calc_field(sph, cluster, theory=th, **kw).values
    fc = calc_field(cart, cluster, theory=th, **kw).values
    scale = np.abs(fc).max()
    out[name] = np.abs(fs - fc).max() / scale
    print("%-18s max|E(spherical pts) - E(same pts, Cartesian)| / max|E| = %.3g"
          % (name, out[name]))
# what the Mie path really computed: each sphere seen from its own centre
manual = 0
for s in cluster.scatterers:
    ci = np.array(s.center)
    pts = detector_points(x=ci[0] + r*np.sin(theta)*np.cos(phi),
                          y=ci[1] + r*np.sin(theta)*np.sin(phi),
                          z=ci[2] - r*np.cos(theta))
    manual = manual + calc_field(pts, s, theory=Mie(), **kw).values
fs = calc_field(sph, cluster, theory=Mie(), **kw).values
print("Mie result at spherical points == sum of single-sphere fields taken at "
      "DIFFERENT physical points (one per sphere):",
      np.allclose(fs, manual, rtol=1e-10, atol=1e-14))
bad = out['Mie superposition'] > 1e-6 and out['Multisphere'] < 1e-9
print("VIOLATION" if bad else "ok")
sys.exit(1 if bad else 0)
