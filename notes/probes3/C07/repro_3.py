"""C07 repro 3: subimage() of a region that sticks out over the low edge of the
image silently returns an EMPTY image (the negative slice start wraps around,
Python style), while the same region sticking out over the high edge is silently
truncated.  No error, no warning, requested shape not honoured."""
import sys, os; sys.path.insert(0, os.getcwd())
import warnings; warnings.filterwarnings('ignore')
import numpy as np
import holopy as hp
from holopy.core.metadata import detector_grid
from holopy.core.process import subimage

img = detector_grid((40, 50), (0.1, 0.12))
img.values[:] = np.arange(img.size).reshape(img.shape)
bad = False
for center, shape in [((20, 25), 10), ((4, 25), 10), ((3, 3), 10),
                      ((38, 48), 10)]:
    sub = subimage(img, center, shape)
    got = (sub.sizes['x'], sub.sizes['y'])
    print("subimage(img 40x50, center=%s, shape=%s) -> %s pixels%s"
          % (center, shape, got,
             "" if got == (shape, shape) else "   <-- silently not 10 x 10"))
    if got != (shape, shape):
        bad = True
print("VIOLATION" if bad else "ok")
sys.exit(1 if bad else 0)
