"""C07 repro 5: make_subset_data keeps a STALE 'original_dims' record.
Since the "subset of a subset" fix, make_subset_data only writes original_dims
when the attribute is absent.  But full (non-flat) images can carry that
attribute too: FitResult.hologram of a subset fit, calc_holo(subset) un-flattened
with from_flat, ... (attrs are copied along).  Cropping such an image and taking a
pixel subset of the crop records the axes of the OLD, uncropped image, so the
subset no longer "remembers the original axes" and FitResult.hologram of the next
fit has the wrong shape / positions."""
import sys, os; sys.path.insert(0, os.getcwd())
import warnings; warnings.filterwarnings('ignore')
import numpy as np
np.NaN = np.nan
import holopy as hp
from holopy.core.metadata import data_grid, update_metadata, make_subset_data
from holopy.core.process import subimage
from holopy.scattering import calc_holo, Sphere
from holopy.inference import prior, AlphaModel
from holopy.inference.scipyfit import LeastSquaresScipyStrategy

kw = dict(medium_index=1.33, illum_wavelen=0.66, illum_polarization=(1, 0))
sphere = Sphere(n=1.59, r=0.5, center=(1.0, 1.2, 6.0))
det = data_grid(np.zeros((20, 24)), spacing=(0.1, 0.12))
data = update_metadata(calc_holo(det, sphere, **kw), noise_sd=0.05)
model = AlphaModel(Sphere(n=1.59, r=prior.Uniform(0.4, 0.6, guess=0.52),
                          center=(1.0, 1.2, 6.0)), alpha=1.0)
np.random.seed(0)
first = hp.fit(data, model, strategy=LeastSquaresScipyStrategy(npixels=60))
image = first.hologram                       # a full 20 x 24 image ...
print("first.hologram: shape", image.shape, "carries original_dims:",
      'original_dims' in image.attrs)
crop = subimage(image, (10, 12), 8)          # ... cropped to 8 x 8
sub = make_subset_data(crop, pixels=10, seed=0)
rec = sub.attrs['original_dims']
print("crop axes        : x %d, y %d" % (crop.sizes['x'], crop.sizes['y']))
print("recorded in subset: x %d, y %d" % (len(rec['x']), len(rec['y'])))
bad = not (np.array_equal(rec['x'], crop.x.values)
           and np.array_equal(rec['y'], crop.y.values))
second = hp.fit(crop, model, strategy=LeastSquaresScipyStrategy(npixels=30))
print("second fit of the 8x8 crop: result.hologram shape", second.hologram.shape)
bad |= second.hologram.shape != crop.shape
print("VIOLATION" if bad else "ok")
sys.exit(1 if bad else 0)
