"""A parameter vector inside the support of every prior that gives a spheroid
(or cylinder) with a negative / zero size is not treated as an invalid
scatterer: lnprior is finite, the hologram IS attempted, and the compiled
T-matrix code then kills the interpreter (segfault, or a silent Fortran STOP
with exit status 0) instead of lnposterior returning -inf.
The same values on a Sphere give lnprior = -inf and no calculation.
The last case is a perfectly valid rod-like spheroid, r = (0.2, 2.0): the
T-matrix code cannot converge, executes a Fortran STOP and the interpreter
exits with status 0; AlphaModel._forward has an `except TmatrixFailure`
branch for this (returning -inf) but nothing in the library raises it."""
import sys, os, subprocess
sys.path.insert(0, os.getcwd())

CHILD = r'''
import sys, os; sys.path.insert(0, os.getcwd())
import warnings, numpy as np
np.NaN = np.nan
warnings.simplefilter('ignore')
from holopy.scattering import Sphere, Spheroid, Cylinder
from holopy.inference import AlphaModel, prior
from holopy.core.metadata import detector_grid, update_metadata
det = detector_grid(shape=(6, 6), spacing=0.2)
det = update_metadata(det, medium_index=1.33, illum_wavelen=0.66,
                      illum_polarization=(1, 0), noise_sd=0.1)
G = prior.Gaussian
case, v = sys.argv[1], float(sys.argv[2])
p = G(.3, .3, name='p')
sc = {'sphere': lambda: Sphere(n=1.5, r=p, center=(1, 1, 5)),
      'spheroid_rxy': lambda: Spheroid(n=1.5, r=(p, .4), center=(1, 1, 5)),
      'spheroid_rz': lambda: Spheroid(n=1.5, r=(.3, p), center=(1, 1, 5)),
      'spheroid_rod': lambda: Spheroid(n=1.5, r=(.2, p), center=(1, 1, 5)),
      'cylinder_d': lambda: Cylinder(n=1.5, d=p, h=.4, center=(1, 1, 5)),
      'cylinder_h': lambda: Cylinder(n=1.5, d=.3, h=p, center=(1, 1, 5))}[case]()
m = AlphaModel(sc, alpha=1)
print('LNPRIOR', m.lnprior({'p': v}), flush=True)
print('LNPOST', m.lnposterior({'p': v}, det + 1.), flush=True)
'''

violation = False
for case, v in [('sphere', -0.2), ('spheroid_rxy', -0.2), ('spheroid_rz', -0.2),
                ('spheroid_rxy', 0.0), ('cylinder_d', -0.2), ('cylinder_h', -0.2),
                ('spheroid_rod', 0.25), ('spheroid_rod', 2.0)]:
    out = subprocess.run([sys.executable, '-c', CHILD, case, str(v)],
                         capture_output=True, text=True, timeout=600)
    lines = dict(l.split(' ', 1) for l in out.stdout.splitlines()
                 if l.startswith('LN'))
    lnprior = lines.get('LNPRIOR')
    lnpost = lines.get('LNPOST')
    print('%-13s size=%5s  lnprior=%s  lnposterior=%s  child exit status=%s' % (
        case, v, lnprior, lnpost if lnpost is not None else '<process died>',
        out.returncode))
    if lnpost is None:
        violation = True
if violation:
    print('VIOLATION: in-support parameter values (unphysical sizes, or a valid rod) are not '
          'turned into -inf: evaluating the posterior kills the interpreter')
sys.exit(1 if violation else 0)
