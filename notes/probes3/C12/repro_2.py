"""Model.medium_index / illum_wavelen / illum_polarization (public properties
that report the optics stored on the model) raise MissingParameter naming a
DIFFERENT quantity unless all three optics were given to the model, although
optics may legitimately be split between the model and the data."""
import sys, os; sys.path.insert(0, os.getcwd())
import warnings
import numpy as np
np.NaN = np.nan
warnings.simplefilter('ignore')
from holopy.scattering import Sphere, calc_holo
from holopy.inference import AlphaModel, prior
from holopy.core.metadata import detector_grid, update_metadata

s = Sphere(n=prior.Gaussian(1.59, 0.1), r=prior.Uniform(0.3, 0.8),
           center=(prior.Uniform(0, 1), 0.3, prior.Uniform(1, 10)))
m = AlphaModel(s, alpha=prior.Uniform(0.5, 1), medium_index=1.33)

# the model itself works: the remaining optics come from the data
det = update_metadata(detector_grid(6, 0.2), illum_wavelen=0.66,
                      illum_polarization=(1, 0), noise_sd=0.1)
pars = {'n': 1.6, 'r': 0.5, 'center.0': 0.4, 'center.2': 4, 'alpha': 0.8}
print('lnposterior works:', m.lnposterior(pars, det + 1.0))

violation = False
try:
    print('model.medium_index =', m.medium_index)
except Exception as e:
    violation = True
    print('model.medium_index (given as 1.33) raised %s: %s'
          % (type(e).__name__, e))
sys.exit(1 if violation else 0)
