"""Uniform and Gaussian priors cache their log-normalisation in __init__
(_lnprob / _lnprob_normalization).  Changing the public attributes afterwards
(upper_bound, lower_bound, sd) changes the support test and prob(), but
lnprob() keeps the stale constant: lnprob != log(prob) on the same object,
a model holding the prior returns a log-prior that is not the log-density,
and the object and its saved/reloaded copy (which compare equal) disagree."""
import sys, os; sys.path.insert(0, os.getcwd())
import warnings
import numpy as np
np.NaN = np.nan
warnings.simplefilter('ignore')
from holopy.scattering import Sphere
from holopy.inference import AlphaModel, prior
from holopy.core.io.io import save, load

violation = False
u = prior.Uniform(0, 1)
g = prior.Gaussian(1.5, 0.1)
m = AlphaModel(Sphere(n=g, r=u, center=(1, 1, 5)), alpha=1)
print('lnprior before:', m.lnprior({'n': 1.5, 'r': 0.5}))
u.upper_bound = 4          # widen the radius prior
g.sd = 0.5                 # widen the index prior
lp = m.lnprior({'n': 1.5, 'r': 0.5})
expected = np.log(u.prob(0.5)) + np.log(g.prob(1.5))
print('lnprior after widening both priors:', lp,
      ' log of the densities reported by prob():', expected)
for name, p, x in [('Uniform', u, 0.5), ('Gaussian', g, 1.5)]:
    fn = os.path.join('/tmp/probe3_out/C12', '_tmp_prior.h5')
    save(fn, p)
    q = load(fn)
    os.remove(fn)
    print('%s: lnprob=%s log(prob)=%s reloaded copy lnprob=%s equal objects: %s'
          % (name, p.lnprob(x), np.log(p.prob(x)), q.lnprob(x), p == q))
    if not np.isclose(p.lnprob(x), np.log(p.prob(x))) or \
            not np.isclose(p.lnprob(x), q.lnprob(x)):
        violation = True
if not np.isclose(lp, expected):
    violation = True
if violation:
    print('VIOLATION: lnprob uses a normalisation cached at construction')
sys.exit(1 if violation else 0)
