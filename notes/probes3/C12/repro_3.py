"""add_tie with a name listed twice silently deletes an unrelated parameter
(here the x coordinate of the second sphere) and re-points its map entry at
another parameter (the z coordinate of the first sphere): the two are tied
behind the caller's back and the deleted prior no longer enters lnprior."""
import sys, os; sys.path.insert(0, os.getcwd())
import warnings
import numpy as np
np.NaN = np.nan
warnings.simplefilter('ignore')
from holopy.scattering import Sphere, Spheres, Mie
from holopy.inference import AlphaModel, prior
from holopy.core.mapping import read_map

U = prior.Uniform


def build():
    s0 = Sphere(n=1.59, r=U(0.3, 0.8), center=(U(0, 1), 0.5, U(2, 8)))
    s1 = Sphere(n=1.59, r=U(0.3, 0.8), center=(U(2, 3), 0.5, U(2, 8)))
    return AlphaModel(Spheres([s0, s1]), alpha=U(0.5, 1), theory=Mie(),
                      noise_sd=U(0.01, 0.5))


good = build()
good.add_tie(['0:r', '1:r'])
bad = build()
bad.add_tie(['0:r', '1:r', '1:r'])       # same tie, one name repeated

print('tie without repeat :', good._parameter_names)
print('tie with repeat    :', bad._parameter_names)
values = {name: 100 + i for i, name in enumerate(bad._parameter_names)}
print('values given       :', values)
scat = bad.scatterer_from_parameters(values)
print('scatterer built    :', scat.scatterers[0], scat.scatterers[1])
print("sphere 1 x = %s is the value given for '0:center.2'" % scat.scatterers[1].center[0])

lost = set(good._parameter_names) - set(bad._parameter_names)
violation = len(lost) > 0
if violation:
    print('VIOLATION: parameter(s) %s vanished without any error; '
          'its map entry now reads another parameter' % sorted(lost))
sys.exit(1 if violation else 0)
