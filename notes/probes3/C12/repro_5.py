"""lnposterior(..., pixels=n) on data defined on detector_points (a 1-d list
of points, which core.metadata.flat() explicitly treats as already flat, and
for which lnlike/lnposterior without `pixels` work) fails with a bare
KeyError: 'flat' inside make_subset_data."""
import sys, os; sys.path.insert(0, os.getcwd())
import warnings
import numpy as np
np.NaN = np.nan
warnings.simplefilter('ignore')
from holopy.scattering import Sphere
from holopy.inference import AlphaModel, prior
from holopy.core.metadata import detector_points, update_metadata, make_subset_data

U = prior.Uniform
rng = np.random.default_rng(0)
pts = detector_points(x=rng.random(15) * 3, y=rng.random(15) * 3, z=0.5)
pts = update_metadata(pts, 1.33, 0.66, (1, 0), 0.1)
data = pts.copy(data=1 + .1 * rng.standard_normal(15))
m = AlphaModel(Sphere(n=U(1.4, 1.7), r=U(.3, .8), center=(U(0, 3), 1.2, U(2, 8))),
               alpha=U(.5, 1))
vals = {'n': 1.5, 'r': .5, 'center.0': 1., 'center.2': 4, 'alpha': .7}
print('lnposterior on all 15 points:', m.lnposterior(vals, data))
violation = False
try:
    print('lnposterior on 5 of them    :', m.lnposterior(vals, data, pixels=5))
except Exception as e:
    violation = True
    print('lnposterior(pixels=5) raised %s: %s' % (type(e).__name__, e))
sys.exit(1 if violation else 0)
