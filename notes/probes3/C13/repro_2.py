"""C13 repro 2: for a fit on a random pixel subset, FitResult.hologram is NOT the
forward model at the reported parameters when the detector plane is not at z=0:
FitResult.forward() rebuilds the full detector from `original_dims` but drops its
z coordinate (detector_grid(...) always puts the grid at z=0)."""
import sys, os; sys.path.insert(0, os.getcwd())
import warnings; warnings.filterwarnings('ignore')
import numpy as np
np.NaN = np.nan                      # sandbox: numpy 2 (needed by nmpfit)
import holopy as hp
from holopy.scattering import Sphere, calc_holo
from holopy.core.metadata import detector_grid, update_metadata, make_subset_data
from holopy.inference import (prior, AlphaModel, NmpfitStrategy,
                              LeastSquaresScipyStrategy)

print(hp.__file__)
det = update_metadata(detector_grid(20, 0.1), medium_index=1.33,
                      illum_wavelen=0.66, illum_polarization=(1, 0),
                      noise_sd=0.01)
det = det.assign_coords(z=[2.0])          # detector plane 2 um above the origin
sph = Sphere(n=1.59, r=0.5, center=(1.0, 0.9, 10))
data = calc_holo(det, sph, scaling=0.8)
guess = Sphere(n=1.59, r=prior.Uniform(0.3, 0.8, 0.51),
               center=(prior.Uniform(0, 3, 1.02), prior.Uniform(0, 3, .91),
                       prior.Uniform(5, 15, 10.1)))
model = AlphaModel(guess, alpha=prior.Uniform(0.5, 1, 0.75))

bad = False
cases = [('nmpfit, full image', NmpfitStrategy(), data),
         ('nmpfit, user-made subset', NmpfitStrategy(),
          make_subset_data(data, pixels=150, seed=2)),
         ('scipy lsq, npixels=150', LeastSquaresScipyStrategy(npixels=150),
          data)]
for label, strategy, d in cases:
    np.random.seed(0)
    result = hp.fit(d, model, strategy=strategy)
    truth = model.forward(result.parameters, data)   # forward model, same pars
    holo = result.hologram
    diff = float(np.abs(holo.values.squeeze() - truth.values.squeeze()).max())
    print('{:28s} pars ok: {}  hologram.z = {}  max|hologram - forward| = {:.3g}'
          .format(label, abs(result.parameters['center.2'] - 10) < 1e-6,
                  holo.z.values, diff))
    if diff > 1e-8:
        bad = True
if bad:
    print('VIOLATION: result.hologram differs from the forward model at the '
          'reported parameters (detector z was replaced by 0)')
sys.exit(1 if bad else 0)
