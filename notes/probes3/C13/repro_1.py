"""C13 repro 1: a FitResult obtained on a random pixel subset of a two-colour
hologram (made by the library's own calc_holo) is written by hp.save without
complaint, but the file cannot be read back by hp.load."""
import sys, os; sys.path.insert(0, os.getcwd())
import warnings; warnings.filterwarnings('ignore')
import tempfile
import numpy as np
np.NaN = np.nan                      # sandbox: numpy 2 (needed by nmpfit)
import holopy as hp
from holopy.scattering import Sphere, calc_holo
from holopy.core.metadata import detector_grid, update_metadata, make_subset_data
from holopy.inference import prior, AlphaModel, NmpfitStrategy

print(hp.__file__)
det = detector_grid(16, 0.1, extra_dims={'illumination': ['red', 'green']})
sph = Sphere(n=1.59, r=0.5, center=(0.8, 0.7, 8))
data = calc_holo(det, sph, medium_index=1.33,
                 illum_wavelen={'red': 0.66, 'green': 0.52},
                 illum_polarization=(1, 0), scaling=0.8)
data = update_metadata(data, noise_sd=0.01)
print('dims of the calculated hologram:', [type(d).__name__ for d in data.dims])

guess = Sphere(n=1.59, r=prior.Uniform(0.3, 0.8, 0.51),
               center=(prior.Uniform(0, 2, 0.81), prior.Uniform(0, 2, 0.71),
                       prior.Uniform(5, 15, 8.1)))
model = AlphaModel(guess, alpha=prior.Uniform(0.5, 1, 0.75))
subset = make_subset_data(data, pixels=100, seed=1)
result = hp.fit(subset, model, strategy=NmpfitStrategy())
print('fit ok:', result.parameters)

fname = tempfile.mktemp(suffix='.h5')
hp.save(fname, result)
print('saved without error')
try:
    reloaded = hp.load(fname)
except Exception as e:
    print('VIOLATION: hp.load of the saved result fails:',
          type(e).__name__, str(e).splitlines()[0])
    sys.exit(1)
ok = reloaded.parameters == result.parameters
print('reloaded, parameters equal:', ok)
sys.exit(0 if ok else 1)
