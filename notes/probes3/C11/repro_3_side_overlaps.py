"""Side observation (spherecluster.py, outside the C11 statement): Spheres.overlaps reports
far-apart spheres as overlapping (and emits OverlapWarning) as soon as a centre coordinate
is a prior, because `np.float64 < TransformedPrior` dispatches to Prior.__array_ufunc__ and
returns a (truthy) TransformedPrior instead of raising TypeError.
exit 1 = problem present
"""
import sys, os; sys.path.insert(0, os.getcwd())
import warnings
import numpy as np
np.NaN = np.nan
import holopy
from holopy.scattering import Sphere, Spheres
from holopy.core.prior import Uniform

with warnings.catch_warnings(record=True) as w:
    warnings.simplefilter('always')
    s = Spheres([Sphere(n=1.59, r=0.5, center=[Uniform(-1, 1), 0, 0]),
                 Sphere(n=1.59, r=0.5, center=[10, 10, 10])])
    ov = s.overlaps
print('overlaps =', ov, '| warnings:', [type(x.message).__name__ for x in w])
fixed = Spheres([Sphere(n=1.59, r=0.5, center=[0, 0, 0]),
                 Sphere(n=1.59, r=0.5, center=[10, 10, 10])])
print('same cluster at the guess: overlaps =', fixed.overlaps)
bad = ov != []
print('VIOLATION' if bad else 'ok')
sys.exit(1 if bad else 0)
