"""C11 - explicit prior name containing ':' is silently replaced when the prior is
shared between members of a collection (Mapper.get_parameter_index rename heuristic).

Run from the checkout root:  /venv/bin/python /tmp/probe3_out/C11/repro_1.py
exit 1 = violation present
"""
import sys, os; sys.path.insert(0, os.getcwd())
import warnings; warnings.filterwarnings('ignore')
import numpy as np
np.NaN = np.nan
import holopy
from holopy.scattering import Sphere, Spheres
from holopy.inference import AlphaModel
from holopy.core.prior import Uniform

print('holopy from', holopy.__file__)
bad = False

# the user gives the shared radius prior an explicit name
shared_r = Uniform(0.4, 0.6, name='dimer:r')

# used once -> the explicit name is honoured
once = AlphaModel(Spheres([Sphere(n=1.59, r=shared_r, center=[0, 0, 5]),
                           Sphere(n=1.59, r=0.5, center=[2, 0, 5])]))
print('used once  :', once._parameter_names)

# used at the same site of two spheres -> the explicit name is dropped
twice = AlphaModel(Spheres([Sphere(n=1.59, r=shared_r, center=[0, 0, 5]),
                            Sphere(n=1.59, r=shared_r, center=[2, 0, 5])]))
print('used twice :', twice._parameter_names)
if 'dimer:r' not in twice._parameter_names:
    bad = True
    print("  -> explicit name 'dimer:r' was replaced by", twice._parameter_names)
    try:
        twice.scatterer_from_parameters({'dimer:r': 0.5})
    except KeyError as e:
        print('  -> name-keyed values with the user-chosen name fail: KeyError', e)

# an explicit name without ':' is kept in the same situation (two code paths disagree)
plain = Uniform(0.4, 0.6, name='dimer_r')
kept = AlphaModel(Spheres([Sphere(n=1.59, r=plain, center=[0, 0, 5]),
                           Sphere(n=1.59, r=plain, center=[2, 0, 5])]))
print("name without ':' :", kept._parameter_names)

# the surviving name can also be misleading: prior explicitly called '1:r',
# shared by spheres 1 and 2 only, ends up as 'r' next to '0:r'
p12 = Uniform(0.4, 0.6, name='1:r')
three = AlphaModel(Spheres([Sphere(n=1.59, r=Uniform(0.4, 0.6), center=[0, 0, 5]),
                            Sphere(n=1.59, r=p12, center=[2, 0, 5]),
                            Sphere(n=1.59, r=p12, center=[4, 0, 5])]))
print('three spheres :', three._parameter_names)
if '1:r' not in three._parameter_names:
    bad = True

print('VIOLATION' if bad else 'ok')
sys.exit(1 if bad else 0)
