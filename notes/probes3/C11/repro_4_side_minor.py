"""Two small side observations in the anchored modules (neither changes parameter values):
 (i)  Model.medium_index / illum_wavelen / illum_polarization properties evaluate ALL optics
      entries, so asking for one that the model has raises MissingParameter for another one.
 (ii) ScatteringTheory.from_parameters (hence Model.theory_from_parameters) hands the SAME
      calculator_accuracy_kwargs dict to every theory it builds, so editing it on one built
      theory changes the model's theory and all later ones.
exit 1 = at least one present
"""
import sys, os; sys.path.insert(0, os.getcwd())
import warnings; warnings.filterwarnings('ignore')
import numpy as np
np.NaN = np.nan
import holopy
from holopy.scattering import Sphere
from holopy.scattering.theory import MieLens
from holopy.scattering.errors import MissingParameter
from holopy.inference import AlphaModel
from holopy.core.prior import Uniform

bad = False
s = Sphere(n=1.59, r=Uniform(0.4, 0.6), center=[1, 1, 5])
m = AlphaModel(s, medium_index=Uniform(1.3, 1.4))
try:
    print('model.medium_index =', m.medium_index)
except MissingParameter as e:
    bad = True
    print('(i) model.medium_index raised:', str(e).strip())

th = MieLens(lens_angle=Uniform(0.6, 1.0), calculator_accuracy_kwargs={'quad_npts': 100})
m = AlphaModel(s, theory=th)
t1 = m.theory_from_parameters({'r': 0.5, 'lens_angle': 0.8})
t1.calculator_accuracy_kwargs['quad_npts'] = 7        # caller tweaks ITS theory
t2 = m.theory_from_parameters({'r': 0.5, 'lens_angle': 0.8})
print('(ii) model.theory kwargs now:', m.theory.calculator_accuracy_kwargs,
      '| next built theory:', t2.calculator_accuracy_kwargs)
if m.theory.calculator_accuracy_kwargs['quad_npts'] != 100:
    bad = True
print('VIOLATION' if bad else 'ok')
sys.exit(1 if bad else 0)
