"""Side observation (serialisation of Model, adjacent to C11): ExactModel.calc_func is not
part of Model._iteritems, so it is lost by yaml save/load (silently replaced by calc_holo)
and ignored by ==.
exit 1 = problem present
"""
import sys, os; sys.path.insert(0, os.getcwd())
import warnings; warnings.filterwarnings('ignore')
import numpy as np
np.NaN = np.nan
import yaml
import holopy
from holopy.scattering import Sphere, calc_intensity, calc_holo
from holopy.inference import ExactModel
from holopy.core.prior import Uniform
from holopy.core.holopy_object import FullLoader
from holopy.core.metadata import detector_grid

s = Sphere(n=1.59, r=Uniform(0.4, 0.6), center=[1, 1, 5])
m = ExactModel(s, calc_func=calc_intensity, noise_sd=0.1, medium_index=1.33,
               illum_wavelen=0.66, illum_polarization=(1, 0))
m2 = yaml.load(yaml.dump(m), Loader=FullLoader)
print('before:', m.calc_func.__name__, ' after yaml round trip:', m2.calc_func.__name__)
print('models compare equal:', m == m2,
      '| ExactModel(calc_intensity) == ExactModel(calc_holo):',
      m == ExactModel(s, calc_func=calc_holo, noise_sd=0.1, medium_index=1.33,
                      illum_wavelen=0.66, illum_polarization=(1, 0)))
det = detector_grid(8, 0.1)
f1 = m.forward([0.5], det); f2 = m2.forward([0.5], det)
print('max |forward difference| =', float(abs(f1 - f2).max()))
bad = m2.calc_func is not m.calc_func
print('VIOLATION' if bad else 'ok')
sys.exit(1 if bad else 0)
