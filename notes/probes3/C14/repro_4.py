"""Dividing a prior by a NumPy zero silently builds a prior with infinite
guess/samples, although prior / 0 raises ZeroDivisionError, np.true_divide(prior,
np.float64(0)) raises, and multiplying by 0 is refused.  Likewise a 0-d array 0
multiplies a prior without complaint."""
import sys, os; sys.path.insert(0, os.getcwd())
import warnings; warnings.simplefilter('ignore')
import numpy as np
from holopy.core.prior import Uniform, Prior

u = Uniform(1, 2)
bad = False
def attempt(label, f):
    global bad
    try:
        r = f()
    except (ZeroDivisionError, TypeError) as e:
        print('%-34s raises %s' % (label, type(e).__name__))
        return
    print('%-34s returns %s with guess %r' % (label, type(r).__name__, r.guess))
    bad = True
attempt('u / 0', lambda: u / 0)
attempt('np.true_divide(u, np.float64(0))', lambda: np.true_divide(u, np.float64(0)))
attempt('u / np.float64(0)', lambda: u / np.float64(0))
attempt('u / np.int64(0)', lambda: u / np.int64(0))
attempt('u / np.float32(0)', lambda: u / np.float32(0))
attempt('np.array(0.) * u', lambda: np.array(0.) * u)
sys.exit(1 if bad else 0)
