"""make_center_priors documents 'z_range_units : float' but the value is
star-unpacked into Uniform(*z_range), so the documented call crashes; only an
undocumented (lower, upper) pair works."""
import sys, os; sys.path.insert(0, os.getcwd())
import warnings; warnings.simplefilter('ignore')
from holopy.scattering import Sphere, calc_holo
from holopy.core.metadata import detector_grid
from holopy.core.prior import make_center_priors
im = calc_holo(detector_grid((60, 60), 0.1), Sphere(n=1.59, r=0.5, center=(3, 3, 10)),
               medium_index=1.33, illum_wavelen=0.66, illum_polarization=(1, 0))
print('pair :', make_center_priors(im, z_range_units=(5, 15))[2])
try:
    print('float:', make_center_priors(im, z_range_units=20.)[2])
    sys.exit(0)
except TypeError as e:
    print('float: TypeError', e)
    sys.exit(1)
