"""make_center_priors returns silently wrong x/y centre priors for images whose
dims are not exactly (x, y[, trailing singleton]): multi-channel holograms
(illumination, x, y, z) as produced by detector_grid(extra_dims=...) and
(z, y, x)-ordered images.  The single-channel (x, y, z) image of the same
particle gives the right answer."""
import sys, os; sys.path.insert(0, os.getcwd())
import warnings; warnings.simplefilter('ignore')
import numpy as np, xarray as xr
from holopy.scattering import Sphere, calc_holo
from holopy.core.metadata import detector_grid
from holopy.core.prior import make_center_priors

true_xy = np.array([4.0, 6.0])
s = Sphere(n=1.59, r=0.5, center=(4, 6, 10))
kw = dict(medium_index=1.33, illum_polarization=(1, 0))

mono = calc_holo(detector_grid((100, 100), 0.1), s, illum_wavelen=0.66, **kw)
det2 = detector_grid((100, 100), 0.1, extra_dims={'illumination': ['red', 'green']})
wl = xr.DataArray([0.66, 0.52], dims=['illumination'],
                  coords={'illumination': ['red', 'green']})
multi = calc_holo(det2, s, illum_wavelen=wl, **kw)
transposed = mono.transpose('z', 'y', 'x')

bad = False
for label, im in [('mono (x,y,z)', mono), ('two-colour (illumination,x,y,z)', multi),
                  ('transposed (z,y,x)', transposed)]:
    px, py, pz = make_center_priors(im)
    got = np.array([px.mu, py.mu])
    err = np.abs(got - true_xy)
    # prior sd is one pixel (0.1); anything off by > 5 sd is a wrong prior
    wrong = bool(np.any(err > 5 * np.array([px.sd, py.sd])))
    print('%-34s dims=%s  x,y prior means = %s (true %s), sd=%s -> %s'
          % (label, im.dims, got.round(3), true_xy, (float(px.sd), float(py.sd)),
             'WRONG' if wrong else 'ok'))
    if wrong and label != 'mono (x,y,z)':
        bad = True
sys.exit(1 if bad else 0)
