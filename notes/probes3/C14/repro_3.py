"""Gaussian/Uniform cache the log-normalisation at construction
(_lnprob_normalization, _lnprob) while prob(), variance, interval and sample()
read the live attributes.  After a parameter is changed on the object
(prior.sd = ..., prior.upper_bound = ...) lnprob is neither the old nor the new
density: lnprob != log(prob), exp(lnprob) no longer integrates to 1, and a
saved-and-reloaded copy that compares == gives a different lnprob."""
import sys, os; sys.path.insert(0, os.getcwd())
import warnings; warnings.simplefilter('ignore')
import numpy as np, yaml
from scipy import integrate
from holopy.core.prior import Gaussian, Uniform

bad = False
g = Gaussian(0, 1)
g.sd = 3.0
reloaded = yaml.load(yaml.dump(g), Loader=yaml.FullLoader)
I = integrate.quad(lambda x: np.exp(g.lnprob(x)), -40, 40)[0]
print('Gaussian sd 1 -> 3: lnprob(1)=%.6f  log(prob(1))=%.6f  reloaded.lnprob(1)=%.6f  (g == reloaded: %s)  integral exp(lnprob)=%.4f'
      % (g.lnprob(1.0), np.log(g.prob(1.0)), reloaded.lnprob(1.0), g == reloaded, I))
if not np.isclose(g.lnprob(1.0), np.log(g.prob(1.0))):
    bad = True

u = Uniform(0, 1)
u.upper_bound = 10
reloaded = yaml.load(yaml.dump(u), Loader=yaml.FullLoader)
print('Uniform upper 1 -> 10: lnprob(5)=%.6f  log(prob(5))=%.6f  reloaded.lnprob(5)=%.6f  (u == reloaded: %s)'
      % (u.lnprob(5), np.log(u.prob(5)), reloaded.lnprob(5), u == reloaded))
if not np.isclose(u.lnprob(5), np.log(u.prob(5))):
    bad = True
sys.exit(1 if bad else 0)
