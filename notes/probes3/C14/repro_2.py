"""Mapper.convert_to_map / read_map do not round-trip derived priors:
a ComplexPrior comes back as a generic TransformedPrior(complex, ...) (no
lnprob/prob, no .real/.imag) and every TransformedPrior loses its name.
Visible through the public Model.scatterer property: re-modelling the returned
scatterer silently renames the parameters (n.real -> n.0, myr.0 -> r.0)."""
import sys, os; sys.path.insert(0, os.getcwd())
import warnings; warnings.simplefilter('ignore')
import numpy as np
from holopy.core.prior import Uniform, Gaussian, ComplexPrior, TransformedPrior
from holopy.core.mapping import Mapper, read_map
from holopy.scattering import Sphere
from holopy.inference import AlphaModel

bad = False
# --- bare mapper
n = ComplexPrior(Uniform(1.5, 1.7), Uniform(0, 0.1), name='index')
r = TransformedPrior(np.add, [Uniform(0.4, 0.6), Uniform(0, 0.01)], name='myr')
mapper = Mapper()
the_map = mapper.convert_to_map({'n': n, 'r': r})
back = read_map(the_map, mapper.parameters)
print('names          :', mapper.parameter_names)
print('n before / after:', type(n).__name__, n.name, '/', type(back['n']).__name__, back['n'].name)
print('r before / after:', type(r).__name__, r.name, '/', type(back['r']).__name__, back['r'].name)
if type(back['n']) is not ComplexPrior or back['n'].name != 'index' or back['r'].name != 'myr':
    bad = True
if not (back['n'] == n and back['r'] == r):
    print('round-tripped priors are != originals')
    bad = True
try:
    print('lnprob orig', n.lnprob(1.6 + 0.05j), ' lnprob after', back['n'].lnprob(1.6 + 0.05j))
except NotImplementedError as e:
    print('lnprob after round trip raises NotImplementedError:', e)
    bad = True

# --- through Model
s = Sphere(n=ComplexPrior(Uniform(1.5, 1.7), Uniform(0, 0.1)), r=r, center=[5, 5, Uniform(5, 15)])
kw = dict(noise_sd=0.1, medium_index=1.33, illum_wavelen=0.66, illum_polarization=(1, 0))
m1 = AlphaModel(s, **kw)
m2 = AlphaModel(m1.scatterer, **kw)
print('model names            :', m1._parameter_names)
print('model(model.scatterer) :', m2._parameter_names)
if m1._parameter_names != m2._parameter_names:
    bad = True
sys.exit(1 if bad else 0)
