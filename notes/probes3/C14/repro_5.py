"""Density is positive outside the declared support:
 (a) ComplexPrior with a fixed part ignores that part of the evaluation point,
     so prob() is 1/interval (or 1.0 when both parts are fixed) for points whose fixed
     component does not match;
 (b) Uniform.lnprob/prob(NaN) return the in-support value (0.0 / 1.0) because the
     support test is written as 'p < lower or p > upper'."""
import sys, os; sys.path.insert(0, os.getcwd())
import warnings; warnings.simplefilter('ignore')
import numpy as np
from holopy.core.prior import Uniform, ComplexPrior

bad = False
cp = ComplexPrior(Uniform(1, 2), 0.1)          # support: real in [1,2], imag == 0.1
for p in [1.5 + 0.1j, 1.5 + 0.7j, 1.5 - 3j]:
    print('ComplexPrior(Uniform(1,2), 0.1).prob(%r) = %r' % (p, cp.prob(p)))
if cp.prob(1.5 - 3j) != 0:
    bad = True
cp2 = ComplexPrior(1.5, 0.1)
print('ComplexPrior(1.5, 0.1).prob(7+7j) =', cp2.prob(7 + 7j))
if cp2.prob(7 + 7j) != 0:
    bad = True
u = Uniform(0, 1)
print('Uniform(0,1).prob(nan) =', u.prob(np.nan), ' lnprob(nan) =', u.lnprob(np.nan))
if u.prob(np.nan) == 1:
    bad = True
sys.exit(1 if bad else 0)
