"""Tmatrix theory, given a plain homogeneous Sphere, returns a scattered field whose
component perpendicular to the scattering plane is built from S2 instead of S1
(the 2x2 matrices returned by Tmatrix._run_tmat are transposed, and raw_fields
multiplies them by the azimuthal rotation on the wrong side).  Mie, Multisphere and
a textbook Mie series agree with each other; Tmatrix does not, for every detector
point with phi != 0 (mod pi) wherever S1 != S2."""
import sys, os; sys.path.insert(0, os.getcwd())
import warnings; warnings.filterwarnings('ignore')
import numpy as np
import holopy
from holopy.core import detector_points
from holopy.scattering import Sphere, Mie, Multisphere, calc_field, calc_scat_matrix
from holopy.scattering.theory import Tmatrix

wl, nmed = 0.66, 1.33
sphere = Sphere(n=1.59, r=0.5, center=(0, 0, 3.0))
# far-ish detector points at several azimuths; first one is in the phi = 0 plane
det = detector_points(x=[10., 8., -9., 0., 7.], y=[0., -6., 10., 9., 7.], z=0)
pol = (1, 0)          # the only polarisation Tmatrix accepts
# Tmatrix is a far-field theory: compare it with Mie in its far-field mode
mie = calc_field(det, sphere, nmed, wl, pol, theory=Mie(False, False)).values
tm = calc_field(det, sphere, nmed, wl, pol, theory=Tmatrix()).values
# Multisphere keeps the full radial dependence: compare it with the matching Mie mode
mie_full = calc_field(det, sphere, nmed, wl, pol, theory=Mie(False, True)).values
ms = calc_field(det, sphere, nmed, wl, pol, theory=Multisphere()).values
scale = np.abs(mie).max(axis=1)
err_ms = np.abs(ms - mie_full).max(axis=1) / scale
err_tm = np.abs(tm - mie).max(axis=1) / scale
print("relative difference Multisphere vs Mie per point:", err_ms.round(4))
print("relative difference Tmatrix     vs Mie per point:", err_tm.round(4))

# A Rayleigh sphere lit with x-polarised light must scatter towards +y (dipole along x
# radiates maximally in the yz plane); Tmatrix returns (almost) nothing there.
small = Sphere(n=1.59, r=0.01, center=(0, 0, 0))
dety = detector_points(x=[0.0], y=[5.0], z=[0.0])
e_mie = calc_field(dety, small, nmed, wl, pol, theory=Mie(False, False)).values[0]
e_tm = calc_field(dety, small, nmed, wl, pol, theory=Tmatrix()).values[0]
print("Rayleigh sphere, detector on +y axis:  |E| Mie = %.3e   |E| Tmatrix = %.3e"
      % (np.linalg.norm(e_mie), np.linalg.norm(e_tm)))

# the amplitude scattering matrices: same labels, different content away from phi=0
d2 = detector_points(theta=[1.0], phi=[0.7])
S_mie = calc_scat_matrix(d2, sphere, nmed, wl, theory=Mie()).values[0]
S_tm = calc_scat_matrix(d2, sphere, nmed, wl, theory=Tmatrix()).values[0]
print("S (Mie)     at theta=1, phi=0.7:", S_mie.ravel().round(4))
print("S (Tmatrix) at theta=1, phi=0.7:", S_tm.ravel().round(4))

bad = (err_tm[1:] > 0.1).any() and err_ms.max() < 0.01 \
    and np.linalg.norm(e_tm) < 0.01 * np.linalg.norm(e_mie)
print("VIOLATION PRESENT" if bad else "no violation")
sys.exit(1 if bad else 0)
