"""[numeric / low priority] Multisphere on a one-sphere cluster: the per-sphere Mie series in
scsmfo_min.for (subroutine mie1) is cut at the FIRST order whose extinction term falls
below qeps1 (default 1e-5) instead of when the terms stay below it.  For a high-index
sphere the terms are not monotone (term 12 is 7e-6 of the sum, term 13 is a 9e-4
resonance), so the default Multisphere() is off by ~1.6 % from Mie / the textbook series
at x = 8.945, m = 2.478 (well inside nod = 32; 5.6 % at x = 18.07, m = 1.571), although its
tolerance is 1e-5.  Tightening qeps1 to 1e-8 removes the error."""
import sys, os; sys.path.insert(0, os.getcwd())
import warnings; warnings.filterwarnings('ignore')
import numpy as np
from holopy.core import detector_points
from holopy.scattering import Sphere, Mie, Multisphere, calc_scat_matrix

wl, nmed = 0.66, 1.33
k = 2 * np.pi * nmed / wl
thetas = np.linspace(0, np.pi, 19)
det = detector_points(theta=thetas, phi=0 * thetas)
worst = 0
for x, m in [(8.945117737613419, 2.4782949996264776), (18.072010944480265, 1.5710558055238544)]:
    s = Sphere(n=m * nmed, r=x / k, center=(0, 0, 0))
    ref = calc_scat_matrix(det, s, nmed, wl, theory=Mie()).values
    e = {}
    for q in (1e-5, 1e-8):
        S = calc_scat_matrix(det, s, nmed, wl, theory=Multisphere(qeps1=q)).values
        e[q] = np.abs(S - ref).max() / np.abs(ref).max()
    print("x = %.3f m = %.3f : relative error of S, qeps1=1e-5 (default): %.2e ; qeps1=1e-8: %.2e"
          % (x, m, e[1e-5], e[1e-8]))
    worst = max(worst, e[1e-5])
bad = worst > 1e-2
print("VIOLATION PRESENT" if bad else "no violation")
sys.exit(1 if bad else 0)
