"""A homogeneous sphere whose index is given per illumination channel as a labelled
xarray (a form holopy explicitly supports: imageformation.select_scatterer_by_illumination)
is computed by Mie, but Multisphere refuses it, claiming it is a *layered* particle
(and the reason is even lost from the error text).  The same sphere with the index given
as a per-channel dict, or channel by channel, is accepted by Multisphere."""
import sys, os; sys.path.insert(0, os.getcwd())
import warnings; warnings.filterwarnings('ignore')
import numpy as np, xarray as xr
from holopy.core import detector_grid
from holopy.scattering import Sphere, Mie, Multisphere, calc_field

nmed = 1.33
wls = {'red': 0.66, 'green': 0.52}
det1 = detector_grid(shape=(4, 5), spacing=0.3)
detc = detector_grid(shape=(4, 5), spacing=0.3,
                     extra_dims={'illumination': ['red', 'green']})
n_x = xr.DataArray([1.58, 1.61], dims='illumination',
                   coords={'illumination': ['red', 'green']})
n_d = {'red': 1.58, 'green': 1.61}
c = (0.7, 0.7, 3)
bad = False
for name, n in [('dict index', n_d), ('xarray index', n_x)]:
    for theory in [Mie(False), Multisphere()]:
        try:
            f = calc_field(detc, Sphere(n, 0.5, c), nmed, wls, (1, 0), theory=theory)
            err = 0
            for ch in ['red', 'green']:
                g = calc_field(det1, Sphere(n_d[ch], 0.5, c), nmed, wls[ch], (1, 0),
                               theory=theory)
                err = max(err, np.abs(f.sel(illumination=ch).values - g.values).max())
            print("%-13s %-11s ok, max |difference to channel-by-channel| = %.1e"
                  % (name, type(theory).__name__, err))
        except Exception as ex:
            print("%-13s %-11s raised %s: %s" % (name, type(theory).__name__,
                                                 type(ex).__name__, ex))
            if isinstance(theory, Multisphere):
                bad = True
print("VIOLATION PRESENT" if bad else "no violation")
sys.exit(1 if bad else 0)
