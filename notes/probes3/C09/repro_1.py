"""C09 repro 1: Multisphere (also chosen by theory='auto') silently returns
astronomically wrong fields at detector points that lie inside the sphere
circumscribing the cluster (|r - centroid| < max_i(|c_i - centroid| + a_i)).
The cluster-centred outgoing expansion diverges there; nothing checks or warns.
Run from the checkout root."""
import sys, os; sys.path.insert(0, os.getcwd())
import warnings; warnings.filterwarnings('ignore')
import numpy as np
import holopy as hp
from holopy.scattering import Sphere, Spheres, calc_holo, calc_field
from holopy.scattering.theory import Mie, Multisphere
from holopy.scattering.interface import determine_default_theory_for

# two small, well separated spheres (24 radii apart: inside the 30-radius rule
# so 'auto' -> Multisphere); hologram plane 2 um below them.
r, d, z = 0.25, 6.0, 2.0
sc = Spheres([Sphere(n=1.59, r=r, center=(3.2 - d/2, 3.2, z)),
              Sphere(n=1.59, r=r, center=(3.2 + d/2, 3.2, z))])
det = hp.detector_grid(shape=(33, 33), spacing=0.2)
kw = dict(medium_index=1.33, illum_wavelen=0.66, illum_polarization=(1, 0))

print('default theory:', type(determine_default_theory_for(sc)).__name__)
h_auto = calc_holo(det, sc, **kw)                   # -> Multisphere
h_sup = calc_holo(det, sc, theory=Mie(), **kw)      # superposition; multiple
# scattering between the two is ~|S(90deg)|/(k d) << 1% here
X, Y = np.meshgrid(det.x.values, det.y.values, indexing='ij')
dist = np.sqrt((X - 3.2)**2 + (Y - 3.2)**2 + z**2)
R_circ = d/2 + r
inside = dist < R_circ
ha = h_auto.values[:, :, 0]; hs = h_sup.values[:, :, 0]
print('circumscribing radius %.2f um; %d of %d pixels are inside it'
      % (R_circ, inside.sum(), inside.size))
print('hologram range, Mie superposition : %.3f .. %.3f' % (hs.min(), hs.max()))
print('hologram range, auto (Multisphere): %.3g .. %.3g' % (ha.min(), ha.max()))
print('max |auto - superposition| inside  circumscribing sphere: %.3g'
      % abs(ha - hs)[inside].max())
print('max |auto - superposition| outside circumscribing sphere: %.3g'
      % abs(ha - hs)[~inside].max())
bad = abs(ha - hs)[inside].max() > 10 * max(abs(hs - 1).max(), 1e-12)
print('VIOLATION' if bad else 'ok')
sys.exit(1 if bad else 0)
