"""C09 repro 2: the default-theory rule hands Multisphere clusters whose
cluster-centred expansion needs more than notd=70 orders (scfodim.for); amncalc
silently truncates (its warning is suppressed by default and no flag reaches
Python), so calc_* with theory='auto' returns fields that are wrong by 30-100 %
for two ordinary 1-um spheres 22-29 radii apart -- still inside the 30-radius
rule.  Checked on the x-z symmetry plane, where the known S3/S4 sign problem
does not contribute, against Mie superposition (multiple scattering at this
distance is < 1e-3).  Run from the checkout root."""
import sys, os; sys.path.insert(0, os.getcwd())
import warnings; warnings.filterwarnings('ignore')
import numpy as np
import holopy as hp
from holopy.scattering import Sphere, Spheres, calc_field
from holopy.scattering.theory import Mie, Multisphere
from holopy.scattering.interface import determine_default_theory_for
kw = dict(medium_index=1.33, illum_wavelen=0.66, illum_polarization=(1, 0))
k = 2*np.pi*1.33/0.66
t = np.linspace(-15, 15, 61)
det = hp.detector_points(x=t, y=0*t, z=0*t)
r, zc = 0.5, 30.
worst = 0
for frac in (14, 18, 20, 22, 25, 29):
    d = frac*r
    sc = Spheres([Sphere(n=1.59, r=r, center=(-d/2, 0, zc)),
                  Sphere(n=1.59, r=r, center=(d/2, 0, zc))])
    th = determine_default_theory_for(sc)
    fa = calc_field(det, sc, **kw).values              # theory='auto'
    fm = calc_field(det, sc, theory=Mie(), **kw).values
    # Multisphere (default) omits the component radial w.r.t. the centroid:
    # remove it from the reference as well
    c = sc.center
    v = np.stack([t - c[0], 0*t - c[1], c[2] + 0*t], -1)
    rh = v/np.linalg.norm(v, axis=-1, keepdims=True)
    fm_t = fm - (fm*rh).sum(-1)[:, None]*rh
    err = np.linalg.norm(fa - fm_t, axis=-1).max()/np.linalg.norm(fm_t, axis=-1).max()
    xc = k*(d/2 + r)
    need = int(round(xc + 4*xc**(1/3))) + 2
    _, lmax = Multisphere()._scsmfo_setup(sc, k, 1.33)
    print('separation %2d radii: auto -> %-11s k(R+a)=%5.1f, order needed %3d, '
          'order used %2d, rel. field error %.4f'
          % (frac, type(th).__name__, xc, need, lmax, err))
    if isinstance(th, Multisphere):
        worst = max(worst, err)
print('VIOLATION' if worst > 0.05 else 'ok')
sys.exit(1 if worst > 0.05 else 0)
