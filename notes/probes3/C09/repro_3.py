"""C09 repro 3: a cluster whose sphere index is given per colour channel as an
xarray.DataArray (a form imageformation.select_scatterer_by_illumination
explicitly supports, and that works for a single Sphere and for Mie
superposition) cannot be computed with the theory the default rule selects:
Multisphere._scsmfo_setup tests `np.isscalar(sph.n)`, which is False for the
0-d array left by `.sel(...).values`, and declares the spheres "layered".
The same values given as a dict work.  In addition TheoryNotCompatibleError
drops the reason it is given (message += " because: " + message).
Run from the checkout root."""
import sys, os; sys.path.insert(0, os.getcwd())
import warnings; warnings.filterwarnings('ignore')
import numpy as np, xarray as xr
import holopy as hp
from holopy.scattering import Sphere, Spheres, calc_holo
from holopy.scattering.theory import Mie, Multisphere
from holopy.scattering.errors import TheoryNotCompatibleError
det = hp.detector_grid(shape=(6, 6), spacing=0.3)
ill = ['red', 'green']
wl = xr.DataArray([0.66, 0.52], dims='illumination', coords={'illumination': ill})
n_da = xr.DataArray([1.58, 1.61], dims='illumination', coords={'illumination': ill})
n_dict = {'red': 1.58, 'green': 1.61}
def cluster(n):
    return Spheres([Sphere(n=n, r=0.5, center=(1, 1, 8)),
                    Sphere(n=1.5, r=0.3, center=(2, 1.5, 8.5))])
kw = dict(medium_index=1.33, illum_wavelen=wl, illum_polarization=(1, 0))
ref = calc_holo(det, cluster(n_dict), **kw)            # auto -> Multisphere, fine
print('dict index, auto theory: ok', ref.dims)
print('DataArray index, Mie superposition: ok',
      calc_holo(det, cluster(n_da), theory=Mie(), **kw).dims)
bad = False
try:
    h = calc_holo(det, cluster(n_da), **kw)             # auto -> Multisphere
    print('DataArray index, auto theory: ok, max diff to dict form',
          float(abs(h - ref).max()))
except TheoryNotCompatibleError as e:
    bad = True
    print('DataArray index, auto theory: FAILS with\n   ', e)
    print("  reason mentions 'layered':", 'layered' in str(e))
print('VIOLATION' if bad else 'ok')
sys.exit(1 if bad else 0)
