"""C09 repro 4 (spherecluster.py): RigidCluster inherits Spheres.add /
Scatterers.translated / Scatterers.rotated, but its `scatterers` is a read-only
property that builds a fresh list on every access.  `add` therefore appends to
a temporary and is silently lost; `translated` / `rotated` raise AttributeError.
Run from the checkout root."""
import sys, os; sys.path.insert(0, os.getcwd())
import warnings; warnings.filterwarnings('ignore')
from holopy.scattering import Sphere, Spheres
from holopy.scattering.scatterer import RigidCluster
base = Spheres([Sphere(n=1.59, r=0.5, center=(0, 0, 0)),
                Sphere(n=1.5, r=0.3, center=(1, 0.2, 0.1))])
rc = RigidCluster(base, translation=(1, 1.5, 8), rotation=(0.4, 0.3, -0.7))
rc.add(Sphere(n=1.45, r=0.4, center=(-0.2, 1.1, -0.3)))     # no error
n_after = len(rc.scatterers)
print('spheres in RigidCluster after add():', n_after, '(expected 3)')
bad = n_after != 3
for name, args in (('translated', (1, 0, 0)), ('rotated', (0.3, 0, 0))):
    try:
        getattr(rc, name)(*args); print(name, 'ok')
    except AttributeError as e:
        bad = True; print(name, 'raises AttributeError:', e)
print('VIOLATION' if bad else 'ok')
sys.exit(1 if bad else 0)
