"""C09 repro 5 (outside the 1-6 sphere quantifier, reported for completeness):
a cluster of more than npd=20 close spheres is given to Multisphere by the
default rule; neither the rule nor _scsmfo_setup checks npart against the
compiled array bound (scfodim.for: npd=20), the Fortran writes past its arrays
and the interpreter dies with SIGSEGV.  The class docstring says Multisphere
"can handle any number of spheres".  Run from the checkout root."""
import sys, os, subprocess
code = r'''
import sys, os; sys.path.insert(0, os.getcwd())
import warnings; warnings.filterwarnings('ignore')
import holopy as hp
from holopy.scattering import Sphere, Spheres, calc_holo
det = hp.detector_grid(shape=(6, 6), spacing=0.3)
g = [(i, j, k) for i in range(3) for j in range(3) for k in range(3)][:21]
sc = Spheres([Sphere(n=1.4, r=0.1, center=(1+0.6*i, 1+0.6*j, 8+0.6*k)) for i, j, k in g])
h = calc_holo(det, sc, medium_index=1.33, illum_wavelen=0.66, illum_polarization=(1, 0))
print('computed', float(h.mean()))
'''
p = subprocess.run([sys.executable, '-c', code], capture_output=True, text=True)
print('child return code:', p.returncode, '| stdout:', p.stdout.strip(), '| stderr tail:', p.stderr.strip()[-200:])
bad = p.returncode < 0 or p.returncode == 139
print('VIOLATION (interpreter killed by signal)' if bad else 'ok')
sys.exit(1 if bad else 0)
