"""C03 repro 2: a cluster of more than npd = 20 spheres overruns the fixed-size
Fortran work arrays of scsmfo_min.amncalc (no check on npart in Python or in
Fortran) - the interpreter dies with SIGSEGV instead of raising
InvalidScatterer.  The Multisphere docstring says "The Multisphere code can
handle any number of spheres".

The calculation is run in a child process so that this script survives.
"""
import sys, os, subprocess, textwrap

child = textwrap.dedent('''
    import sys, os; sys.path.insert(0, os.getcwd())
    import warnings; warnings.filterwarnings('ignore')
    import numpy as np
    from holopy.scattering import calc_scat_matrix, Sphere, Spheres, Multisphere
    from holopy.core.metadata import detector_points
    N = int(sys.argv[1])
    sph = [Sphere(n=1.59, r=0.1, center=(0.3 * i, 0.05 * i * (-1)**i, 0.02 * i))
           for i in range(N)]
    det = detector_points(theta=np.array([0.]), phi=np.array([0.]))
    S = calc_scat_matrix(det, Spheres(sph), 1.33, 0.66, theory=Multisphere())
    k = 2 * np.pi * 1.33 / 0.66
    print(N, 'spheres: C_ext (optical theorem) =',
          4 * np.pi / k**2 * S.values[0, 0, 0].real)
''')

bad = False
for n in (20, 21):
    p = subprocess.run([sys.executable, '-c', child, str(n)],
                       capture_output=True, text=True)
    print('N = %d: return code %d; stdout: %s; stderr tail: %s'
          % (n, p.returncode, p.stdout.strip(), p.stderr.strip()[-200:]))
    if n == 20 and p.returncode != 0 and 'C_ext' not in p.stdout:
        print('unexpected: 20 spheres failed too')
    if n == 21 and p.returncode < 0:
        bad = True          # killed by a signal (SIGSEGV = -11)
    if n == 21 and p.returncode == 0:
        print('21 spheres returned a number from overrun arrays')
        bad = True

if bad:
    print('VIOLATION: npart > npd (=20) is not rejected; memory is overrun')
    sys.exit(1)
print('no violation (a clean exception was raised)')
sys.exit(0)
