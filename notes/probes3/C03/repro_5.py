"""C03 repro 5 (minor): mieangfuncs.f90 computes the (2n+1)/(n(n+1)) weights of
the amplitude functions with default-real (single precision) literals
(`prefactor = (2.*n + 1.) / (n * (n + 1.))`, lines 377 and 435), so S1(0), S2(0)
carry a ~1e-8 relative error although everything else is double precision:
the optical theorem 4 pi/k^2 Re S(0) = C_ext (same a_n, b_n on both sides)
holds only to ~2e-8 instead of ~1e-15.
"""
import sys, os; sys.path.insert(0, os.getcwd())
import warnings
import numpy as np
warnings.filterwarnings('ignore')
from holopy.scattering import calc_cross_sections, calc_scat_matrix, Sphere
from holopy.core.metadata import detector_points

nmed, wl = 1.33, 0.66
k = 2 * np.pi * nmed / wl
det = detector_points(theta=np.array([0.]), phi=np.array([0.]))
worst = 0
for r in (0.1, 0.3, 0.5, 1.0, 2.0, 5.0):
    s = Sphere(n=1.59 + 0.01j, r=r, center=(0, 0, 0))
    cext = calc_cross_sections(s, nmed, wl, (1, 0)).values[2]
    S = calc_scat_matrix(det, s, nmed, wl).values[0]
    rel = 4 * np.pi / k**2 * S[0, 0].real / cext - 1
    worst = max(worst, abs(rel))
    print('r = %.1f: optical theorem relative mismatch %.2e' % (r, rel))
# reference: the same sum in double precision
from holopy.scattering.theory import Mie
ab = Mie()._scat_coeffs(Sphere(n=1.59 + 0.01j, r=1.0), k, nmed)
n = np.arange(1, ab.shape[1] + 1)
S0 = 0.5 * ((2 * n + 1) * (ab[0] + ab[1])).sum()
S = calc_scat_matrix(det, Sphere(n=1.59 + 0.01j, r=1.0, center=(0, 0, 0)),
                     nmed, wl).values[0]
print('S(0) double precision sum', S0, ' library', S[0, 0],
      ' rel diff %.2e' % abs(S[0, 0] / S0 - 1))
sys.exit(1 if worst > 1e-10 else 0)
