"""C03 repro 1: Multisphere silently truncates the cluster-centred expansion at
notd = 70 (scfodim.for); the Python guard only rejects k*|centre| > 1e4.

Two identical NON-absorbing 1 um polystyrene spheres, 15 um apart (side by
side, perpendicular to the beam).  `determine_default_theory_for` picks
Multisphere for this cluster (separation <= 30 radii).  The independent-
scatterer answer is C_ext ~ 2 * C_ext(single) = 3.87 um^2 (multiple scattering
is a ~1e-3 effect at this distance).  The library returns a NEGATIVE
extinction, C_sca ~ 0.09 and C_abs ~ -0.1 without any warning or error.
"""
import sys, os; sys.path.insert(0, os.getcwd())
import warnings
import numpy as np
warnings.filterwarnings('ignore')
import holopy
from holopy.scattering import (calc_cross_sections, calc_scat_matrix, Sphere,
                               Spheres, Multisphere)
from holopy.scattering.interface import determine_default_theory_for
from holopy.core.metadata import detector_points, to_vector

print(holopy.__file__)
nmed, wl = 1.33, 0.66
k = 2 * np.pi * nmed / wl
single = calc_cross_sections(Sphere(n=1.59, r=0.5), nmed, wl, (1, 0)).values
print('single sphere [sca, abs, ext, g] =', single)

bad = False
for d in (8., 15.):
    cluster = Spheres([Sphere(n=1.59, r=0.5, center=(0, 0, 0)),
                       Sphere(n=1.59, r=0.5, center=(d, 0, 0))])
    theory = determine_default_theory_for(cluster)
    assert isinstance(theory, Multisphere), theory
    # optical theorem through the public scattering-matrix entry point
    fwd = detector_points(theta=np.array([0.]), phi=np.array([0.]))
    S = calc_scat_matrix(fwd, cluster, nmed, wl).values[0]   # theory='auto'
    cext_ot = 4 * np.pi / k**2 * S[0, 0].real
    # the two cheap pieces of Multisphere.raw_cross_sections (the asymmetry
    # parameter needs a 5-10 minute dblquad for this cluster; the full
    # calc_cross_sections(cluster, 1.33, .66, (1, 0)) returns
    # [0.0896, -0.1055, -0.0158, 0.433] for d = 15)
    amn, lmax = theory._scsmfo_setup(cluster, k, nmed)
    pol = to_vector((1, 0))
    cext = theory._calc_cext(cluster, k, nmed, pol, amn, lmax)
    csca = float(theory._calc_cscat(cluster, k, nmed, pol, amn, lmax))
    print('d = %4.1f um, k*d/2 = %5.1f: cluster order used = %d, '
          'C_ext(optical theorem, calc_scat_matrix) = %.5f, C_ext = %.5f, '
          'C_sca = %.5f, C_abs = %.5f;  2*C_ext(single) = %.5f'
          % (d, k * d / 2, lmax, cext_ot, cext, csca, cext - csca,
             2 * single[2]))
    if d == 8.:
        # inside the range: agrees with two independent spheres to 1e-3
        assert abs(cext / (2 * single[2]) - 1) < 5e-3
    else:
        if cext <= 0 or abs(cext - csca) > 1e-3 * abs(csca) \
                or abs(cext / (2 * single[2]) - 1) > 0.2:
            bad = True

if bad:
    print('VIOLATION: extinction <= 0 / C_abs != 0 for real indices / '
          'C_ext far from the independent-sphere value, silently')
    sys.exit(1)
print('no violation')
sys.exit(0)
