"""C03 repro 4: the labels of a polarisation DataArray are ignored.

`to_vector` passes a DataArray that already has a `vector` dimension through
unchanged, and Multisphere then takes the first two ELEMENTS
(`normalize_polarization(...)[:2]`, `illum_polarization.values[:2]`) instead of
the components labelled 'x' and 'y'.  A labelled array whose coordinate order
is ('y', 'x', 'z') and that describes x-polarised light is silently used as
y-polarised light: the cross sections of an anisotropic cluster (dimer along x)
come out as those of the other polarisation.
"""
import sys, os; sys.path.insert(0, os.getcwd())
import warnings
import numpy as np
import xarray as xr
warnings.filterwarnings('ignore')
import holopy
from holopy.scattering import calc_cross_sections, Sphere, Spheres, Multisphere

print(holopy.__file__)
nmed, wl = 1.33, 0.66
dimer = Spheres([Sphere(n=1.59, r=0.3, center=(0, 0, 0)),
                 Sphere(n=1.59, r=0.3, center=(0.7, 0, 0))])
th = Multisphere()
x_pol = xr.DataArray([1., 0., 0.], dims='vector',
                     coords={'vector': ['x', 'y', 'z']})
# the same physical polarisation, components stored in another order
x_pol_reordered = x_pol.sel(vector=['y', 'x', 'z'])
assert float(x_pol_reordered.sel(vector='x')) == 1.0
y_pol = xr.DataArray([0., 1., 0.], dims='vector',
                     coords={'vector': ['x', 'y', 'z']})

a = calc_cross_sections(dimer, nmed, wl, x_pol, theory=th).values
b = calc_cross_sections(dimer, nmed, wl, x_pol_reordered, theory=th).values
c = calc_cross_sections(dimer, nmed, wl, y_pol, theory=th).values
print('x-polarised, coords (x, y, z):', a)
print('x-polarised, coords (y, x, z):', b)
print('y-polarised, coords (x, y, z):', c)
if not np.allclose(a, b, rtol=1e-6) and np.allclose(b, c, rtol=1e-9):
    print('VIOLATION: the reordered x-polarisation is treated as '
          'y-polarisation (labels ignored)')
    sys.exit(1)
if not np.allclose(a, b, rtol=1e-6):
    print('VIOLATION: result depends on the storage order of the labelled '
          'polarisation')
    sys.exit(1)
print('no violation')
sys.exit(0)
