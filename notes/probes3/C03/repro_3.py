"""C03 repro 3: the scattering-matrix calculation with theory=Tmatrix (which
declares `can_handle(Sphere)`) returns, for azimuth phi != 0, matrices that are
NOT in the (parallel, perpendicular)-to-the-scattering-plane basis that the
result is labelled with and that Mie / Multisphere use: every 2x2 matrix is the
TRANSPOSE of Mishchenko's amplitude matrix (`.transpose()` on a (2, 2, nang)
array reverses all axes).  Consequences for a sphere:

 (a) optical theorem through calc_scat_matrix: 4 pi / k^2 Re S[par, par] at
     theta = 0, phi = 1 gives C_ext * cos(phi), not C_ext;
 (b) off-diagonal elements S3, S4 != 0 for a sphere;
 (c) the `postfactor` in Tmatrix.raw_fields only compensates for incident
     x polarisation in the plane phi = 0: the field of a sphere from
     calc_field(theory=Tmatrix) differs from the far-field Mie result by
     12 % - 100 % off that plane (the perpendicular component is built from
     S2 instead of S1).
"""
import sys, os; sys.path.insert(0, os.getcwd())
import warnings
import numpy as np
warnings.filterwarnings('ignore')
import holopy
from holopy.scattering import (calc_cross_sections, calc_scat_matrix,
                               calc_field, Sphere, Mie, Tmatrix)
from holopy.core.metadata import detector_points

print(holopy.__file__)
np.set_printoptions(precision=5, linewidth=150)
nmed, wl = 1.33, 0.66
k = 2 * np.pi * nmed / wl
s = Sphere(n=1.59, r=0.4, center=(0, 0, 0))
cext = calc_cross_sections(s, nmed, wl, (1, 0)).values[2]

bad = False
theta = np.array([0., 0., 0.7, 0.7])
phi = np.array([0., 1., 0., 1.])
det = detector_points(theta=theta, phi=phi)
Sm = calc_scat_matrix(det, s, nmed, wl, theory=Mie())
St = calc_scat_matrix(det, s, nmed, wl, theory=Tmatrix())
print('labels:', list(St.E_out.values), list(St.E_in.values))
for i in range(len(theta)):
    ot_m = 4 * np.pi / k**2 * Sm.values[i, 0, 0].real
    ot_t = 4 * np.pi / k**2 * St.values[i, 0, 0].real
    print('theta=%.1f phi=%.1f\n Mie:\n%s\n Tmatrix:\n%s'
          % (theta[i], phi[i], Sm.values[i], St.values[i]))
    if theta[i] == 0:
        print(' C_ext = %.6f; optical theorem: Mie %.6f, Tmatrix %.6f'
              % (cext, ot_m, ot_t))
        if abs(ot_t / cext - 1) > 1e-4:
            bad = True
    if not np.allclose(Sm.values[i], St.values[i], rtol=1e-4,
                       atol=1e-4 * abs(Sm.values[i]).max()):
        bad = True

# (c) fields
theta = np.array([0.7, 0.7, 0.7, 1.5, 2.5])
phi = np.array([0., 0.785, 1.57, 4.0, 1.0])
det = detector_points(r=np.full(theta.size, 50.), theta=theta, phi=phi)
Em = calc_field(det, s, nmed, wl, (1, 0), theory=Mie(False, False)).values
Et = calc_field(det, s, nmed, wl, (1, 0), theory=Tmatrix()).values
for t, p, a, b in zip(theta, phi, Em, Et):
    rel = abs(a - b).max() / abs(a).max()
    print('field theta=%.2f phi=%.3f: max rel. difference Tmatrix vs Mie '
          '(far field) = %.3g' % (t, p, rel))
    if rel > 1e-3:
        bad = True

if bad:
    print('VIOLATION: Tmatrix scattering matrices / fields of a sphere '
          'disagree with Mie away from phi = 0')
    sys.exit(1)
print('no violation')
sys.exit(0)
