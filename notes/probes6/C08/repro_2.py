"""C08 / interpolated vs direct radial integrals: with a non-integer
interpolator_window_size the first break point window_size*floor(min/ws)
can round ABOVE krho.min(), and the interpolated path raises ValueError
where the direct path (and 'off') returns the field.
Run from the checkout root."""
import sys, os; sys.path.insert(0, os.getcwd())
import numpy as np
from holopy.scattering.theory.mielensfunctions import MieLensCalculator

kw = dict(particle_kz=10., index_ratio=1.2, size_parameter=5.,
          lens_angle=0.8, interpolator_window_size=1.27)
krho = np.array([124.46, 125.0, 126.0])
phi = np.zeros(3)
direct = MieLensCalculator(interpolate_integrals=False, **kw
                           ).calculate_scattered_field(krho, phi)
print('direct    :', direct[0])
try:
    interp = MieLensCalculator(interpolate_integrals=True, **kw
                               ).calculate_scattered_field(krho, phi)
    print('interpol. :', interp[0])
    bad = not np.allclose(interp[0], direct[0], rtol=1e-7)
except ValueError as e:
    print('interpolated path raised ValueError:', e)
    print('124.46/1.27 =', repr(124.46 / 1.27), ' 1.27*98 =', repr(1.27 * 98))
    bad = True
print('VIOLATION' if bad else 'ok')
sys.exit(1 if bad else 0)
