"""C08 / helper: PiecewiseChebyshevApproximant advertises extra positional
arguments for the approximated function (`*args`), but forwards them to
numpy's Chebyshev.interpolate in the slot of `domain`, so any use of them
raises TypeError.  Run from the checkout root."""
import sys, os; sys.path.insert(0, os.getcwd())
import numpy as np
from holopy.scattering.theory.mielensfunctions import (
    PiecewiseChebyshevApproximant)

breaks = np.array([0., 1., 2.])
try:
    approx = PiecewiseChebyshevApproximant(
        lambda x, a: a * np.sin(x), 12, breaks, 3.0)
    got = approx(np.array([0.5, 1.5]))
    want = 3.0 * np.sin([0.5, 1.5])
    print('values', got, 'expected', want)
    bad = not np.allclose(got, want, atol=1e-10)
except TypeError as e:
    print('TypeError:', e)
    bad = True
print('VIOLATION' if bad else 'ok')
sys.exit(1 if bad else 0)
