"""Outside C08 (imageformation / calc_holo, all theories alike): a hologram
must depend only on the distance between particle and detector plane, but
calc_holo references the scattered field's phase to z = 0 (exp(-i k z_p)) while
the reference wave keeps phase 0 at a detector at z_d != 0.  Shifting detector
AND particle by the same dz changes the hologram.
Run from the checkout root."""
import sys, os; sys.path.insert(0, os.getcwd())
import warnings; warnings.filterwarnings('ignore')
import numpy as np
from holopy.scattering import calc_holo, Sphere, Mie, MieLens
from holopy.scattering.theory import Lens
from holopy.core import detector_points

kw = dict(medium_index=1.33, illum_wavelen=.66, illum_polarization=(1, 0))
x = np.linspace(0, 3, 7); y = np.linspace(0, 2, 7)
bad = False
for th in [Mie(), MieLens(0.8, {'interpolate_integrals': False}),
           Lens(0.8, Mie())]:
    a = calc_holo(detector_points(x=x, y=y, z=2.03),
                  Sphere(n=1.59, r=.5, center=(1, 1, 5.03)), theory=th, **kw)
    b = calc_holo(detector_points(x=x, y=y, z=0.),
                  Sphere(n=1.59, r=.5, center=(1, 1, 3.)), theory=th, **kw)
    d = np.abs(a.values - b.values).max()
    print(type(th).__name__, 'max |holo(shifted) - holo| =', d)
    bad |= d > 1e-6
print('VIOLATION' if bad else 'ok')
sys.exit(1 if bad else 0)
