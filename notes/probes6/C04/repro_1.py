"""Side finding (NOT a violation of the unit-invariance clauses of C04).

calc_holo / calc_intensity turn a scattered field that is NaN into a
hologram / intensity of exactly 0.0, silently, while calc_field on the same
input honestly returns NaN.

Root cause: holopy/scattering/interface.py
    calc_intensity, line 166:
        intensity = (np.abs(field.sel(vector=['x', 'y']))**2).sum(dim=vector)
    scattered_field_to_hologram, line 343:
        holo = (np.abs(total_field.sel(vector=['x', 'y']))**2).sum(dim=vector)
xarray's DataArray.sum skips NaN by default (skipna=True for float data), so
NaN + NaN over the two vector components is 0.0.  Both should pass
skipna=False (or use plain numpy).

Two legitimate triggers are shown:
 (a) the documented far-field detector detector_points(theta=..., phi=...)
     (r defaults to infinity, "helpful for modeling static light scattering"):
     the field is NaN (0 * exp(i*inf)), the intensity comes back 0 everywhere
     and the "hologram" 0 (not even |reference|^2 = 1);
 (b) a large, strongly absorbing coated sphere for which the layered-Mie
     coefficients overflow to NaN (calc_cross_sections says NaN, calc_holo
     says 0 = a perfectly dark image).

Run from the checkout root; exits 1 when the defect is present.
"""
import sys, os; sys.path.insert(0, os.getcwd())
import warnings; warnings.filterwarnings('ignore')
import numpy as np
import holopy
from holopy.scattering import (Sphere, Mie, calc_field, calc_holo,
                               calc_intensity, calc_cross_sections)
from holopy.core import detector_grid, detector_points

print('holopy from', holopy.__file__)
bad = False

# (a) far-field detector points (r = inf is the documented default)
det = detector_points(theta=np.linspace(0.1, 3.0, 4), phi=0.)
sph = Sphere(n=1.59, r=0.5, center=(0, 0, 0))
theory = Mie(False, False)          # far-field Mie, no Hankel functions needed
fld = calc_field(det, sph, 1.33, 0.66, (1, 0), theory=theory)
inten = calc_intensity(det, sph, 1.33, 0.66, (1, 0), theory=theory)
holo = calc_holo(det, sph, 1.33, 0.66, (1, 0), theory=theory)
print('(a) detector r          :', det.r.values)
print('(a) calc_field  Ex      :', fld.sel(vector='x').values)
print('(a) calc_intensity      :', inten.values)
print('(a) calc_holo           :', holo.values)
if np.isnan(fld.values).all() and (inten.values == 0).all() \
        and (holo.values == 0).all():
    print('(a) DEFECT: NaN field reported as intensity 0 / hologram 0')
    bad = True

# (b) metal-coated large bead: layered Mie coefficients are NaN
grid = detector_grid((2, 2), 0.5)
coated = Sphere(n=[1.89, 1.65 + 2.93j], r=[10.3, 31.8], center=(0.4, 0.6, 40))
fld = calc_field(grid, coated, 1.33, 0.66, (1, 0))
holo = calc_holo(grid, coated, 1.33, 0.66, (1, 0))
inten = calc_intensity(grid, coated, 1.33, 0.66, (1, 0))
xsec = calc_cross_sections(coated, 1.33, 0.66, (1, 0))
print('(b) calc_field  Ex      :', fld.sel(vector='x').values.ravel())
print('(b) calc_cross_sections :', xsec.values)
print('(b) calc_holo           :', holo.values.ravel())
print('(b) calc_intensity      :', inten.values.ravel())
if np.isnan(fld.values).all() and (holo.values == 0).all() \
        and (inten.values == 0).all():
    print('(b) DEFECT: NaN field reported as a perfectly dark hologram')
    bad = True

sys.exit(1 if bad else 0)
