"""Side finding, low interest (NOT a violation of the unit-invariance clauses).

Tmatrix refuses detector points whose azimuth lies outside [0, 2*pi] (e.g.
phi = -0.5, which every other theory accepts and which describes the same
direction as phi = 2*pi - 0.5) with the misleading message "angle out of
range ... scatterer's size or aspect ratio is too large".  The repair that
wraps the particle's Euler angles (tmatrix.py, _parse_args, lines 125-134)
was not applied to the detector angles two lines below
(thet = angles[:, 0]; phi = angles[:, 1], lines 138-140), which go to the
compiled AMPL unchanged; phi should be taken modulo 360 there.

Run from the checkout root; exits 1 when the behaviour is present.
"""
import sys, os; sys.path.insert(0, os.getcwd())
import warnings; warnings.filterwarnings('ignore')
import numpy as np
from holopy.scattering import Spheroid, Sphere, Tmatrix, Mie, calc_scat_matrix
from holopy.core import detector_points

sc = Spheroid(n=1.59, r=(0.3, 0.6), rotation=(0.3, 0.5, 0.7), center=(0, 0, 7))
good = calc_scat_matrix(detector_points(theta=[0.3, 0.4], phi=2 * np.pi - 0.5),
                        sc, 1.33, 0.66, theory=Tmatrix()).values
mie = calc_scat_matrix(detector_points(theta=[0.3, 0.4], phi=-0.5),
                       Sphere(n=1.59, r=0.5, center=(0, 0, 7)), 1.33, 0.66,
                       theory=Mie()).values
print('Mie accepts phi = -0.5:', np.isfinite(mie).all())
try:
    neg = calc_scat_matrix(detector_points(theta=[0.3, 0.4], phi=-0.5),
                           sc, 1.33, 0.66, theory=Tmatrix()).values
    print('Tmatrix phi=-0.5 vs phi=2pi-0.5: max diff', np.abs(neg - good).max())
    sys.exit(0 if np.allclose(neg, good) else 1)
except Exception as e:
    print('Tmatrix phi = -0.5 ->', type(e).__name__, e)
    sys.exit(1)
