"""C14 repro 3: the Mapper does not record the class or the name of a derived
prior.  What a Model hands back (Model.scatterer, Model.alpha, Model.noise_sd,
Model.illum_wavelen ...) therefore contains a bare TransformedPrior where the
user gave a ComplexPrior (no .real/.imag/.lnprob/.prob any more) and an unnamed
TransformedPrior where the user gave a named one; a model rebuilt from
Model.scatterer has different parameter names."""
import sys, os; sys.path.insert(0, os.getcwd())
import warnings; warnings.simplefilter('ignore')
import numpy as np
from holopy.core.prior import Uniform, Gaussian, ComplexPrior, TransformedPrior
from holopy.scattering import Sphere
from holopy.inference import AlphaModel

bad = []
index = ComplexPrior(Uniform(1.5, 1.6), Gaussian(.01, .001), name='index')
radius = TransformedPrior(np.hypot, [Uniform(.3, .4), Uniform(.2, .3)], name='rad')
sphere = Sphere(n=index, r=radius, center=[1, 2, 3])
kw = dict(alpha=1, noise_sd=.1, medium_index=1.33, illum_wavelen=.66,
          illum_polarization=(1, 0))
model = AlphaModel(sphere, **kw)
print('parameter names        :', model._parameter_names)
back = model.scatterer
print('type of model.scatterer.n:', type(back.n).__name__, ' name:', back.n.name)
print('name of model.scatterer.r:', back.r.name)
if not isinstance(back.n, ComplexPrior):
    bad.append('model.scatterer.n is a %s, not the ComplexPrior that was given'
               % type(back.n).__name__)
    try:
        back.n.lnprob(1.55 + .01j)
    except NotImplementedError as e:
        print('model.scatterer.n.lnprob(1.55+0.01j) ->', 'NotImplementedError:', e,
              ' (the original gives %.4f)' % index.lnprob(1.55 + .01j))
if back.n.name != 'index' or back.r.name != 'rad':
    bad.append('names of the derived priors are lost: %r, %r'
               % (back.n.name, back.r.name))
rebuilt = AlphaModel(back, **kw)
print('names after rebuilding :', rebuilt._parameter_names)
if rebuilt._parameter_names != model._parameter_names:
    bad.append('a model built from model.scatterer names its parameters %s instead '
               'of %s' % (rebuilt._parameter_names, model._parameter_names))

print()
print('VIOLATIONS:' if bad else 'no violation')
for b in bad:
    print(' -', b)
sys.exit(1 if bad else 0)
