"""C14 repro 1: 0-d NumPy arrays are the un-repaired sibling of the NumPy-scalar
repair (3ae063b).  `array(0.) * prior` silently builds a prior multiplied by 0,
`array(1.) * prior` / `array(0.) + prior` do not return the prior itself, and
`prior * array(2.)` / `prior + array(0.)` die with "iteration over a 0-d array"
although `prior - array(1.)` and `prior / array(2.)` work."""
import sys, os; sys.path.insert(0, os.getcwd())
import warnings; warnings.simplefilter('ignore')
import numpy as np
import xarray as xr
from holopy.core.prior import Uniform, TransformedPrior

u = Uniform(1, 3, name='u')
bad = []

def attempt(label, f):
    try:
        r = f()
        return 'ok', r
    except Exception as e:
        return 'exc', '%s: %s' % (type(e).__name__, e)

# reference behaviour with a NumPy scalar (repaired) and a Python float
assert (np.float64(1) * u) is u and (u + np.float64(0)) is u
for zero in (0.0, np.float64(0)):
    try:
        zero * u
        raise SystemExit('unexpected: scalar zero accepted')
    except TypeError:
        pass

kind, r = attempt('0d0*u', lambda: np.array(0.) * u)
print('np.array(0.) * prior ->', kind, r)
if kind == 'ok':
    bad.append('multiplying by a 0-d zero is accepted (guess %r)' % (r.guess,))
kind, r = attempt('0d1*u', lambda: np.array(1.) * u)
print('np.array(1.) * prior is prior ->', kind, (r is u) if kind == 'ok' else r)
if kind == 'ok' and r is not u:
    bad.append('multiplying by a 0-d one does not return the prior')
kind, r = attempt('0d0+u', lambda: np.array(0.) + u)
print('np.array(0.) + prior is prior ->', kind, (r is u) if kind == 'ok' else r)
if kind == 'ok' and r is not u:
    bad.append('adding a 0-d zero does not return the prior')

# the reflected order crashes in __mul__/__add__ but not in __sub__/__truediv__
image = xr.DataArray(np.arange(6.).reshape(2, 3), dims=['x', 'y'])
peak = image.max().values          # a 0-d ndarray, the usual way to get one
for label, f in [('prior * image.max().values', lambda: u * peak),
                 ('prior + np.array(0.)', lambda: u + np.array(0.)),
                 ('prior - np.array(1.)', lambda: u - np.array(1.)),
                 ('prior / np.array(2.)', lambda: u / np.array(2.))]:
    kind, r = attempt(label, f)
    print(label, '->', kind, r if kind == 'exc' else type(r).__name__)
    if kind == 'exc' and 'iteration over a 0-d array' in r:
        bad.append(label + ' fails with "iteration over a 0-d array"')

print()
print('VIOLATIONS:' if bad else 'no violation')
for b in bad:
    print(' -', b)
sys.exit(1 if bad else 0)
