"""C14 repro 4 (generate_guess): EmceeStrategy.sample / CmaStrategy.fit store the
initial population drawn from the FIRST model's priors on the strategy object
(self.walker_initial_pos, self.popsize) and never draw again, so a strategy
object reused for a second model starts every walker from samples of the wrong
priors (here: z positions 7..9 used as radii whose prior is Uniform(0.4, 0.6),
i.e. every walker starts outside the support).  emcee / cma are not installed in
the sandbox, so the sampler itself is replaced by a recorder; the code under
test (the strategy methods and Model.generate_guess) is unmodified."""
import sys, os; sys.path.insert(0, os.getcwd())
import warnings; warnings.simplefilter('ignore')
import numpy as np
from holopy.core.prior import Uniform
from holopy.scattering import Sphere, calc_holo
from holopy.core.metadata import detector_grid
from holopy.inference import ExactModel, EmceeStrategy, CmaStrategy
import holopy.inference.emcee as hp_emcee
import holopy.inference.cmaes as hp_cma

class Recorded(Exception):
    pass
record = []
def recorder(*args, **kwargs):
    pos = kwargs.get('walker_initial_pos')
    if pos is None:                       # run_cma(obj_func, parameters, initial_population, ...)
        pos = args[2]
    record.append(np.array(pos))
    raise Recorded
hp_emcee.sample_emcee = recorder
hp_cma.run_cma = recorder

det = detector_grid(10, .2)
holo = calc_holo(det, Sphere(n=1.59, r=.5, center=[1, 1, 8]), 1.33, .66, (1, 0))
model_z = ExactModel(Sphere(n=1.59, r=.5, center=[1, 1, Uniform(7, 9)]), noise_sd=.01)
model_r = ExactModel(Sphere(n=1.59, r=Uniform(.4, .6), center=[1, 1, 8]), noise_sd=.01)

bad = []
for strategy, call in ((EmceeStrategy(nwalkers=4, nsamples=2), 'sample'),
                       (CmaStrategy(popsize=4), 'fit')):
    del record[:]
    for model in (model_z, model_r):
        try:
            getattr(strategy, call)(model, holo)
        except Recorded:
            pass
    first, second = record
    name = type(strategy).__name__
    print(name, 'start for model_z (z in 7..9)   :', first.ravel())
    print(name, 'start for model_r (r in .4...6) :', second.ravel())
    prior_r = model_r._parameters[0]
    outside = [not np.isfinite(prior_r.lnprob(v)) for v in second.ravel()]
    if all(outside):
        bad.append('%s reused for a second model starts all %d walkers outside that '
                   "model's prior (they are the first model's samples)"
                   % (name, len(outside)))

print()
print('VIOLATIONS:' if bad else 'no violation')
for b in bad:
    print(' -', b)
sys.exit(1 if bad else 0)
