"""C14 repro 2: scale()/unscale() are inverse only up to rounding, the support
test of Uniform/BoundedGaussian is exact, and NmpfitStrategy hands the minimiser
the *scaled* bounds.  For ~5% of (bound, guess) pairs unscale(scale(bound)) lands
one ulp outside the support, so the prior is -inf exactly at the limit the
minimiser clamps to; the prior pseudo-residual becomes inf, every step that
reaches the bound is rejected, and the fit stops at a worse point than the same
fit whose guess happens to round-trip exactly."""
import sys, os; sys.path.insert(0, os.getcwd())
import warnings; warnings.simplefilter('ignore')
import numpy as np
np.NaN = np.nan          # sandbox caveat: nmpfit wants np.NaN
from holopy.core.prior import Uniform, BoundedGaussian
from holopy.scattering import Sphere, calc_holo
from holopy.core.metadata import detector_grid
from holopy.inference import ExactModel, NmpfitStrategy

bad = []
# (1) the bare clause: the bound itself, sent through scale -> unscale
for p in (Uniform(4.41, 6.71, 6.08), BoundedGaussian(6.08, 1., 4.41, 6.71)):
    v = p.unscale(p.scale(p.upper_bound))
    print(type(p).__name__, 'upper bound', p.upper_bound, '-> unscale(scale(.)) =',
          repr(v), ' lnprob =', p.lnprob(v))
    if not np.isfinite(p.lnprob(v)):
        bad.append('%s: the upper bound after scale/unscale has zero density'
                   % type(p).__name__)
ok = Uniform(4.41, 6.71, 6.07)
print('control guess 6.07 ->', repr(ok.unscale(ok.scale(6.71))))

# (2) consequence in a fit whose optimum (z = 8) lies beyond the upper bound
det = detector_grid(30, .2)
holo = calc_holo(det, Sphere(n=1.59, r=.5, center=[3, 3, 8.0]), 1.33, .66, (1, 0))
out = {}
for guess in (6.07, 6.08):
    z = Uniform(4.41, 6.71, guess)
    model = ExactModel(Sphere(n=1.59, r=Uniform(.3, .7, .45), center=[3, 3, z]),
                       noise_sd=.01)
    seen = []
    strategy = NmpfitStrategy()
    inner = strategy.calc_residuals
    def spy(pars, inner=inner):
        res = inner(pars)
        seen.append(np.isinf(res).any())
        return res
    strategy.calc_residuals = spy
    result = strategy.fit(model, holo)
    pars = model.ensure_parameters_are_listlike(result.parameters)
    chi2 = (model._residuals(pars, holo, .01) ** 2).sum()
    out[guess] = (result.parameters, chi2, len(seen), sum(seen))
    print('guess %.2f: %s  chi2 = %.2f  evaluations = %d  with an infinite '
          'residual = %d  r uncertainty = %.2g' % (
              guess, result.parameters, chi2, len(seen), sum(seen),
              result.intervals[0].plus))
dr = abs(out[6.08][0]['r'] - out[6.07][0]['r'])
if out[6.08][3] > 0 and out[6.07][3] == 0:
    bad.append('the fit with guess 6.08 met an infinite prior residual at its own '
               'bound; r differs by %.2g and chi2 by %.1f from the guess 6.07 fit'
               % (dr, out[6.08][1] - out[6.07][1]))

print()
print('VIOLATIONS:' if bad else 'no violation')
for b in bad:
    print(' -', b)
sys.exit(1 if bad else 0)
