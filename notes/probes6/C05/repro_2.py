"""SBESJY.F (holopy/scattering/third_party), line 103: `IF (J(0) .GT. DSQRT(ACCUR))` lacks ABS().
Every argument with j0(x) = sin(x)/x < 0 therefore takes the fallback branch written for j0 = 0, which
normalises the downward recurrence with j1(x); near the zeros of j1 that have sin(x) < 0 (x = 4.4934,
10.9041, 17.2208, ...) the spherical Bessel functions -- and with them the Mie / Multisphere near fields
(full_radial_dependence) -- lose all accuracy, although IFAIL = 0.  The other zeros of j1 (sin x > 0,
e.g. 7.7253) are exact to 1e-14: the two branches should agree and do not."""
import sys, os; sys.path.insert(0, os.getcwd())
import warnings; warnings.filterwarnings('ignore')
import numpy as np
from scipy.special import spherical_jn
from scipy.optimize import brentq
import holopy as hp
from holopy.scattering import Sphere, Mie, calc_field
from holopy.core.metadata import detector_points
from holopy.scattering.theory.mie_f import uts_scsmfo
print(hp.__file__)
bad = False
for lo, hi in [(10.8, 11.0), (7.6, 7.8)]:
    x0 = brentq(lambda x: spherical_jn(1, x), lo, hi, xtol=1e-15)
    for d in [0.0, 1e-12, 1e-9]:
        j, y, jp, yp, ifail = uts_scsmfo.sbesjy(x0 + d, 12)
        ref = spherical_jn(np.arange(13), x0 + d)
        rel = np.max(np.abs(j[2:] - ref[2:]) / np.abs(ref[2:]))
        print('x = %.6f + %g (sin x = %+.2f): ifail = %d, max rel. error of j_2..j_12 = %.2e' % (x0, d, np.sin(x0), ifail, rel))
        if rel > 1e-8: bad = True
# the same through the public interface: field of a sphere on the optical axis, at kr = that zero
k = 2 * np.pi * 1.33 / 0.66
x0 = brentq(lambda x: spherical_jn(1, x), 10.8, 11.0, xtol=1e-15)
vals = []
for dz in [-1e-7, 0.0, 1e-7]:
    s = Sphere(n=1.59, r=0.3, center=(0, 0, x0 / k + dz))
    f = calc_field(detector_points(x=0.0, y=0.0, z=0.0), s, 1.33, 0.66, (1, 0), theory=Mie())
    vals.append(complex(f.sel(vector='x').values[0]))
print('E_x at z = z0 - 1e-7, z0, z0 + 1e-7:', vals)
jump = abs(vals[1] - 0.5 * (vals[0] + vals[2])) / abs(vals[0])
print('relative departure of the middle value from its neighbours: %.2e' % jump)
if jump > 1e-5: bad = True
sys.exit(1 if bad else 0)
