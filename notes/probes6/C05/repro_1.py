"""C05, shift clause, Tmatrix: the pixel straight below a tilted spheroid / cylinder changes when scatterer and
detector are shifted together.  SAME ROOT CAUSE AS THE KNOWN FINDING E8 (transposed laboratory-frame amplitude
matrix, tmatrix.py:159 and 184-187): the forward field then depends on the azimuth, and the azimuth of the
pixel below the particle is arctan2(+-1e-16, +-1e-16), i.e. set by rounding."""
import sys, os; sys.path.insert(0, os.getcwd())
import warnings; warnings.filterwarnings('ignore')
import numpy as np
import holopy as hp
from holopy.scattering import Spheroid, Cylinder, Tmatrix, calc_holo
from holopy.core.metadata import detector_grid
print(hp.__file__)
det = detector_grid((9, 9), 0.3)
c = float(det.x.mean())   # 1.2000000000000002: the centre pixel x[4] = 1.2 is straight below the particle to within 2.2e-16
bad = False
for name, make in [('Spheroid', lambda ctr: Spheroid(n=1.59, r=(0.3, 0.7), rotation=(0, 0.7, 0.5), center=ctr)),
                   ('Cylinder', lambda ctr: Cylinder(n=1.59, d=0.6, h=1.2, rotation=(0, 0.7, 0.5), center=ctr))]:
    h0 = calc_holo(det, make((c, c, 5.0)), 1.33, 0.66, (1, 0), theory=Tmatrix()).values.squeeze()
    for sh in [(3.3, -1.7), (100.0, 0.0), (0.7, 0.1)]:
        det2 = det.assign_coords(x=det.x + sh[0], y=det.y + sh[1])
        h1 = calc_holo(det2, make((c + sh[0], c + sh[1], 5.0)), 1.33, 0.66, (1, 0),
                       theory=Tmatrix()).values.squeeze()
        d = np.abs(h1 - h0)
        print(name, sh, 'max |difference| after a common in-plane shift: %.3e at pixel %s (range of the hologram '
              '%.2f); largest difference elsewhere %.1e' % (d.max(), np.unravel_index(d.argmax(), d.shape),
                                                            np.ptp(h0), np.delete(d.ravel(), 40).max()))
        if d.max() > 1e-6:
            bad = True
sys.exit(1 if bad else 0)
