"""C17 side finding: the `cfsp` (cascaded free-space propagation) option of
holopy.propagate / trans_func has no effect on the result.

trans_func computes G(d/cfsp) and returns G(d/cfsp)**cfsp.  G is a pure phase
factor exp(-i 2 pi d/lambda sqrt(..)) that is neither windowed nor band-limited
as a function of d (the d-dependent window of Kreis' method is absent), so
G(d/c)**c == G(d) identically: every value of cfsp returns the same
reconstruction as cfsp=0, although the docstring and the tutorial promise a
different (better) reconstruction.
Run from the checkout root.  Exit 1 when the option is a no-op.
"""
import sys, os; sys.path.insert(0, os.getcwd())
import warnings; warnings.filterwarnings('ignore')
import numpy as np
import xarray as xr
# sandbox work-around (not a library defect): new xarray's Dataset.update returns None
_u = xr.Dataset.update
def _upd(self, other):
    r = _u(self, other)
    return self if r is None else r
xr.Dataset.update = _upd
import holopy as hp
from holopy.core.metadata import data_grid
from holopy.propagation.convolution_propagation import trans_func

rng = np.random.default_rng(0)
worst = 0.0
for shape in [(8, 8), (31, 16), (64, 64)]:
    for spacing in (0.05, 0.1, 0.3, 1.0):       # both sides of lambda_medium/2 = 0.248
        img = data_grid(rng.normal(size=shape), spacing=spacing,
                        medium_index=1.33, illum_wavelen=0.66)
        for d in (0.5, 5.0, 50.0, -20.0, 1000.0):
            plain = hp.propagate(img, d)
            for c in (1, 2, 3, 7, 20):
                casc = hp.propagate(img, d, cfsp=c)
                worst = max(worst, float(np.abs(casc.values - plain.values).max()
                                         / np.abs(plain.values).max()))
print("largest relative difference between propagate(..., cfsp=c) and "
      "propagate(...) over 300 cases: %.3g" % worst)
img = data_grid(rng.normal(size=(16, 16)), spacing=0.1, medium_index=1.33, illum_wavelen=0.66)
g0 = trans_func(img, 30.0, 0.66/1.33)
g3 = trans_func(img, 30.0, 0.66/1.33, cfsp=3)
print("max |trans_func(cfsp=3) - trans_func(cfsp=0)| = %.3g" % float(np.abs(g3.values - g0.values).max()))
if worst < 1e-9:
    print("VIOLATION: cfsp is silently ignored (result identical to cfsp=0 up to rounding)")
    sys.exit(1)
print("cfsp changes the result")
sys.exit(0)
