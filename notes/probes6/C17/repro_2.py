"""C17 side finding (minor): 0 < cfsp < 1 silently returns an all-NaN image.

trans_func tests `cfsp > 0` BEFORE truncating with int(abs(cfsp)); for
0 < cfsp < 1 the truncated value is 0, d is divided by 0 (inf), exp(-i inf)
is NaN, and the second `if cfsp > 0` (now false) skips the power.  No error
or warning is raised by the library; every pixel of the result is NaN, while
cfsp=0, cfsp=1 and cfsp=1.5 all return the ordinary reconstruction.
Run from the checkout root.  Exit 1 when the NaN image is returned.
"""
import sys, os; sys.path.insert(0, os.getcwd())
import warnings; warnings.filterwarnings('ignore')
import numpy as np
import xarray as xr
_u = xr.Dataset.update
def _upd(self, other):
    r = _u(self, other)
    return self if r is None else r
xr.Dataset.update = _upd
import holopy as hp
from holopy.core.metadata import data_grid

rng = np.random.default_rng(0)
img = data_grid(rng.normal(size=(6, 5)), spacing=0.3, medium_index=1.33, illum_wavelen=0.66)
ref = hp.propagate(img, 2.0)
bad = False
for c in (0, 0.5, 0.999, 1, 1.5):
    r = hp.propagate(img, 2.0, cfsp=c)
    nnan = int(np.isnan(r.values).sum())
    print("cfsp=%-5s NaN pixels: %d of %d   max|r-ref| = %s" % (
        c, nnan, r.size, "nan" if nnan else "%.2g" % float(np.abs(r.values - ref.values).max())))
    bad |= nnan > 0
if bad:
    print("VIOLATION: a fractional cfsp in (0, 1) silently returns NaN everywhere")
    sys.exit(1)
sys.exit(0)
