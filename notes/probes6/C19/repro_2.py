"""C19 / finding 2: the Cartesian -> spherical / cylindrical conversions (and
cartesian_distance) square the coordinates in the dtype they arrive in.
Integer coordinates of quite ordinary size (60000 as int32, 200 as int16, 20 as
uint8) wrap around: the distance from the origin is not preserved, the polar
angle is wrong and cylindrical returns a wrong rho without any warning."""
import sys, os; sys.path.insert(0, os.getcwd())
import warnings
import numpy as np
import holopy
from holopy.core.math import find_transformation_function as ftf
from holopy.core.math import cartesian_distance

print(holopy.__file__)
bad = False
for dtype, v in [(np.int32, 60000), (np.int16, 200), (np.uint8, 20)]:
    x = np.array([v, -v if dtype != np.uint8 else v], dtype=dtype)
    xyz_int = [x, x, x]
    xyz_flt = [x.astype(float)] * 3
    for target in ['spherical', 'cylindrical']:
        with warnings.catch_warnings(record=True) as w:
            warnings.simplefilter('always')
            got = ftf('cartesian', target)(xyz_int)
        want = ftf('cartesian', target)(xyz_flt)
        same = np.allclose(got, want, equal_nan=False)
        print(dtype.__name__, v, target, 'got', got[:, 0], 'want', want[:, 0],
              'warnings:', [str(i.message)[:40] for i in w])
        bad |= not same
with warnings.catch_warnings():
    warnings.simplefilter('ignore')
    d = cartesian_distance(np.array([60000, 0, 0], dtype=np.int32),
                           np.array([0, 0, 0], dtype=np.int32))
print('cartesian_distance int32 (60000,0,0)-(0,0,0):', d)
bad |= not np.isclose(d, 60000.)
sys.exit(1 if bad else 0)
