"""C19 / finding 1: a detector of spherical points (r, theta, phi) is read
relative to *each component* of a composite when the field is obtained by
superposition (Mie on a Spheres), but relative to the *cluster centre* when the
theory handles the cluster itself (Multisphere) -- and the equivalent Cartesian
points are relative to the lab origin.  With the superposition path every
component sphere is thereby put at the same place: the path difference between
the spheres is lost and two identical spheres give exactly 4x the intensity of
one sphere at every angle."""
import sys, os; sys.path.insert(0, os.getcwd())
import warnings
import numpy as np
warnings.simplefilter('ignore')
import holopy
from holopy.scattering import Sphere, Spheres, Mie, Multisphere, calc_intensity
from holopy.core.metadata import detector_points
from holopy.core.math import transform_spherical_to_cartesian

print(holopy.__file__)
kw = dict(medium_index=1.33, illum_wavelen=.66, illum_polarization=(1, 0))
s1 = Sphere(n=1.5, r=.3, center=(0, 0, 0))
s2 = Sphere(n=1.5, r=.3, center=(3., 0, 0))
cluster = Spheres([s1, s2])
C = cluster.center

r = 2000.
theta = np.linspace(0.05, 1.2, 8)
phi = np.full(8, 0.3)
spherical = detector_points(theta=theta, phi=phi, r=r)
# the same points, in the Cartesian lab frame (holopy's z runs against the
# direction the polar angle is measured from: z = z_c - r cos(theta))
dx, dy, dz = transform_spherical_to_cartesian([r, theta, phi])
cartesian = detector_points(x=C[0] + dx, y=C[1] + dy, z=C[2] - dz)

I_one = calc_intensity(spherical, s1, theory=Mie(), **kw).values
res = {}
for name, theory in [('Mie', Mie()), ('Multisphere', Multisphere())]:
    for dname, det in [('spherical', spherical), ('cartesian', cartesian)]:
        res[name, dname] = calc_intensity(det, cluster, theory=theory, **kw).values
        print('%-12s %-10s' % (name, dname), res[name, dname] * r**2)
print('4 x single sphere      ', 4 * I_one * r**2)

ok_ms = np.allclose(res['Multisphere', 'spherical'],
                    res['Multisphere', 'cartesian'], rtol=1e-3)
ok_mie = np.allclose(res['Mie', 'spherical'], res['Mie', 'cartesian'],
                     rtol=5e-2)
coherent = np.allclose(res['Mie', 'spherical'], 4 * I_one, rtol=1e-9)
print('Multisphere: spherical points == Cartesian points:', ok_ms)
print('Mie superposition: spherical points == Cartesian points:', ok_mie)
print('Mie superposition on spherical points == 4 x one sphere '
      '(all spheres at one place):', coherent)
sys.exit(1 if (ok_ms and not ok_mie and coherent) else 0)
