"""C19 / finding 3 (minor, raises): a scalar z next to array x, y is accepted by
cartesian<->cylindrical (it is filled out to the length of x) and by
cartesian->spherical / cylindrical->spherical (broadcast), but the identity
entries of the same look-up table (cartesian->cartesian,
cylindrical->cylindrical: keep_in_same_coordinates) and to_cartesian (whose
repeat_sing_dims call exists precisely to fill out a singleton coordinate)
raise ValueError on the ragged np.array([...])."""
import sys, os; sys.path.insert(0, os.getcwd())
import numpy as np
import holopy
from holopy.core.math import find_transformation_function as ftf, to_cartesian
print(holopy.__file__)
x = np.array([1., -2, 3]); y = np.array([.5, 2, -1]); z = 2.0
bad = False
for a, b, p in [('cartesian', 'cylindrical', [x, y, z]),
                ('cartesian', 'spherical', [x, y, z]),
                ('cylindrical', 'cartesian', [x, y, z]),
                ('cylindrical', 'spherical', [x, y, z]),
                ('cartesian', 'cartesian', [x, y, z]),
                ('cylindrical', 'cylindrical', [x, y, z])]:
    try:
        out = ftf(a, b)(p)
        print(a, '->', b, 'shape', out.shape)
    except ValueError as e:
        print(a, '->', b, 'RAISES', str(e)[:60])
        bad = True
try:
    print(to_cartesian(1.0, 0.5, np.array([0., 1., 2.])))
except ValueError as e:
    print('to_cartesian(r scalar, theta scalar, phi array) RAISES', str(e)[:60])
    bad = True
sys.exit(1 if bad else 0)
