"""C19 / finding 4 (minor, raises): JanusSphere_Tapered's default rotation is the
two-element (0, 0) (and docs/source/tutorial/dda_tutorial.rst passes a
two-element rotation too), but its indicators call
rotation_matrix(*self.rotation), which needs the three z-y-z Euler angles: a
default-constructed tapered Janus sphere cannot be voxelated."""
import sys, os; sys.path.insert(0, os.getcwd())
import holopy
from holopy.scattering.scatterer import JanusSphere_Tapered
print(holopy.__file__)
j = JanusSphere_Tapered(n=[1.3, 1.5], r=[.5, .6], center=(0, 0, 0))
print('default rotation:', j.rotation)
try:
    print(j.voxelate(.1).shape)
    sys.exit(0)
except TypeError as e:
    print('RAISES', e)
    sys.exit(1)
