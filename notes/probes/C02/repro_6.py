"""C02 finding 6 (minor): the pure-Python Mie series used by the lens theories
(mielensfunctions.MieScatteringMatrix) cannot handle Im(m)*x >~ 709: scipy's
spherical_jn overflows for the complex argument, the very first (a_1, b_1) is
NaN and `_eval` dies with IndexError('list index out of range') at
`als_bls[-1]`, whereas the Lorenz-Mie solver handles the same sphere.
Run from the checkout root."""
import sys, os; sys.path.insert(0, os.getcwd())
import warnings; warnings.filterwarnings('ignore')
import numpy as np
from holopy.core.metadata import detector_points
from holopy.scattering import Sphere, Mie, calc_scat_matrix
from holopy.scattering.theory.mielensfunctions import MieScatteringMatrix

wl = 2 * np.pi
thetas = np.array([0.0, 0.7, 2.0])
bad = False
for m, x in [(1.5 + 2j, 300.), (1.5 + 2j, 400.), (0.2 + 3.4j, 250.)]:
    det = detector_points(theta=thetas, phi=0 * thetas)
    S = calc_scat_matrix(det, Sphere(n=m, r=x, center=(0, 0, 0)), 1.0, wl, theory=Mie()).values
    try:
        S1 = MieScatteringMatrix('perpendicular', m, x)(thetas)
        # van de Hulst time convention -> complex conjugate of B&H S1
        err = np.abs(np.conj(S1) - S[:, 1, 1]).max() / np.abs(S).max()
        print('m=%s x=%g Im(mx)=%g: rel diff to Mie %.2e' % (m, x, (m * x).imag, err))
        if not err < 1e-6:
            bad = True
    except Exception as e:
        print('m=%s x=%g Im(mx)=%g: MieScatteringMatrix raised %r (Mie S1(0)=%s)'
              % (m, x, (m * x).imag, e, S[0, 1, 1]))
        bad = True
print('VIOLATION' if bad else 'ok')
sys.exit(1 if bad else 0)
