"""C02 finding 1: Multisphere silently truncates the single-sphere expansion at
order nod=32 (scfodim.for), so a one-sphere 'cluster' with size parameter
x >~ 30 gives a scattering matrix / field that disagrees with Mie by O(1),
without any exception or warning (python only rejects x > 1000).
Run from the checkout root."""
import sys, os; sys.path.insert(0, os.getcwd())
import warnings; warnings.filterwarnings('ignore')
import numpy as np
from holopy.core.metadata import detector_points
from holopy.scattering import Sphere, Mie, Multisphere, calc_scat_matrix, calc_field

wl = 2 * np.pi          # k = 1 in a medium of index 1 -> r == size parameter
thetas = np.linspace(0, np.pi, 61)
det_far = detector_points(theta=thetas, phi=0 * thetas + 0.3)
det_r = detector_points(r=0 * thetas + 5e3, theta=thetas, phi=0 * thetas + 0.3)
bad = False
for x in (20, 28, 30, 35, 40, 60, 100, 300):
    sph = Sphere(n=1.2, r=x, center=(0, 0, 0))
    Sm = calc_scat_matrix(det_far, sph, 1.0, wl, theory=Mie()).values
    # even with the tightest tolerances the truncation remains
    Ss = calc_scat_matrix(det_far, sph, 1.0, wl,
                          theory=Multisphere(qeps1=1e-12, qeps2=1e-12)).values
    fm = calc_field(det_r, sph, 1.0, wl, (1, 0), theory=Mie(False, True)).values
    fs = calc_field(det_r, sph, 1.0, wl, (1, 0), theory=Multisphere()).values
    eS = np.abs(Ss - Sm).max() / np.abs(Sm).max()
    eF = np.abs(fs - fm).max() / np.abs(fm).max()
    print('x=%5g  |S_multisphere - S_mie|/max|S_mie| = %.2e   field rel. diff = %.2e'
          % (x, eS, eF))
    if x >= 30 and (eS > 5e-3 or eF > 5e-3):
        bad = True
print('VIOLATION' if bad else 'ok')
sys.exit(1 if bad else 0)
