"""C02 finding 5 (documented-by-message limitation): for detector distances
kr >~ 1.99e4 the spherical Bessel routine SBESJY gives up (LIMIT = 20000
continued-fraction iterations), prints a note on stdout and returns
uninitialised arrays; IFAIL is ignored, so default Mie() (full radial
dependence) and Multisphere() return garbage fields instead of raising.
Run from the checkout root."""
import sys, os; sys.path.insert(0, os.getcwd())
import warnings; warnings.filterwarnings('ignore')
import numpy as np
from holopy.core.metadata import detector_points
from holopy.scattering import Sphere, Mie, Multisphere, calc_field

wl = 2 * np.pi
sph = Sphere(n=1.2, r=5.0, center=(0, 0, 0))
bad = False
for kr in (1.9e4, 2.05e4, 5e4):
    det = detector_points(r=[kr], theta=[1.0], phi=[0.4])
    far = calc_field(det, sph, 1.0, wl, (1, 0), theory=Mie(False, False)).values.ravel()
    f = calc_field(det, sph, 1.0, wl, (1, 0), theory=Mie(False, True)).values.ravel()
    fs = calc_field(det, sph, 1.0, wl, (1, 0), theory=Multisphere()).values.ravel()
    e1 = np.abs(f - far).max() / np.abs(far).max()
    e2 = np.abs(fs - far).max() / np.abs(far).max()
    print('kr=%g: Mie(full radial) vs asymptotic rel diff %.2e ; Multisphere vs asymptotic %.2e' % (kr, e1, e2))
    if kr > 2e4 and (e1 > 1e-2 or e2 > 1e-2):
        bad = True
print('VIOLATION' if bad else 'ok')
sys.exit(1 if bad else 0)
