"""C02 finding 4: SBESJY.F tests `J(0) .GT. DSQRT(ACCUR)` instead of
`ABS(J(0)) .GT. ...`; whenever sin(kr) < 0 the j_l are normalised with j_1,
which fails when kr sits on a zero of j_1 in the third quadrant
(kr = 4.4934094579..., 10.9041..., 17.2207...). At such a detector distance the
full-radial Mie field (and the Multisphere field, which uses the same routine)
is wrong by O(1), while the textbook series is perfectly regular there.
Run from the checkout root."""
import sys, os; sys.path.insert(0, os.getcwd())
import warnings; warnings.filterwarnings('ignore')
import numpy as np
from scipy.special import spherical_jn, spherical_yn
from holopy.core.metadata import detector_points
from holopy.scattering import Sphere, Mie, Multisphere, calc_field
from holopy.scattering.theory.mie_f import mieangfuncs

wl = 2 * np.pi   # k = 1
kr0 = 4.493409457909064          # first positive root of tan(x) = x
bad = False
sph = Sphere(n=1.5, r=3.0, center=(0, 0, 0))
for kr in (kr0, np.nextafter(kr0, 10), kr0 * (1 + 1e-13), kr0 * (1 + 1e-9), 4.4, 7.725251836937707):
    j, y, jp, yp, ifail = mieangfuncs.sbesjy(kr, 6)
    jref = spherical_jn(np.arange(7), kr)
    relj = np.abs(j[2:] - jref[2:]) / np.abs(jref[2:])
    det = detector_points(r=[kr], theta=[1.0], phi=[0.4])
    f_full = calc_field(det, sph, 1.0, wl, (1, 0), theory=Mie(False, True)).values.ravel()
    f_ms = calc_field(det, sph, 1.0, wl, (1, 0),
                      theory=Multisphere(qeps1=1e-12, qeps2=1e-12)).values.ravel()
    # independent textbook series (B&H 4.45), theta/phi components only
    n = np.arange(1, 30)
    def ab(m, x):
        from scipy.special import spherical_jn as sj, spherical_yn as sy
        jx, djx = sj(n, x), sj(n, x, True); yx, dyx = sy(n, x), sy(n, x, True)
        jm, djm = sj(n, m * x), sj(n, m * x, True)
        hx, dhx = jx + 1j * yx, djx + 1j * dyx
        dpx, dxx, dpm = jx + x * djx, hx + x * dhx, jm + m * x * djm
        return ((m**2 * jm * dpx - jx * dpm) / (m**2 * jm * dxx - hx * dpm),
                (jm * dpx - jx * dpm) / (jm * dxx - hx * dpm))
    a, b = ab(1.5, 3.0)
    mu = np.cos(1.0); pi = np.zeros(31); tau = np.zeros(31); pi[1] = 1; tau[1] = mu
    for k in range(2, 30):
        pi[k] = (2 * k - 1) / (k - 1) * mu * pi[k - 1] - k / (k - 1) * pi[k - 2]
        tau[k] = k * mu * pi[k] - (k + 1) * pi[k - 1]
    pi, tau = pi[1:30], tau[1:30]
    h = spherical_jn(n, kr) + 1j * spherical_yn(n, kr)
    dh = spherical_jn(n, kr, True) + 1j * spherical_yn(n, kr, True)
    En = 1j**n * (2 * n + 1) / (n * (n + 1))
    Et = np.cos(0.4) * np.sum(En * (1j * a * tau * (h / kr + dh) - b * pi * h))
    Ep = -np.sin(0.4) * np.sum(En * (1j * a * pi * (h / kr + dh) - b * tau * h))
    st, ct, sp, cp = np.sin(1.0), np.cos(1.0), np.sin(0.4), np.cos(0.4)
    ref = np.array([ct * cp * Et - sp * Ep, ct * sp * Et + cp * Ep, -st * Et])
    e1 = np.abs(f_full - ref).max() / np.abs(ref).max()
    e2 = np.abs(f_ms - ref).max() / np.abs(ref).max()
    print('kr=%.16g  sbesjy j_l(l>=2) rel.err=%.1e   Mie(full radial) rel.err=%.1e   Multisphere rel.err=%.1e'
          % (kr, relj.max(), e1, e2))
    if abs(kr - kr0) < 1e-11 and (e1 > 1e-3 or e2 > 1e-3):
        bad = True
print('VIOLATION' if bad else 'ok')
sys.exit(1 if bad else 0)
