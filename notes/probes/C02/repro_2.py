"""C02 finding 2: layered-sphere coefficients (scatcoeffs_multi -> log_der_13)
overflow to NaN as soon as Im(m_l * x_l) > ~709.8 in any layer but the core,
although the homogeneous solver handles the same sphere. A layered sphere whose
layers share one index must scatter like the homogeneous sphere; instead
calc_scat_matrix / calc_cross_sections silently return NaN.
Run from the checkout root."""
import sys, os; sys.path.insert(0, os.getcwd())
import warnings; warnings.filterwarnings('ignore')
import numpy as np
from holopy.core.metadata import detector_points
from holopy.scattering import Sphere, Mie, calc_scat_matrix, calc_cross_sections

wl = 2 * np.pi
det = detector_points(theta=[0.0, 1.0, 3.0], phi=[0.0, 0.5, 1.0])
bad = False
for m, x in [(1.5 + 1.0j, 700.), (1.5 + 1.0j, 712.), (0.2 + 3.4j, 215.)]:
    single = Sphere(n=m, r=x, center=(0, 0, 0))
    layered = Sphere(n=[m, m], r=[x / 2, x], center=(0, 0, 0))
    S1 = calc_scat_matrix(det, single, 1.0, wl, theory=Mie()).values
    S2 = calc_scat_matrix(det, layered, 1.0, wl, theory=Mie()).values
    c1 = calc_cross_sections(single, 1.0, wl, (1, 0)).values
    c2 = calc_cross_sections(layered, 1.0, wl, (1, 0)).values
    err = np.abs(S1 - S2).max() / np.abs(S1).max()
    print('m=%s x=%g Im(m x)=%g: homogeneous S2(0)=%s, layered S2(0)=%s, rel diff=%s'
          % (m, x, (m * x).imag, S1[0, 0, 0], S2[0, 0, 0], err))
    print('     cross sections homogeneous', c1, 'layered', c2)
    if not (err < 1e-6):
        bad = True
print('VIOLATION' if bad else 'ok')
sys.exit(1 if bad else 0)
