"""C02 finding 3: in the Rayleigh regime the layered solver loses all
accuracy (error ~ 1e-16 / x^4 in Qratio), so a small sphere wrapped in a layer
with the medium's index does NOT scatter like the bare sphere (errors from
1e-2 up to factors of 100-1000 at outer size parameter ~1e-3), and generic
core/shell results at x ~ 1e-3 are off by ~1e-3..1e-2.
Run from the checkout root."""
import sys, os; sys.path.insert(0, os.getcwd())
import warnings; warnings.filterwarnings('ignore')
import numpy as np
from holopy.core.metadata import detector_points
from holopy.scattering import Sphere, Mie, calc_field
from holopy.scattering.theory.mie_f.mie_specfuncs import Qratio
from scipy.special import spherical_jn, spherical_yn

wl = 2 * np.pi   # k = 1
nmed = 1.0
bad = False
th = np.array([0.3, 1.2, 2.5]); ph = np.array([0.1, 1.0, -2.0])
for x_out, frac, m in [(1e-3, 0.03, 1.5), (1e-3, 0.1, 1.5), (3e-3, 0.03, 1.5),
                       (3e-3, 0.1, 1.5), (1e-2, 0.03, 1.5), (1e-2, 0.1, 1.5)]:
    det = detector_points(r=0 * th + 5.0, theta=th, phi=ph)
    bare = Sphere(n=m, r=x_out * frac, center=(0, 0, 0))
    wrapped = Sphere(n=[m, nmed], r=[x_out * frac, x_out], center=(0, 0, 0))
    f1 = calc_field(det, bare, nmed, wl, (1, 0), theory=Mie()).values
    f2 = calc_field(det, wrapped, nmed, wl, (1, 0), theory=Mie()).values
    err = np.abs(f1 - f2).max() / np.abs(f1).max()
    print('core x=%.1e in medium-index shell out to x=%.1e: field rel. diff = %.2e'
          % (x_out * frac, x_out, err))
    if err > 1e-3:
        bad = True

# root cause: Qratio (Yang eq. 33 upward recursion) at small arguments
def q_exact(z1, z2, n):
    def pz(z):
        j = spherical_jn(n, z); y = spherical_yn(n, z)
        return j / (j + 1j * y)
    return pz(z1) / pz(z2)
for z in (1e-2, 1e-3, 1e-4):
    q = Qratio(z, 3 * z, 2)
    qe = q_exact(z, 3 * z, np.arange(3))
    print('Qratio(z=%g, 3z) n=0..2 relative error:' % z, np.abs(q - qe) / np.abs(qe))
print('VIOLATION' if bad else 'ok')
sys.exit(1 if bad else 0)
