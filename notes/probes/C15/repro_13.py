"""Uniform prior with huge finite bounds: default guess (upper+lower)/2 overflows to inf, is written as
'guess: .inf', and the constructor then rejects the saved text on load."""
import sys, os; sys.path.insert(0, os.getcwd()); sys.path.insert(0, os.path.dirname(os.path.abspath(__file__)))
from _common import *
from holopy.inference import prior
u = prior.Uniform(1e308, 1.7e308)
text = dump(u); print(text)
try:
    load(text); bad = False
except Exception as e:
    print('LOAD FAILS ->', type(e).__name__, e); bad = True
print('VIOLATION' if bad else 'ok')
sys.exit(1 if bad else 0)
