"""Model whose scatterer holds a ComplexPrior with both parts fixed: the reloaded model's map differs
(collapsed to a constant), library equality fails and the resaved text differs (values are equivalent)."""
import sys, os; sys.path.insert(0, os.getcwd()); sys.path.insert(0, os.path.dirname(os.path.abspath(__file__)))
from _common import *
from holopy.inference import AlphaModel, prior
from holopy.scattering import Sphere
m = AlphaModel(Sphere(n=prior.ComplexPrior(1.5, 0.1), r=prior.Uniform(0, 1), center=[1, 2, 3]))
t1 = dump(m); n = load(t1); t2 = dump(n)
print('original n map:', m._maps['scatterer'][1][0][0])
print('reloaded n map:', n._maps['scatterer'][1][0][0])
print('__eq__:', m == n, ' text identical:', t1 == t2)
bad = (not (m == n)) or t1 != t2
print('VIOLATION' if bad else 'ok')
sys.exit(1 if bad else 0)
