"""'!ufunc' writes only ufunc.__name__ and always reloads from numpy: ufuncs from scipy.special (or
np.frompyfunc) applied to a prior save fine but cannot be loaded."""
import sys, os; sys.path.insert(0, os.getcwd()); sys.path.insert(0, os.path.dirname(os.path.abspath(__file__)))
from _common import *
import scipy.special
from holopy.inference import prior
p = scipy.special.expit(prior.Uniform(-3, 3))      # goes through Prior.__array_ufunc__
print(type(p).__name__, p.transformation)
text = dump(p); print(text)
try:
    n = load(text); bad = n.transformation is not p.transformation
except Exception as e:
    print('LOAD FAILS ->', type(e).__name__, e); bad = True
print('VIOLATION' if bad else 'ok')
sys.exit(1 if bad else 0)
