"""CmaStrategy: resample_pixels, parent_fraction and weight_function are not written."""
import sys, os; sys.path.insert(0, os.getcwd()); sys.path.insert(0, os.path.dirname(os.path.abspath(__file__)))
from _common import *
from holopy.inference import CmaStrategy

s = CmaStrategy(npixels=100, resample_pixels=False, parent_fraction=0.5)
text = dump(s)
print(text)
n = load(text)
print('new_pixels (None means: keep one pixel subset):', s.new_pixels, '->', n.new_pixels)
w_o = [bool(s.weights(i, 10)) for i in range(10)]
w_n = [bool(n.weights(i, 10)) for i in range(10)]
print('weights original:', w_o)
print('weights reloaded:', w_n)
print('library __eq__ says equal:', s == n)
bad = s.new_pixels != n.new_pixels or w_o != w_n
print('VIOLATION' if bad else 'ok')
sys.exit(1 if bad else 0)
