"""TemperedStrategy: nsamples, min_pixels, npixels, stages, stage_len are lost, seed drifts."""
import sys, os; sys.path.insert(0, os.getcwd()); sys.path.insert(0, os.path.dirname(os.path.abspath(__file__)))
from _common import *
from holopy.inference import TemperedStrategy

s = TemperedStrategy(nwalkers=10, nsamples=50, min_pixels=5, npixels=100, stages=2, stage_len=7, seed=2)
text = dump(s)
print(text)
n = load(text)
orig = [(x.nsamples, x.npixels, x.seed) for x in s.stage_strategies]
new = [(x.nsamples, x.npixels, x.seed) for x in n.stage_strategies]
print('original stages (nsamples, npixels, seed):', orig)
print('reloaded stages (nsamples, npixels, seed):', new)
text2 = dump(n)
print('library __eq__ says equal:', s == n)
print('resaved text identical:', text2 == text, '| seed in text:', s.seed, '->', n.seed, '(constructor got seed=2)')
bad = orig != new or text2 != text
print('VIOLATION' if bad else 'ok')
sys.exit(1 if bad else 0)
