"""Model of a RigidCluster: reloaded model has no parameters at all."""
import sys, os; sys.path.insert(0, os.getcwd()); sys.path.insert(0, os.path.dirname(os.path.abspath(__file__)))
from _common import *
from holopy.inference import AlphaModel, prior
from holopy.scattering import Sphere, Spheres, RigidCluster
U = prior.Uniform

rc = RigidCluster(Spheres([Sphere(n=1.5, r=0.5, center=[0, 0, 0]), Sphere(n=1.5, r=0.5, center=[0, 0, 1.1])]),
                  translation=[U(0, 1), 2, U(3, 4)], rotation=[0, U(0, 1), 0.2])
m = AlphaModel(rc)
text = dump(m)
with warnings.catch_warnings(record=True) as w:
    warnings.simplefilter('always')
    n = load(text)
print('warnings on load:', [str(x.message) for x in w if issubclass(x.category, UserWarning)])
print('original names:', m._parameter_names, ' reloaded names:', n._parameter_names)
print('dummy scatterer class stored in the text:', type(m._dummy_scatterer).__name__)
print('library __eq__:', m == n, '| resaved text identical:', dump(n) == text)
bad = m._parameter_names != n._parameter_names
print('VIOLATION' if bad else 'ok')
sys.exit(1 if bad else 0)
