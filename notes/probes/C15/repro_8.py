"""ignore_aliases is broken (len(data) raises TypeError for scalars before the isinstance test), so
ints/floats/bools get YAML anchors by object identity. An np.int64 and an int of the same value are
different objects before saving but the same cached small int after loading -> resaved text differs."""
import sys, os; sys.path.insert(0, os.getcwd()); sys.path.insert(0, os.path.dirname(os.path.abspath(__file__)))
from _common import *
from holopy.scattering import Sphere
from holopy.core.io import serialize

print('ignore_aliases(1.5) =', serialize.ignore_aliases(1.5), ' ignore_aliases(3) =', serialize.ignore_aliases(3),
      ' (should be True, as for str:', serialize.ignore_aliases('a'), ')')
s = Sphere(n=1.59, r=1, center=np.array([1, 2, 3]))     # integer centre given as an array
t1 = dump(s); n = load(t1); t2 = dump(n)
print(t1); print(t2)
bad = t1 != t2
print('VIOLATION' if bad else 'ok')
sys.exit(1 if bad else 0)
