"""hp.save to a text-mode stream (io.StringIO / open(..., 'w')) raises TypeError; only binary streams work."""
import sys, os; sys.path.insert(0, os.getcwd()); sys.path.insert(0, os.path.dirname(os.path.abspath(__file__)))
from _common import *
import io
from holopy.scattering import Sphere
s = Sphere(n=1.59, r=0.5, center=[1, 2, 3])
b = io.BytesIO(); hp.save(b, s); b.seek(0); print('BytesIO round trip ok:', hp.load(b) == s)
bad = False
try:
    t = io.StringIO(); hp.save(t, s); t.seek(0); print('StringIO round trip ok:', hp.load(t) == s)
except Exception as e:
    print('StringIO FAILS ->', type(e).__name__, e); bad = True
print('VIOLATION' if bad else 'ok')
sys.exit(1 if bad else 0)
