"""ExactModel: calc_func is not written; reloaded model silently uses calc_holo."""
import sys, os; sys.path.insert(0, os.getcwd()); sys.path.insert(0, os.path.dirname(os.path.abspath(__file__)))
from _common import *
from holopy.inference import ExactModel, prior
from holopy.scattering import Sphere, calc_intensity

m = ExactModel(Sphere(n=prior.Uniform(1, 2), r=0.5, center=[1, 2, 3]), calc_func=calc_intensity, noise_sd=0.1)
text = dump(m)
n = load(text)
print('calc_func' in text, m.calc_func.__name__, '->', n.calc_func.__name__, '| __eq__:', m == n)
bad = n.calc_func is not m.calc_func
print('VIOLATION' if bad else 'ok')
sys.exit(1 if bad else 0)
