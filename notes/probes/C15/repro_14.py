"""FitResult produced by LeastSquaresScipyStrategy: hp.save works, hp.load raises.
 npixels=None : data was flattened with flat() -> '_flat' attribute but no 'original_dims' -> AttributeError in FitResult._unserialize
 npixels=50   : scipy OptimizeResult under 'minimizer_info' is dumped as !!python/object/new and read back with yaml.safe_load -> ConstructorError
(the same model/data fitted with NmpfitStrategy saves and loads fine)."""
import sys, os; sys.path.insert(0, os.getcwd()); sys.path.insert(0, os.path.dirname(os.path.abspath(__file__)))
from _common import *
import tempfile
from holopy.inference import AlphaModel, LeastSquaresScipyStrategy, NmpfitStrategy, prior
from holopy.scattering import Sphere, calc_holo
U = prior.Uniform
det = hp.detector_grid(12, 0.1)
data = calc_holo(det, Sphere(n=1.59, r=0.5, center=[0.6, 0.6, 5]), 1.33, 0.66, (1, 0))
model = AlphaModel(Sphere(n=U(1.4, 1.7), r=0.5, center=[0.6, 0.6, U(3, 7)]), alpha=0.9, noise_sd=0.1,
                   medium_index=1.33, illum_wavelen=0.66, illum_polarization=(1, 0))
bad = False
for strat in [NmpfitStrategy(maxiter=2), LeastSquaresScipyStrategy(max_nfev=5), LeastSquaresScipyStrategy(max_nfev=5, npixels=50)]:
    res = hp.fit(data, model, strategy=strat)
    p = os.path.join(tempfile.mkdtemp(), 'result.h5')
    hp.save(p, res)
    try:
        r2 = hp.load(p); print(strat, '-> loaded', type(r2).__name__, 'model eq', r2.model == res.model)
    except Exception as e:
        print(strat, '-> LOAD FAILS', type(e).__name__, str(e).splitlines()[0][:120]); bad = True
print('VIOLATION' if bad else 'ok')
sys.exit(1 if bad else 0)
