"""Consequence of finding 1: a TemperedSamplingResult whose strategy used a non-default `stages`
cannot be reloaded (stages<3) or silently drops stage results (stages>3), because
TemperedSamplingResult._load counts the stages of the *reloaded* (default) strategy."""
import sys, os; sys.path.insert(0, os.getcwd()); sys.path.insert(0, os.path.dirname(os.path.abspath(__file__)))
from _common import *
import tempfile
import xarray as xr
from holopy.inference import (AlphaModel, EmceeStrategy, TemperedStrategy, SamplingResult,
                              TemperedSamplingResult, prior)
from holopy.scattering import Sphere, calc_holo
U = prior.Uniform
det = hp.detector_grid(5, 0.1)
model = AlphaModel(Sphere(n=U(1.4, 1.7), r=U(0.3, 0.7), center=[0.25, 0.25, U(1, 3)]), alpha=U(0.5, 1), noise_sd=0.1,
                   medium_index=1.33, illum_wavelen=0.66, illum_polarization=(1, 0))
data = calc_holo(det, Sphere(n=1.59, r=0.5, center=[0.25, 0.25, 2]), 1.33, 0.66, (1, 0))
names = model._parameter_names
def fake_sampling(strategy, nw=4, nc=3):   # emcee is not installed here: build the result by hand
    samples = xr.DataArray(np.random.rand(nw, nc, len(names)) * 0.1 + np.array([p.guess for p in model._parameters]),
                           dims=['walker', 'chain', 'parameter'], coords={'parameter': names})
    lnprobs = xr.DataArray(-np.random.rand(nw, nc), dims=['walker', 'chain'])
    return SamplingResult(data, model, strategy, 1.5, {'samples': samples, 'lnprobs': lnprobs})
bad = False
for kw in [dict(), dict(stages=1, stage_len=2, nsamples=3, npixels=20), dict(stages=4, stage_len=2, nsamples=3, npixels=20)]:
    ts = TemperedStrategy(nwalkers=4, **kw)
    tr = TemperedSamplingResult(fake_sampling(ts.stage_strategies[-1]), [fake_sampling(s) for s in ts.stage_strategies[:-1]], ts, 3.5)
    p = os.path.join(tempfile.mkdtemp(), 'tempered.h5')
    hp.save(p, tr)
    try:
        tr2 = hp.load(p)
        same = len(tr2.stage_results) == len(tr.stage_results)
        print(kw, 'stage results saved', len(tr.stage_results), 'loaded', len(tr2.stage_results),
              '| stage npixels', [s.npixels for s in tr.strategy.stage_strategies], '->', [s.npixels for s in tr2.strategy.stage_strategies])
        bad |= not same
    except Exception as e:
        print(kw, 'LOAD FAILS', type(e).__name__, str(e)[:100]); bad = True
print('VIOLATION' if bad else 'ok')
sys.exit(1 if bad else 0)
