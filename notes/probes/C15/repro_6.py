"""NumPy scalars other than float64/int64/int32/complex128 (and 1-d arrays of such dtypes) are written
in a form that holopy's own loader refuses."""
import sys, os; sys.path.insert(0, os.getcwd()); sys.path.insert(0, os.path.dirname(os.path.abspath(__file__)))
from _common import *
from holopy.scattering import Sphere, Mie
from holopy.inference import NmpfitStrategy, prior

cases = {
    'Sphere(r=np.float32)': lambda: Sphere(n=1.59, r=np.float32(0.5), center=[1, 2, 3]),
    'Sphere(center=float32 1-d array)': lambda: Sphere(n=1.59, r=0.5, center=np.array([1, 2, 3], dtype=np.float32)),
    'Sphere(center=int16 1-d array)': lambda: Sphere(n=1.59, r=0.5, center=np.array([1, 2, 3], dtype=np.int16)),
    'Sphere(n=np.complex64)': lambda: Sphere(n=np.complex64(1.59 + 0.1j), r=0.5, center=[1, 2, 3]),
    'Mie(np.bool_)': lambda: Mie(compute_escat_radial=np.bool_(False)),
    'NmpfitStrategy(seed=np.uint32)': lambda: NmpfitStrategy(seed=np.uint32(3)),
    'Uniform(np.float32 bound)': lambda: prior.Uniform(0, np.float32(1)),
    'control: Sphere(center=float32 2-d not applicable, float64 1-d)': lambda: Sphere(n=1.59, r=np.float64(0.5), center=np.array([1., 2, 3])),
}
bad = False
for label, f in cases.items():
    o = f()
    text = dump(o)
    try:
        n = load(text)
        print('ok      ', label)
    except Exception as e:
        print('LOAD FAILS', label, '->', type(e).__name__, str(e).splitlines()[0][:110])
        bad = True
print('VIOLATION' if bad else 'ok')
sys.exit(1 if bad else 0)
