"""Model.add_tie between a scatterer parameter and an optics/alpha/theory parameter is lost on reload."""
import sys, os; sys.path.insert(0, os.getcwd()); sys.path.insert(0, os.path.dirname(os.path.abspath(__file__)))
from _common import *
from holopy.inference import AlphaModel, prior
from holopy.scattering import Sphere
U = prior.Uniform

m = AlphaModel(Sphere(n=U(1, 2), r=U(0.1, 1), center=[1, 2, 3]), alpha=U(0.5, 1), medium_index=U(1, 2))
m.add_tie(['n', 'medium_index'], new_name='index')
text = dump(m)
with warnings.catch_warnings(record=True) as w:
    warnings.simplefilter('always')
    n = load(text)
print('warnings on load:', [str(x.message) for x in w if issubclass(x.category, UserWarning)])
print('original names:', m._parameter_names, ' reloaded names:', n._parameter_names)
print('original optics map:', m._maps['optics'])
print('reloaded optics map:', n._maps['optics'])
vals = {'index': 1.3, 'r': 0.5, 'alpha': 0.8}
print('original medium_index at index=1.3:', m._find_optics([1.3, 0.5, 0.8], type('S', (), {'illum_wavelen': 1, 'illum_polarization': 1}))['medium_index'])
print('library __eq__:', m == n, '| resaved text identical:', dump(n) == text)
bad = m._parameter_names != n._parameter_names or len(m._parameters) != len(n._parameters)
print('VIOLATION' if bad else 'ok')
sys.exit(1 if bad else 0)
