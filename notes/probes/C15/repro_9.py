"""'!method' (bound method) representer/constructor: text hack breaks for receivers whose text contains
'of' or that contain nested HoloPy objects."""
import sys, os; sys.path.insert(0, os.getcwd()); sys.path.insert(0, os.path.dirname(os.path.abspath(__file__)))
from _common import *
from holopy.inference import prior
from holopy.scattering import Mie
from holopy.scattering.theory.lens import Lens
U = prior.Uniform
cases = {
    'control: method of Uniform(name=None)': lambda: prior.TransformedPrior(U(0, 1).unscale, [U(0, 1)]),
    "method of Uniform(name='index_of_refraction')": lambda: prior.TransformedPrior(U(0, 1, name='index_of_refraction').unscale, [U(0, 1)]),
    'method of Lens(theory=Mie()) (nested object)': lambda: prior.TransformedPrior(Lens(0.5, Mie()).can_handle, [U(0, 1)]),
}
bad = False
for label, f in cases.items():
    text = dump(f())
    try:
        load(text); print('ok      ', label)
    except Exception as e:
        print('LOAD FAILS', label, '->', type(e).__name__, str(e).splitlines()[0]); bad = True
print('VIOLATION' if bad else 'ok')
sys.exit(1 if bad else 0)
