"""np.complex128 is written with holopy's '!complex' tag, but reloads as a Python complex which is written
with PyYAML's '!!python/complex' tag: saving the reloaded object does not reproduce the text."""
import sys, os; sys.path.insert(0, os.getcwd()); sys.path.insert(0, os.path.dirname(os.path.abspath(__file__)))
from _common import *
from holopy.scattering import Sphere

s = Sphere(n=np.complex128(1.59 + 0.1j), r=0.5, center=[1, 2, 3])
t1 = dump(s); n = load(t1); t2 = dump(n)
print(t1); print(t2)
print('values equal:', n.n == s.n, ' text identical:', t1 == t2)
# same thing for a layered sphere given as an array
s = Sphere(n=np.array([1.5, 1.6 + 0.1j]), r=[0.5, 0.6], center=[1, 2, 3])
t3 = dump(s); t4 = dump(load(t3))
print('array case text identical:', t3 == t4)
bad = t1 != t2 or t3 != t4
print('VIOLATION' if bad else 'ok')
sys.exit(1 if bad else 0)
