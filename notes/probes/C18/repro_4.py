# center_find / make_center_priors with non-square pixels
import sys, os; sys.path.insert(0, os.getcwd())
import numpy as np, warnings
warnings.filterwarnings('ignore')
import holopy
from holopy.scattering import calc_holo, Sphere
from holopy.core.process import center_find
from holopy.core.prior import make_center_priors
from holopy.core.metadata import detector_grid
print(holopy.__file__)
s = Sphere(n=1.59, r=0.5, center=(3.3, 7.7, 10))
bad = False
for shape, spacing in [((100, 100), (0.1, 0.12)), ((100, 60), (0.1, 0.2))]:
    det = detector_grid(shape, spacing)
    h = calc_holo(det, s, medium_index=1.33, illum_wavelen=0.66, illum_polarization=(1, 0))
    true = np.array([3.3 / spacing[0], 7.7 / spacing[1]])
    c = center_find(h)
    p = make_center_priors(h)
    print('spacing', spacing, 'true px', np.round(true, 2), 'found', np.round(c, 2), 'err px', np.round(c - true, 2))
    print('   make_center_priors mu =', [float(q.mu) for q in p[:2]], 'sd =', [float(q.sd) for q in p[:2]], ' true (3.3, 7.7)')
    if np.abs(c - true).max() > 1:
        bad = True
sys.exit(1 if bad else 0)
