# center_find misses the centre of a computed single-sphere hologram by more than one pixel
# (centre inside the central 60 % of a 60-160 px detector)
import sys, os; sys.path.insert(0, os.getcwd())
import numpy as np, warnings
warnings.filterwarnings('ignore')
import holopy
from holopy.scattering import calc_holo, Sphere
from holopy.core.process import center_find
from holopy.core.metadata import detector_grid
print(holopy.__file__)
cases = [  # shape, spacing, r, n, z, wavelength, centre in pixels
    ((145, 95), 0.05, 1.67, 2.0, 28.2, 0.785, (100.26, 72.56)),
    ((142, 143), 0.05, 1.12, 2.0, 59.6, 0.660, (78.29, 75.01)),
    ((98, 154), 0.05, 0.59, 2.0, 46.6, 0.660, (58.12, 43.69)),
    ((97, 97), 0.05, 1.00, 2.0, 34.1, 0.405, (20.17, 33.77)),
]
bad = False
for shape, sp, r, n, z, wl, cpx in cases:
    det = detector_grid(shape, sp)
    h = calc_holo(det, Sphere(n=n, r=r, center=(cpx[0]*sp, cpx[1]*sp, z)), medium_index=1.33,
                  illum_wavelen=wl, illum_polarization=(1, 0))
    c = center_find(h)
    frac = np.array(cpx) / (np.array(shape) - 1)
    print(shape, 'sp', sp, 'r', r, 'n', n, 'z', z, 'wl', wl, 'centre frac', np.round(frac, 2),
          'true', cpx, 'found', np.round(c, 2), 'err', np.round(c - cpx, 2))
    if np.abs(c - cpx).max() > 1:
        bad = True
sys.exit(1 if bad else 0)
