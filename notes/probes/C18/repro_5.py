# bg_correct is not (raw-df)/(bg-df) pixelwise where bg-df < 0; zero_filter rewrites negative pixels
# although its docstring says it interpolates "pixels equal to 0".
import sys, os; sys.path.insert(0, os.getcwd())
import numpy as np, warnings
warnings.filterwarnings('ignore')
import holopy
from holopy.core.process import bg_correct, zero_filter
from holopy.core.metadata import detector_grid, copy_metadata
print(holopy.__file__)
rng = np.random.default_rng(0)
def mk(vals):
    d = detector_grid((5, 5), 0.1); d.values[...] = vals; return d
raw = mk(rng.uniform(1, 2, (1, 5, 5))); bg = mk(rng.uniform(1, 2, (1, 5, 5))); df = mk(rng.uniform(0, 0.5, (1, 5, 5)))
df.values[0, 2, 2] = bg.values[0, 2, 2] + 0.25      # dark count exceeds background at one pixel (noise)
r = bg_correct(raw, bg, df)
exp = (raw.values - df.values) / (bg.values - df.values)
print('pixel (2,2): bg_correct =', r.values[0, 2, 2], ' (raw-df)/(bg-df) =', exp[0, 2, 2])
print('max deviation elsewhere:', np.abs(np.delete((r.values - exp).ravel(), 12)).max())
im = mk(rng.uniform(1, 2, (1, 5, 5))); im.values[0, 1, 3] = -0.7
f = zero_filter(im)
print('zero_filter: pixel value -0.7 (not zero) ->', f.values[0, 1, 3])
bad = abs(r.values[0, 2, 2] - exp[0, 2, 2]) > 1e-12
sys.exit(1 if bad else 0)
