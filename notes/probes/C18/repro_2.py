# center_find / make_center_priors on a *calculated* multi-channel hologram (dims illumination,x,y,z)
import sys, os; sys.path.insert(0, os.getcwd())
import numpy as np, xarray as xr, warnings
warnings.filterwarnings('ignore')
import holopy
from holopy.scattering import calc_holo, Sphere
from holopy.core.process import center_find
from holopy.core.prior import make_center_priors
from holopy.core.metadata import detector_grid, illumination
print(holopy.__file__)
det = detector_grid((80, 90), 0.1, extra_dims={illumination: ['red', 'green']})
wl = xr.DataArray([0.66, 0.52], dims=illumination, coords={illumination: ['red', 'green']})
h = calc_holo(det, Sphere(n=1.59, r=0.5, center=(3.3, 5.1, 10)), medium_index=1.33,
              illum_wavelen=wl, illum_polarization=(1, 0))
print('detector dims', det.dims, '-> hologram dims', h.dims)
true = np.array([33., 51.])
c = center_find(h)
c_ok = center_find(h.transpose('z', 'x', 'y', illumination))
print('true centre (px)', true)
print('center_find(calc_holo output)        =', c)
print('center_find(same data, z,x,y,illum)  =', c_ok)
print('make_center_priors:', make_center_priors(h)[:2])
sys.exit(1 if np.abs(c - true).max() > 1 else 0)
