# subimage: documented (int, int) shape is rejected for standard holopy images (dims z,x,y)
import sys, os; sys.path.insert(0, os.getcwd())
import numpy as np, warnings
warnings.filterwarnings('ignore')
import holopy
from holopy.core.process import subimage
from holopy.core.metadata import detector_grid
print(holopy.__file__)
im = detector_grid((8, 10), 0.1)            # dims ('z','x','y'), shape (1, 8, 10)
im.values[...] = np.arange(80.).reshape(1, 8, 10)
bad = False
s = subimage(im, (4, 5), 4)
print('int shape ok ->', s.shape)
try:
    s = subimage(im, (4, 5), (4, 6))        # docstring: "shape : int or (int, int)"
    print('(4, 6) ->', s.shape)
    if s.shape[-2:] != (4, 6):
        bad = True
except AssertionError as e:
    print('subimage(im, (4,5), (4,6)) raised AssertionError (len(shape)==arr.ndim with arr.ndim==3)')
    bad = True
# docstring: "center ... should have the same number of elements as the arr has dimensions"
s = subimage(im, (0, 4, 5), (1, 4, 6))
print('3-element center / shape ->', s.shape, '(expected (1, 4, 6))')
if s.shape != (1, 4, 6):
    bad = True
sys.exit(1 if bad else 0)
