# center_find on an image whose dims are ordered (y, x): result is neither (x,y) nor (y,x) of the centre
import sys, os; sys.path.insert(0, os.getcwd())
import numpy as np, warnings
warnings.filterwarnings('ignore')
import holopy
from holopy.scattering import calc_holo, Sphere
from holopy.core.process import center_find
from holopy.core.metadata import detector_grid
print(holopy.__file__)
det = detector_grid((100, 120), 0.1)
h = calc_holo(det, Sphere(n=1.59, r=0.5, center=(3.3, 7.7, 10)), medium_index=1.33,
              illum_wavelen=0.66, illum_polarization=(1, 0))
c = center_find(h)
ct = center_find(h.transpose('z', 'y', 'x'))
c2t = center_find(h.isel(z=0).transpose('y', 'x'))
print('true centre: x index 33, y index 77')
print('dims (z,x,y):', c)
print('dims (z,y,x):', ct, ' (expected [77,33] as (row, col), or [33,77])')
print('dims (y,x)  :', c2t)
ok = np.abs(ct - [77, 33]).max() <= 1 or np.abs(ct - [33, 77]).max() <= 1
sys.exit(0 if ok else 1)
