"""C07 finding 6: the axes remembered by make_subset_data ('original_dims')
cannot be turned back into a detector by FitResult.forward when the original
image has a single row or column (1xN / Nx1).
Run from the checkout root:  /venv/bin/python /tmp/probe_out/C07/repro_6.py
"""
import sys, os; sys.path.insert(0, os.getcwd())
import warnings; warnings.filterwarnings('ignore')
import numpy as np
np.NaN = np.nan   # sandbox numpy 2.x
from holopy.core.metadata import make_subset_data, update_metadata, data_grid
from holopy.scattering import calc_holo, Sphere
from holopy.inference import ExactModel, prior, NmpfitStrategy
from holopy.inference.result import FitResult

s = Sphere(n=1.59, r=0.5, center=(0.5, 0.5, 6))
violated = False
for shape in [(6, 5), (1, 7), (7, 1)]:
    det = update_metadata(data_grid(np.zeros(shape), (0.2, 0.3)), 1.33, 0.66, (1, 0), noise_sd=0.1)
    holo = calc_holo(det, s)
    model = ExactModel(Sphere(n=1.59, r=prior.Uniform(0.3, 0.7, guess=0.5), center=(0.5, 0.5, 6)), calc_holo)
    sub = make_subset_data(holo, pixels=4, seed=1)
    fr = FitResult(sub, model, NmpfitStrategy(), 1.0,
                   {'intervals': [prior.Uniform(0.3, 0.7, guess=0.5, name='r')]})
    try:
        f = fr.forward([0.5])
        print(shape, 'forward ->', f.shape, 'max diff to full hologram', float(np.abs(f - holo).max()))
    except Exception as e:
        violated = True
        print(shape, 'forward -> EXCEPTION', repr(e))
print('VIOLATION' if violated else 'ok')
sys.exit(1 if violated else 0)
