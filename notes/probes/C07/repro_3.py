"""C07 finding 3: results computed on detector_points lose the position
coordinates of the points (x, y, z or r, theta, phi), although results on grids
and on pixel subsets keep theirs; such a result can then not be used as the
detector of the next calculation (which works for grids and subsets).
Run from the checkout root:  /venv/bin/python /tmp/probe_out/C07/repro_3.py
"""
import sys, os; sys.path.insert(0, os.getcwd())
import warnings; warnings.filterwarnings('ignore')
import numpy as np
from holopy.core.metadata import detector_points, detector_grid, make_subset_data
from holopy.scattering import calc_holo, calc_field, calc_intensity, Sphere

s = Sphere(n=1.59, r=.5, center=(0, 0, 5))
violated = False
dets = {'grid': detector_grid(3, 0.1),
        'subset': make_subset_data(detector_grid(3, 0.1), 4, seed=0),
        'points': detector_points(x=[0., 1, 2], y=[0.5, 0.1, 3])}
for name, det in dets.items():
    print(name, ': detector coords', sorted(det.coords))
    for calc in (calc_holo, calc_field, calc_intensity):
        h = calc(det, s, 1.33, 0.66, (1, 0))
        kept = all(k in h.coords and np.array_equal(np.unique(h[k].values), np.unique(det[k].values))
                   for k in 'xyz')
        print('   %-14s result coords %s  positions kept: %s' % (calc.__name__, sorted(h.coords), kept))
        violated |= not kept
    h = calc_holo(det, s, 1.33, 0.66, (1, 0))
    try:
        h2 = calc_holo(h, s)   # the usual idiom: reuse a hologram as the detector
        print('   reuse of the result as a detector: ok, max diff', float(np.abs(h2.values - h.values).max()))
    except Exception as e:
        violated = True
        print('   reuse of the result as a detector: EXCEPTION', repr(e))
print('VIOLATION' if violated else 'ok')
sys.exit(1 if violated else 0)
