"""C07 finding 1: Lens theory -- the value at a detector point depends on the z
of the *first* point in the detector, not only on the point's own position.
Run from the checkout root:  /venv/bin/python /tmp/probe_out/C07/repro_1.py
"""
import sys, os; sys.path.insert(0, os.getcwd())
import warnings; warnings.filterwarnings('ignore')
import numpy as np
from holopy.core.metadata import detector_points, data_grid
from holopy.scattering import calc_holo, Sphere, Mie
from holopy.scattering.theory import Lens

kw = dict(medium_index=1.33, illum_wavelen=0.66, illum_polarization=(1, 0))
sphere = Sphere(n=1.59, r=0.5, center=(0.3, 0.4, 6))
theory = Lens(0.9, Mie(), quad_npts_theta=40, quad_npts_phi=40)

xs = np.array([0., 0.5, 1.0, 0.2])
ys = np.array([0.1, 0.3, 0.2, 0.9])
zs = np.array([0., 1.0, -0.5, 2.0])

together = calc_holo(detector_points(x=xs, y=ys, z=zs), sphere, theory=theory, **kw).values
alone = np.array([
    calc_holo(detector_points(x=xs[i:i+1], y=ys[i:i+1], z=zs[i:i+1]),
              sphere, theory=theory, **kw).values[0] for i in range(4)])
reordered = calc_holo(detector_points(x=xs[::-1], y=ys[::-1], z=zs[::-1]),
                      sphere, theory=theory, **kw).values[::-1]
print('points evaluated together      :', together)
print('each point evaluated alone     :', alone)
print('same points, list order flipped:', reordered)

# same thing with a regular grid that has several z planes (a focal stack)
vol = data_grid(np.zeros((3, 4, 5)), spacing=(0.1, 0.2), z=[0., 1., 2.])
hv = calc_holo(vol, sphere, theory=theory, **kw)
stack_err = []
for z in [0., 1., 2.]:
    sl = data_grid(np.zeros((4, 5)), spacing=(0.1, 0.2), z=z)
    hs = calc_holo(sl, sphere, theory=theory, **kw)
    stack_err.append(float(np.abs(hs.sel(z=z) - hv.sel(z=z)).max()))
print('z-stack vs slice-by-slice max abs difference per plane:', stack_err)

# control: the wrapped theory itself (Mie) is position-only
mie_t = calc_holo(detector_points(x=xs, y=ys, z=zs), sphere, theory=Mie(), **kw).values
mie_a = np.array([
    calc_holo(detector_points(x=xs[i:i+1], y=ys[i:i+1], z=zs[i:i+1]),
              sphere, theory=Mie(), **kw).values[0] for i in range(4)])
print('control (Mie) max difference:', np.abs(mie_t - mie_a).max())

err = max(np.abs(together - alone).max(), np.abs(reordered - alone).max(), max(stack_err))
violated = err > 1e-6
print('VIOLATION' if violated else 'ok', 'max difference', err)
sys.exit(1 if violated else 0)
