"""C07 finding 5: subimage (the cropping routine) (a) rejects the documented
`shape=(int, int)` on every HoloPy image (they are all 3-D: z, x, y), and
(b) silently returns an EMPTY image when the crop window starts left of / above
the image, instead of raising or clipping.
Run from the checkout root:  /venv/bin/python /tmp/probe_out/C07/repro_5.py
"""
import sys, os; sys.path.insert(0, os.getcwd())
import warnings; warnings.filterwarnings('ignore')
import numpy as np
from holopy.core.metadata import detector_grid
from holopy.core.process import subimage

det = detector_grid((10, 12), 0.1)
violated = False
try:
    r = subimage(det, (5, 5), (4, 6))
    print('subimage(det, (5,5), (4,6)) ->', r.shape)
except AssertionError as e:
    violated = True
    print('subimage(det, (5,5), (4,6)) -> AssertionError (documented "shape : int or (int, int)")')
r = subimage(det, (1, 5), 4)     # window rows -1..3: partly outside the image
print('subimage(det, (1,5), 4) -> shape', r.shape, 'x', r.x.values)
if r.size == 0:
    violated = True
    print('   silently empty crop')
r = subimage(det, (9, 5), 4)     # window rows 7..11: partly outside on the other side
print('subimage(det, (9,5), 4) -> shape', r.shape, 'x', r.x.values, '(silently truncated)')
print('VIOLATION' if violated else 'ok')
sys.exit(1 if violated else 0)
