"""C07 finding 4: make_subset_data on a grid with more than one z plane only
ever draws from the first 1/nz of the voxels and cannot select all of them.
Run from the checkout root:  /venv/bin/python /tmp/probe_out/C07/repro_4.py
"""
import sys, os; sys.path.insert(0, os.getcwd())
import warnings; warnings.filterwarnings('ignore')
import numpy as np
from holopy.core.metadata import make_subset_data, data_grid

vol = data_grid(np.arange(60.).reshape(3, 4, 5), spacing=(0.1, 0.2), z=[0., 1., 2.])
seen = set()
for seed in range(300):
    sub = make_subset_data(vol, pixels=5, seed=seed)
    seen |= set(zip(sub.x.values.tolist(), sub.y.values.tolist(), sub.z.values.tolist()))
print('%d of %d voxels were ever selected in 300 draws of 5' % (len(seen), vol.size))
print('x values that can be selected:', sorted(set(p[0] for p in seen)), 'of', vol.x.values.tolist())
violated = len(seen) < vol.size
try:
    make_subset_data(vol, pixels=vol.size, seed=0)
    print('selecting all voxels: ok')
except Exception as e:
    violated = True
    print('selecting all %d voxels: EXCEPTION %r' % (vol.size, e))
print('VIOLATION' if violated else 'ok')
sys.exit(1 if violated else 0)
