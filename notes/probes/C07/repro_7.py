"""C07 finding 7: Tmatrix + detector_points given with an azimuth outside
[0, 2*pi] (e.g. phi=-0.5, the same location as phi=2*pi-0.5): the Fortran code
executes STOP, which terminates the whole Python interpreter silently with exit
status 0 (no exception, no message, no result).  The same happens for a negative
Euler angle in the scatterer's `rotation` (side observation, not a C07 clause).
Run from the checkout root:  /venv/bin/python /tmp/probe_out/C07/repro_7.py
"""
import sys, os, subprocess
code = r'''
import sys, os; sys.path.insert(0, os.getcwd())
import warnings; warnings.filterwarnings('ignore')
import numpy as np
from holopy.core.metadata import detector_points
from holopy.scattering import calc_field, Spheroid, Sphere, Tmatrix, Mie
phi, beta, theory = %s, %s, %s()
s = Spheroid(n=1.5, r=(0.3, 0.6), rotation=(0, beta, 0.4), center=(2, 2, 8)) if isinstance(theory, Tmatrix) else Sphere(n=1.5, r=0.4, center=(2, 2, 8))
pts = detector_points(theta=[0.4], phi=[phi], r=[9.0])
f = calc_field(pts, s, 1.33, 0.66, (1, 0), theory=theory)
print('RESULT', np.round(f.values.ravel(), 6))
'''
violated = False
for phi, beta, theory in [('2*np.pi-0.5', '0.7', 'Mie'), ('-0.5', '0.7', 'Mie'),
                          ('2*np.pi-0.5', '0.7', 'Tmatrix'), ('-0.5', '0.7', 'Tmatrix'),
                          ('2*np.pi+0.5', '0.7', 'Tmatrix'), ('0.5', '-0.7', 'Tmatrix')]:
    p = subprocess.run([sys.executable, '-c', code % (phi, beta, theory)], capture_output=True, text=True)
    got = 'RESULT' in p.stdout
    print('%-8s detector phi=%-12s rotation beta=%-5s -> returncode=%d stdout=%r stderr_tail=%r' % (
        theory, phi, beta, p.returncode, p.stdout.strip()[:90], p.stderr.strip()[-60:]))
    if not got and p.returncode == 0:
        violated = True
print('VIOLATION (interpreter terminated silently, no result, exit status 0)' if violated else 'ok')
sys.exit(1 if violated else 0)
