"""C07 finding 2: detector_grid / data_grid cannot build a multi-channel
detector with a single row (1xN, 1x1): the z axis is not added.
Run from the checkout root:  /venv/bin/python /tmp/probe_out/C07/repro_2.py
"""
import sys, os; sys.path.insert(0, os.getcwd())
import warnings; warnings.filterwarnings('ignore')
import numpy as np
from holopy.core.metadata import detector_grid, data_grid

ill = {'illumination': ['red', 'green']}
violated = False
for shape in [(4, 5), (5, 1), (2, 5), (1, 5), (1, 1), 1]:
    try:
        d = detector_grid(shape, 0.1, extra_dims=ill)
        print('detector_grid', shape, '-> dims', d.dims, 'shape', d.shape)
    except Exception as e:
        violated = True
        print('detector_grid', shape, '-> EXCEPTION', repr(e))
# single channel 1xN is fine, so it is the combination that breaks
print('single-channel 1x5:', detector_grid((1, 5), 0.1).shape)
try:
    data_grid(np.zeros((1, 5, 2)), 0.1, extra_dims=ill)
except Exception as e:
    violated = True
    print('data_grid (1,5,2) -> EXCEPTION', repr(e))
print('VIOLATION' if violated else 'ok')
sys.exit(1 if violated else 0)
