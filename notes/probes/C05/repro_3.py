"""C05 repro 3 (same root cause as repro 1, seen without the lens):
Tmatrix keeps Mishchenko's amplitude matrix in the fixed lab (x, y) incident
basis, transposed, and converts it with an ad-hoc 'postfactor'.

 (a) calc_scat_matrix(theory=Tmatrix) of a SPHERE depends on the azimuth of
     the detector point (it must be invariant under rotation about the axis;
     Mie and Multisphere return the same matrix for every phi).
 (b) Tmatrix.raw_fields puts S2 where S1 belongs, so the field of a sphere is
     wrong by O(10 %) at 45 degrees, and for a tilted spheroid the hologram
     value on the optical axis depends on the azimuth from which the axis is
     approached (jump between (x0, y0 +- eps) and (x0 +- eps, y0)).
 (c) the correct conversion  A = diag(1,-1) . S_M . [[c, s], [s, -c]]
     reproduces far-field Mie to 1e-6.

Run from the checkout root:  /venv/bin/python /tmp/probe_out/C05/repro_3.py
Exit status 1 when the violation is present, 0 otherwise.
"""
import sys, os; sys.path.insert(0, os.getcwd())
import warnings; warnings.filterwarnings('ignore')
import numpy as np
from holopy.core.metadata import detector_points
from holopy.core.math import transform_cartesian_to_spherical as c2s
from holopy.scattering import (Sphere, Spheroid, calc_holo, calc_field, calc_scat_matrix,
                               Mie, Tmatrix)
from holopy.scattering.theory.mie_f import mieangfuncs

sphere = Sphere(n=1.59, r=0.5, center=(0., 0., 4.))
n_med, wl = 1.33, 0.66
k = 2 * np.pi * n_med / wl

# (a) scattering matrix of a sphere at fixed theta, several azimuths
theta = np.full(4, 0.3); phi = np.array([0.0, 1.0, 2.5, 4.0])
det = detector_points(theta=theta, phi=phi)
S_mie = calc_scat_matrix(det, sphere, n_med, wl, theory=Mie(False, False)).values
S_tm = calc_scat_matrix(det, sphere, n_med, wl, theory=Tmatrix()).values
spread_mie = np.max(np.abs(S_mie - S_mie[0])) / np.max(np.abs(S_mie))
spread_tm = np.max(np.abs(S_tm - S_tm[0])) / np.max(np.abs(S_tm))
print('(a) relative variation of the sphere scattering matrix with azimuth:  Mie %.1e   Tmatrix %.1e'
      % (spread_mie, spread_tm))
print('    Tmatrix S at phi=1.0:', np.round(S_tm[1].ravel(), 2))
print('    Mie     S at phi=1.0:', np.round(S_mie[1].ravel(), 2))

# (b) fields of a sphere at 45 degrees
ang = np.linspace(0, 2 * np.pi, 9)[:-1] + 0.3
x = 4.0 * np.cos(ang); y = 4.0 * np.sin(ang)
dxy = detector_points(x=x, y=y, z=0)
f_mie = calc_field(dxy, sphere, n_med, wl, (1, 0), theory=Mie(False, False)).values
f_tm = calc_field(dxy, sphere, n_med, wl, (1, 0), theory=Tmatrix()).values
err_tm = np.max(np.abs(f_tm - f_mie)) / np.max(np.abs(f_mie))
print('(b) sphere, theta = 45 deg: max |E_Tmatrix - E_Mie(far field)| / max|E| = %.3f' % err_tm)

# (c) correct conversion of the very same ampld output
pos = c2s([k * x, k * y, np.full_like(x, k * 4.0)])
S = Tmatrix().raw_scat_matrs(sphere, pos, k, n_med)          # = S_M^T for each point
out = []
for i, (kr, th, ph) in enumerate(pos.T):
    P = np.array([[np.cos(ph), np.sin(ph)], [np.sin(ph), -np.cos(ph)]])
    A = np.diag([1, -1]) @ S[i].T @ P
    es = mieangfuncs.calc_scat_field(kr, ph, A, [1, 0])
    out.append(mieangfuncs.fieldstocart(es, th, ph))
f_fix = np.array(out) * np.exp(-1j * k * 4.0)
err_fix = np.max(np.abs(f_fix - f_mie)) / np.max(np.abs(f_mie))
print('(c) same ampld output, converted with diag(1,-1).S_M.[[c,s],[s,-c]]: rel. error = %.1e' % err_fix)

# (b') on-axis discontinuity for a tilted spheroid
sph = Spheroid(n=1.59, r=(0.3, 0.5), rotation=(0, 0.5, 0.3), center=(1., 1., 5.))
eps = 1e-7
d = detector_points(x=np.array([1 + eps, 1 - eps, 1., 1.]), y=np.array([1., 1., 1 + eps, 1 - eps]), z=0)
h = calc_holo(d, sph, n_med, wl, (1, 0), theory=Tmatrix()).values.ravel()
jump = np.ptp(h)
print("(b') tilted spheroid, four points 1e-7 um from the axis:", h, ' spread = %.2e' % jump)

violated = spread_tm > 1e-3 or err_tm > 1e-2 or jump > 1e-5
print('VIOLATION PRESENT' if violated else 'no violation')
sys.exit(1 if violated else 0)
