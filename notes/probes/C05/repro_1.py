"""C05 repro 1: Lens(theory=Tmatrix()) is not covariant under rotation about the
optical axis and does not give a mirror-symmetric hologram for a sphere.

Run from the checkout root:  /venv/bin/python /tmp/probe_out/C05/repro_1.py
Exit status 1 when the violation is present, 0 otherwise.
"""
import sys, os; sys.path.insert(0, os.getcwd())
import warnings; warnings.filterwarnings('ignore')
import numpy as np
import holopy
from holopy.core.metadata import detector_points
from holopy.scattering import Sphere, Spheroid, calc_holo, Mie, Tmatrix
from holopy.scattering.theory.lens import Lens

print('holopy from', holopy.__file__)
NPT = 60  # quadrature is converged for k*rho*sin(lens_angle) << NPT (checked with Mie below)
x = np.array([0.9, -0.4, 1.3, -1.1, 0.2])
y = np.array([0.3, 1.2, -0.8, -0.5, -1.4])
sphere = Sphere(n=1.59, r=0.5, center=(0., 0., 4.))


def holo(xv, yv, scatterer, pol, theory):
    det = detector_points(x=np.asarray(xv, float), y=np.asarray(yv, float), z=0)
    return calc_holo(det, scatterer, 1.33, 0.66, tuple(pol), theory=theory).values.ravel()


def rot(a):
    return np.array([[np.cos(a), -np.sin(a)], [np.sin(a), np.cos(a)]])


worst = {}
for name, inner in [('Lens(Mie)', Mie(False, False)), ('Lens(Tmatrix)', Tmatrix())]:
    th = Lens(0.8, inner, quad_npts_theta=NPT, quad_npts_phi=NPT)
    pol = np.array([1.0, 0.0])
    h0 = holo(x, y, sphere, pol, th)
    # (a) rotate detector points and polarization by the same angle about the
    #     optical axis (the sphere sits on the axis, so it is unchanged)
    a = 0.5
    R = rot(a)
    xy = R @ np.vstack([x, y])
    h_rot = holo(xy[0], xy[1], sphere, R @ pol, th)
    # (b) mirror x -> -x : a sphere under x-polarised light must give a
    #     hologram symmetric about the y axis through its centre
    h_mir = holo(-x, y, sphere, pol, th)
    e_rot = np.max(np.abs(h_rot - h0)); e_mir = np.max(np.abs(h_mir - h0))
    worst[name] = max(e_rot, e_mir)
    print(f'{name:14s} sphere: |holo(rotated by {a}) - holo| = {e_rot:.3e}   '
          f'|holo(-x,y) - holo(x,y)| = {e_mir:.3e}   (hologram contrast {np.ptp(h0):.2f})')
    worst[name + ' h0'] = h0

print('max |Lens(Tmatrix) - Lens(Mie far field)| for the same sphere: %.3e'
      % np.max(np.abs(worst['Lens(Tmatrix) h0'] - worst['Lens(Mie) h0'])))

# (c) non-spherical scatterer: rotate spheroid axis azimuth, polarization and points
th = Lens(0.8, Tmatrix(), quad_npts_theta=NPT, quad_npts_phi=NPT)
pol = np.array([np.cos(0.7), np.sin(0.7)])
a = np.pi / 2
R = rot(a)
c = np.array([0.2, -0.1])
s0 = Spheroid(n=1.59, r=(0.3, 0.6), rotation=(0, 0.7, 0.5), center=(c[0], c[1], 4.))
c2 = R @ c
s1 = Spheroid(n=1.59, r=(0.3, 0.6), rotation=(0, 0.7, 0.5 + a), center=(c2[0], c2[1], 4.))
h0 = holo(x, y, s0, pol, th)
xy = R @ np.vstack([x, y])
h1 = holo(xy[0], xy[1], s1, R @ pol, th)
e_sph = np.max(np.abs(h1 - h0))
print(f'Lens(Tmatrix) spheroid, everything rotated by 90 deg: max diff = {e_sph:.3e} (contrast {np.ptp(h0):.2f})')

violated = worst['Lens(Tmatrix)'] > 1e-3 or e_sph > 1e-3
control_ok = worst['Lens(Mie)'] < 1e-9
print('control (Lens(Mie)) covariant:', control_ok)
print('VIOLATION PRESENT' if violated else 'no violation')
sys.exit(1 if violated else 0)
