"""C05 repro 2: with the Tmatrix theory, rotating the scatterer (or spherical
detector points) about the optical axis by an angle that takes the azimuth
outside [0, 2*pi] -- e.g. any NEGATIVE angle -- or mirroring a tilted spheroid
by beta -> -beta, does not give the covariant hologram: the Fortran routine
AMPL executes a bare STOP and the whole Python interpreter terminates silently
(exit status 0, no exception, no message).

Run from the checkout root:  /venv/bin/python /tmp/probe_out/C05/repro_2.py
Exit status 1 when the violation is present, 0 otherwise.
"""
import sys, os, subprocess, textwrap

CHILD = textwrap.dedent('''
    import sys, os; sys.path.insert(0, os.getcwd())
    import warnings; warnings.filterwarnings('ignore')
    import numpy as np
    from holopy.core.metadata import detector_points
    from holopy.scattering import Spheroid, Sphere, calc_holo, Tmatrix
    mode = sys.argv[1]
    x = np.array([1.0, -0.5]); y = np.array([0.5, 1.5])
    det = detector_points(x=x, y=y, z=0)
    rotation = (0, 0.6, 0.9)
    sc = Spheroid(n=1.59, r=(0.3, 0.6), rotation=rotation, center=(0., 0., 8.))
    if mode == 'reference':
        pass
    elif mode == 'rotate_minus_1.5':      # axis azimuth 0.9 - 1.5 = -0.6 rad
        a = -1.5
        R = np.array([[np.cos(a), -np.sin(a)], [np.sin(a), np.cos(a)]])
        # (a rotation by -1.5 rad would also need pol rotated; Tmatrix only takes
        # (1,0), so just evaluate the rotated scatterer -- any finite answer will do)
        sc = Spheroid(n=1.59, r=(0.3, 0.6), rotation=(0, 0.6, 0.9 + a), center=(0., 0., 8.))
    elif mode == 'rotate_pi_equivalent':   # same orientation written as 0.9 - 2*pi
        sc = Spheroid(n=1.59, r=(0.3, 0.6), rotation=(0, 0.6, 0.9 - 2 * np.pi), center=(0., 0., 8.))
    elif mode == 'mirror_beta':            # mirror image written as beta -> -beta
        sc = Spheroid(n=1.59, r=(0.3, 0.6), rotation=(0, -0.6, 0.9), center=(0., 0., 8.))
    elif mode == 'spherical_points_negative_phi':
        sc = Sphere(n=1.59, r=0.5, center=(0., 0., 8.))
        det = detector_points(r=np.array([10., 10.]), theta=np.array([0.2, 0.3]),
                              phi=np.array([-0.5, 1.0]))
    h = calc_holo(det, sc, 1.33, 0.66, (1, 0), theory=Tmatrix()).values.ravel()
    print('RESULT', mode, h, flush=True)
''')

violated = False
for mode in ['reference', 'rotate_pi_equivalent', 'rotate_minus_1.5', 'mirror_beta',
             'spherical_points_negative_phi']:
    p = subprocess.run([sys.executable, '-c', CHILD, mode], capture_output=True, text=True,
                       cwd=os.getcwd())
    ok = 'RESULT' in p.stdout
    print(f'{mode:32s} returncode={p.returncode} produced a hologram: {ok}  '
          f'stdout={p.stdout.strip()[:90]!r} stderr={p.stderr.strip()[-120:]!r}')
    if mode != 'reference' and not ok and 'Traceback' not in p.stderr:
        violated = True   # interpreter died silently instead of returning / raising
print('VIOLATION PRESENT (interpreter killed by Fortran STOP)' if violated else 'no violation')
sys.exit(1 if violated else 0)
