"""C03 finding 4: layered spheres return NaN cross sections when Im(m_layer)*x_layer > ~709.8
(overflow of sin(z) * underflow of exp(iz) in mie_specfuncs.log_der_13), although the
homogeneous code path handles the same (m, x) and x is far below the documented limit 1000.
Run from the checkout root:  /venv/bin/python /tmp/probe_out/C03/repro_4.py
"""
import sys, os; sys.path.insert(0, os.getcwd())
import warnings; warnings.filterwarnings('ignore')
import numpy as np
from holopy.scattering import calc_cross_sections, Sphere
nmed, wl = 1.0, 2 * np.pi      # k = 1, so radius = size parameter
m = 0.5 + 3j                   # metal-like
bad = False
for x in (236., 237., 400.):
    h = calc_cross_sections(Sphere(n=m, r=x, center=(0, 0, 0)), nmed, wl, (1, 0)).values
    l = calc_cross_sections(Sphere(n=[1.5, m], r=[0.9 * x, x], center=(0, 0, 0)), nmed, wl, (1, 0)).values
    print('x=%g Im(m)x=%g  homogeneous Q=%s  coated Q=%s' % (x, 3 * x, h[:3] / (np.pi * x * x), l[:3] / (np.pi * x * x)))
    if not np.all(np.isfinite(l)): bad = True
if bad: print('VIOLATION: NaN cross sections for a legitimate absorbing layered sphere')
sys.exit(1 if bad else 0)
