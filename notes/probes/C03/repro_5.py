"""C03 finding 5: a one-sphere "cluster" solved by Multisphere silently disagrees with Mie for
size parameters above ~29: the single-sphere expansion order is clipped at nod=32 (scfodim.for),
the Fortran warning is suppressed by default and no exception is raised (only x > 1000 is rejected).
Run from the checkout root:  /venv/bin/python /tmp/probe_out/C03/repro_5.py
"""
import sys, os; sys.path.insert(0, os.getcwd())
import warnings; warnings.filterwarnings('ignore')
import numpy as np
from holopy.scattering import calc_cross_sections, Sphere, Mie, Multisphere
nmed, wl = 1.33, 0.66
k = 2 * np.pi * nmed / wl
bad = False
for x in (25, 28, 30, 35, 50):
    s = Sphere(n=1.59, r=x / k, center=(0, 0, 0))
    a = calc_cross_sections(s, nmed, wl, (1, 0), theory=Mie()).values
    b = calc_cross_sections(s, nmed, wl, (1, 0), theory=Multisphere()).values
    print('x=%g (r=%.2f um): Mie cext %.5g g %.5f | Multisphere cext %.5g g %.5f | rel.diff cext %+.2e' % (x, x / k, a[2], a[3], b[2], b[3], b[2] / a[2] - 1))
    if abs(b[2] / a[2] - 1) > 1e-3: bad = True
if bad: print('VIOLATION: one-sphere cluster (Multisphere) does not report the single-sphere (Mie) numbers')
sys.exit(1 if bad else 0)
