"""C03 finding 3: layered (core-shell) spheres with REAL indices and small size parameter
(x < ~0.03) get a wrong extinction cross section: C_ext != C_scat, C_abs is of the order of
C_ext (or larger), and C_ext can even be negative.  The homogeneous-sphere code path is
accurate for the same sizes.  Cause: loss of precision (cancellation) in the Yang recursion.
Run from the checkout root:  /venv/bin/python /tmp/probe_out/C03/repro_3.py
"""
import sys, os; sys.path.insert(0, os.getcwd())
import warnings; warnings.filterwarnings('ignore')
import numpy as np
from holopy.scattering import calc_cross_sections, Sphere
nmed, wl = 1.33, 0.66
k = 2 * np.pi * nmed / wl
bad = False
print('   x       homogeneous Cabs/Cext   core-shell Cabs/Cext   core-shell Cext/Csca')
for x in [1e-3, 2e-3, 5e-3, 1e-2, 2e-2, 5e-2]:
    r = x / k
    h = calc_cross_sections(Sphere(n=1.59, r=r, center=(0, 0, 0)), nmed, wl, (1, 0)).values
    l = calc_cross_sections(Sphere(n=[1.45, 1.59], r=[0.5 * r, r], center=(0, 0, 0)), nmed, wl, (1, 0)).values
    print('%8.3g   %+.3e              %+.3e             %+.6f' % (x, h[1] / h[2], l[1] / l[2], l[2] / l[0]))
    if abs(l[1]) > 1e-4 * abs(l[2]) or l[2] <= 0:
        bad = True
    if l[2] <= 0: print('          ^ VIOLATION: negative extinction cross section (%.3e)' % l[2])
if bad: print('VIOLATION: C_abs != 0 for real refractive indices / C_ext != C_sca (Rayleigh limit not recovered)')
sys.exit(1 if bad else 0)
