"""C03 finding 6 (minor): calc_cross_sections with theory=Multisphere crashes (TypeError) for any
complex (circular / elliptical) illumination polarisation, even for a single sphere, while the Mie
theory accepts the same call.  Run from the checkout root.
"""
import sys, os; sys.path.insert(0, os.getcwd())
import warnings; warnings.filterwarnings('ignore')
import numpy as np
from holopy.scattering import calc_cross_sections, Sphere, Mie, Multisphere
s = Sphere(n=1.59, r=0.5, center=(0, 0, 0))
print('Mie        ', calc_cross_sections(s, 1.33, 0.66, (1, 1j), theory=Mie()).values)
try:
    print('Multisphere', calc_cross_sections(s, 1.33, 0.66, (1, 1j), theory=Multisphere()).values)
except Exception as e:
    print('Multisphere raised', repr(e)[:160]); sys.exit(1)
sys.exit(0)
