"""C03 finding 2 (same root cause as finding 1): for clusters the amplitude scattering
matrix returned by calc_scat_matrix(theory=Multisphere) is NOT in the documented
Bohren-Huffman (parallel, perpendicular) basis: its off-diagonal elements S3, S4 have the
opposite sign (it is expressed in the (theta-hat, phi-hat) basis).  Multisphere._calc_asym /
_calc_cscat_quad / _calc_cext nevertheless feed it BH incident components (mieangfuncs.incfield).
Consequences shown here, all with public API:
 (a) the solid-angle integral of |S.E_inc|^2 with the documented BH convention does not
     reproduce the library's own C_scat, whereas flipping the sign of E_perp does (to 1e-7);
 (b) the reported asymmetry parameter differs from the solid-angle integral (by up to 0.06);
 (c) the forward matrix at theta=0 does not transform like a BH matrix when phi changes.
Run from the checkout root:  /venv/bin/python /tmp/probe_out/C03/repro_2.py
"""
import sys, os; sys.path.insert(0, os.getcwd())
import warnings; warnings.filterwarnings('ignore')
import numpy as np
from numpy.polynomial.legendre import leggauss
from holopy.scattering import calc_cross_sections, calc_scat_matrix, Sphere, Spheres, Multisphere
from holopy.core.metadata import detector_points

nmed, wl = 1.33, 0.66
k = 2 * np.pi * nmed / wl
th = Multisphere(qeps1=1e-8, qeps2=1e-12, eps=1e-10)
r, n = 0.40, 2.55
ax = np.array([0.44, -0.22, 0.87]); ax /= np.linalg.norm(ax)
d = 2 * r * 1.1
sc = Spheres([Sphere(n=n, r=r, center=tuple(-ax * d / 2)), Sphere(n=n, r=r, center=tuple(ax * d / 2))])
pol = (1, 0)            # plain x polarisation

lib = calc_cross_sections(sc, nmed, wl, pol, theory=th).values
N, M = 48, 64
mu, w = leggauss(N); theta = np.arccos(mu); phi = np.arange(M) * 2 * np.pi / M
TH, PH = np.meshgrid(theta, phi, indexing='ij')
S = calc_scat_matrix(detector_points(theta=TH.ravel(), phi=PH.ravel()), sc, nmed, wl, theory=th).values
p = np.array(pol, float); p /= np.linalg.norm(p)
epar = p[0] * np.cos(PH.ravel()) + p[1] * np.sin(PH.ravel())
eperp = p[0] * np.sin(PH.ravel()) - p[1] * np.cos(PH.ravel())      # Bohren & Huffman / mieangfuncs.incfield
W = (w[:, None] * 2 * np.pi / M * np.ones((N, M)))
res = {}
for name, sgn in (('documented BH convention', +1), ('E_perp sign flipped   ', -1)):
    A = np.einsum('nij,nj->ni', S, np.stack([epar, sgn * eperp], -1))
    I = (np.abs(A) ** 2).sum(-1).reshape(N, M)
    cs = (I * W).sum() / k ** 2
    g = (I * W * mu[:, None]).sum() / k ** 2 / cs
    res[sgn] = (cs, g)
    print('%s: integral C_scat = %.6f   <cos> = %.5f' % (name, cs, g))
print('library calc_cross_sections        : C_scat = %.6f   <cos> = %.5f   C_abs/C_ext = %+.1e' % (lib[0], lib[3], lib[1] / lib[2]))

# (c) transformation of the forward matrix
S0 = calc_scat_matrix(detector_points(theta=np.array([0.]), phi=np.array([0.])), sc, nmed, wl, theory=th).values[0]
ph = 0.7
Sp = calc_scat_matrix(detector_points(theta=np.array([0.]), phi=np.array([ph])), sc, nmed, wl, theory=th).values[0]
c, s = np.cos(ph), np.sin(ph)
R_bh = np.array([[c, -s], [s, c]])     # (E_par,E_perp)(phi) = R_bh (E_par,E_perp)(0) for BH basis vectors
R_tp = np.array([[c, s], [-s, c]])     # same for (theta-hat, phi-hat)
e_bh = np.abs(R_bh @ S0 @ R_bh.T - Sp).max(); e_tp = np.abs(R_tp @ S0 @ R_tp.T - Sp).max()
print('forward matrix, phi=0 -> 0.7: residual of BH transformation law %.2e, of (theta,phi)-hat law %.2e' % (e_bh, e_tp))

bad = False
if abs(res[+1][0] / lib[0] - 1) > 1e-5 and abs(res[-1][0] / lib[0] - 1) < 1e-5:
    print('VIOLATION: C_scat is the solid-angle integral only if S3,S4 have the sign opposite to the documented one'); bad = True
if abs(lib[3] - res[-1][1]) > 1e-3:
    print('VIOLATION: reported asymmetry parameter %.5f, solid-angle integral %.5f (difference %+.5f)' % (lib[3], res[-1][1], lib[3] - res[-1][1])); bad = True
if e_bh > 1e-6 and e_tp < 1e-10:
    print('VIOLATION: forward scattering matrix is not in the Bohren-Huffman basis'); bad = True
sys.exit(1 if bad else 0)
