"""C03 finding 1: Multisphere extinction (optical theorem) is wrong for clusters
whenever the polarisation is not along x or y: C_ext != C_scat for NON-absorbing
spheres (C_abs negative / positive by up to ~20 %), and C_ext is not invariant
when cluster and polarisation are rotated together about the beam axis.
Run from the checkout root:  /venv/bin/python /tmp/probe_out/C03/repro_1.py
"""
import sys, os; sys.path.insert(0, os.getcwd())
import warnings; warnings.filterwarnings('ignore')
import numpy as np
import holopy
from holopy.scattering import calc_cross_sections, Sphere, Spheres, Multisphere
print('holopy from', holopy.__file__)

nmed, wl = 1.33, 0.66
r = 0.05                      # size parameter ~0.63 per sphere, real index
d = 2 * r * 1.001
th = Multisphere(qeps1=1e-10, qeps2=1e-14, eps=1e-12, niter=1000)

def dimer(axis):
    ax = np.array(axis, float); ax /= np.linalg.norm(ax)
    return Spheres([Sphere(n=1.59, r=r, center=tuple(-ax * d / 2)),
                    Sphere(n=1.59, r=r, center=tuple(+ax * d / 2))])

ref = calc_cross_sections(dimer((1, 0, 0)), nmed, wl, (1, 0), theory=th).values
rot = calc_cross_sections(dimer((1, 1, 0)), nmed, wl, (1, 1), theory=th).values
print('dimer along x,      pol (1,0): csca %.6e cabs %+.3e cext %.6e g %.5f' % tuple(ref))
print('dimer along (1,1,0), pol (1,1): csca %.6e cabs %+.3e cext %.6e g %.5f' % tuple(rot))
print('  (the two set-ups differ only by a 45 degree rotation about the beam axis)')
bad = False
if abs(rot[1]) > 1e-4 * rot[2]:
    print('VIOLATION: real refractive indices but C_abs/C_ext = %+.4f' % (rot[1] / rot[2])); bad = True
if abs(rot[2] / ref[2] - 1) > 1e-4:
    print('VIOLATION: C_ext changes by %+.2f %% under a joint rotation about z' % (100 * (rot[2] / ref[2] - 1))); bad = True
if abs(rot[0] / ref[0] - 1) > 1e-4:
    print('csca also changes (unexpected)'); bad = True
sys.exit(1 if bad else 0)
