import sys, os; sys.path.insert(0, os.getcwd())
import warnings; warnings.filterwarnings("ignore")
import numpy as np, xarray as xr
# sandbox workaround (NOT the defect): new xarray makes Dataset.update return None
_orig_update = xr.Dataset.update
def _upd(self, other):
    r = _orig_update(self, other)
    return self if r is None else r
xr.Dataset.update = _upd
import holopy
from holopy import propagate
from holopy.core.process import fft, ifft
from holopy.core.metadata import data_grid
print("holopy from", holopy.__file__)
def val(p): return p.transpose("x", "y", ...).values.squeeze()
# Finding 2: ft_coord returns wrong spatial frequencies (linspace including both end points instead of the
# DFT frequencies), so fft() labels are wrong and the transfer function is evaluated at the wrong frequencies.
from holopy.core.process.fourier import ft_coord
lam = 0.66 / 1.33
bad = False
for N in (4, 5, 64):
    x = np.arange(N) * 0.5
    got = ft_coord(x); want = np.fft.fftshift(np.fft.fftfreq(N, 0.5))
    print("N=%d ft_coord[:4]=%s  DFT freqs[:4]=%s" % (N, got[:4], want[:4]))
    if not np.allclose(got, want): bad = True
# (a) a uniform plane wave (only the DC term) must be multiplied by exp(-2 pi i d / lam)
for N, s in ((2, lam), (8, 0.6 * lam), (64, 0.2 * lam)):
    im = data_grid(np.ones((N, N), complex), spacing=s, medium_index=1.33, illum_wavelen=0.66)
    d = 10 * lam
    p = val(propagate(im, d))
    err = np.angle(p[0, 0] / np.exp(-2j * np.pi * d / lam))
    print("uniform image %dx%d spacing %.2f lam, d=10 lam: phase error of the result %.4f rad" % (N, N, s / lam, err))
    if abs(err) > 1e-6: bad = True
# (b) propagation must commute with the (circular) point reflection because the true kernel is even in frequency
rng = np.random.default_rng(0)
fl = lambda a: np.roll(a[::-1, ::-1], 1, axis=(0, 1))
for N in (4, 64, 63):
    u = rng.normal(size=(N, N)) + 1j * rng.normal(size=(N, N))
    im = data_grid(u, spacing=lam, medium_index=1.33, illum_wavelen=0.66)
    imf = data_grid(fl(u), spacing=lam, medium_index=1.33, illum_wavelen=0.66)
    e = abs(fl(val(propagate(im, 20 * lam))) - val(propagate(imf, 20 * lam))).max()
    print("N=%d: max|flip(P u) - P(flip u)| = %.3g" % (N, e))
    if e > 1e-6: bad = True
sys.exit(1 if bad else 0)
