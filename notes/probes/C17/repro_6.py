import sys, os; sys.path.insert(0, os.getcwd())
import warnings; warnings.filterwarnings("ignore")
import numpy as np, xarray as xr
# sandbox workaround (NOT the defect): new xarray makes Dataset.update return None
_orig_update = xr.Dataset.update
def _upd(self, other):
    r = _orig_update(self, other)
    return self if r is None else r
xr.Dataset.update = _upd
import holopy
from holopy import propagate
from holopy.core.process import fft, ifft
from holopy.core.metadata import data_grid
print("holopy from", holopy.__file__)
def val(p): return p.transpose("x", "y", ...).values.squeeze()
# Finding 6: cfsp combined with gradient_filter raises the *difference* of transfer functions to the power cfsp
lam = 0.66 / 1.33
a = np.random.default_rng(0).normal(size=(6, 7))
im = data_grid(a, spacing=0.8 * lam, medium_index=1.33, illum_wavelen=0.66)
E = lambda x: float((abs(x) ** 2).sum())
gf, d = lam / 2, 1.0
ref = val(propagate(im, d, gradient_filter=gf))
print("cfsp alone is a no-op:", np.allclose(val(propagate(im, d, cfsp=3)), val(propagate(im, d))))
bad = False
for c in (1, 2, 3, 5):
    p = val(propagate(im, d, gradient_filter=gf, cfsp=c))
    print("cfsp=%d: max|diff to cfsp=0 result| = %.3g, energy out/in = %.3g" % (c, abs(p - ref).max(), E(p) / E(val(im))))
    if not np.allclose(p, ref): bad = True
sys.exit(1 if bad else 0)
