import sys, os; sys.path.insert(0, os.getcwd())
import warnings; warnings.filterwarnings("ignore")
import numpy as np, xarray as xr
# sandbox workaround (NOT the defect): new xarray makes Dataset.update return None
_orig_update = xr.Dataset.update
def _upd(self, other):
    r = _orig_update(self, other)
    return self if r is None else r
xr.Dataset.update = _upd
import holopy
from holopy import propagate
from holopy.core.process import fft, ifft
from holopy.core.metadata import data_grid
print("holopy from", holopy.__file__)
def val(p): return p.transpose("x", "y", ...).values.squeeze()
# Finding 4: ifft(fft(image)) loses the origin of the x/y coordinates
from holopy.core.process import subimage
a = np.random.default_rng(0).normal(size=(10, 10))
big = data_grid(a, spacing=0.5, medium_index=1.33, illum_wavelen=0.66)
sub = subimage(big, (5, 5), 4)            # legitimate holopy image whose coordinates do not start at 0
r = ifft(fft(sub))
print("input  x:", sub.x.values, " y:", sub.y.values)
print("output x:", r.x.values, " y:", r.y.values)
print("values equal:", np.allclose(r.values, sub.values))
bad = not (np.allclose(r.x.values, sub.x.values) and np.allclose(r.y.values, sub.y.values))
sys.exit(1 if bad else 0)
