import sys, os; sys.path.insert(0, os.getcwd())
import warnings; warnings.filterwarnings("ignore")
import numpy as np, xarray as xr
# sandbox workaround (NOT the defect): new xarray makes Dataset.update return None
_orig_update = xr.Dataset.update
def _upd(self, other):
    r = _orig_update(self, other)
    return self if r is None else r
xr.Dataset.update = _upd
import holopy
from holopy import propagate
from holopy.core.process import fft, ifft
from holopy.core.metadata import data_grid
print("holopy from", holopy.__file__)
def val(p): return p.transpose("x", "y", ...).values.squeeze()
# Finding 5: gradient_filter is silently ignored for d == 0 (scalar, and the zero entry of a list)
lam = 0.66 / 1.33
a = np.random.default_rng(0).normal(size=(6, 7))
im = data_grid(a, spacing=0.8 * lam, medium_index=1.33, illum_wavelen=0.66)
gf = 0.3
want0 = val(im) - val(propagate(im, gf))          # documented: P(d) - P(d + gradient_filter), at d = 0
ok_nonzero = np.allclose(val(propagate(im, 1.0, gradient_filter=gf)), val(propagate(im, 1.0)) - val(propagate(im, 1.0 + gf)))
print("d=1: result == P(d)u - P(d+gf)u :", ok_nonzero)
p0 = propagate(im, 0, gradient_filter=gf)
print("d=0 scalar: returns the unfiltered input:", np.array_equal(val(p0), val(im)), "; equals u - P(gf)u:", np.allclose(val(p0), want0))
pl = propagate(im, [0, 1.0], gradient_filter=gf)
s0 = pl.sel(z=0).transpose("x", "y").values
print("d=[0,1] slice z=0: equals unfiltered input:", np.allclose(s0, val(im)), "; equals u - P(gf)u:", np.allclose(s0, want0))
eps = propagate(im, 1e-12, gradient_filter=gf)
print("d=1e-12: max diff to d=0 result:", abs(val(eps) - val(p0)).max(), "(discontinuity)")
bad = not (np.allclose(val(p0), want0) and np.allclose(s0, want0))
sys.exit(1 if bad else 0)
