import sys, os; sys.path.insert(0, os.getcwd())
import warnings; warnings.filterwarnings("ignore")
import numpy as np, xarray as xr
# sandbox workaround (NOT the defect): new xarray makes Dataset.update return None
_orig_update = xr.Dataset.update
def _upd(self, other):
    r = _orig_update(self, other)
    return self if r is None else r
xr.Dataset.update = _upd
import holopy
from holopy import propagate
from holopy.core.process import fft, ifft
from holopy.core.metadata import data_grid
print("holopy from", holopy.__file__)
def val(p): return p.transpose("x", "y", ...).values.squeeze()
# Finding 1: a list of distances containing 0 does not give the stack of the single-distance results
rng = np.random.default_rng(0)
a = rng.normal(size=(4, 5)) + 1j * rng.normal(size=(4, 5))
im = data_grid(a, spacing=0.5, medium_index=1.33, illum_wavelen=0.66)
bad = False
for ds in ([1.0, 0, 2.0], [1.0, 0], [0, 0, 1.0]):
    p = propagate(im, ds)
    print("d =", ds, "-> z =", p.z.values, "n slices =", p.sizes["z"])
    if p.sizes["z"] != len(ds):
        print("   VIOLATION: number of slices", p.sizes["z"], "!= number of distances", len(ds)); bad = True
    for i, d in enumerate(ds):
        if i >= p.sizes["z"]:
            continue
        single = val(propagate(im, d))
        ok = np.allclose(p.isel(z=i).transpose("x", "y").values, single)
        if not ok:
            print("   VIOLATION: slice", i, "is not propagate(im, %g)" % d); bad = True
# z labels: image located at z=5
im5 = data_grid(a, spacing=0.5, medium_index=1.33, illum_wavelen=0.66, z=5.0)
p = propagate(im5, [2.0, 0, 1.0])
print("image at z=5, d=[2,0,1] -> z labels", p.z.values, "(mixture of absolute position 5 and relative distances 2, 1)")
if not np.array_equal(p.z.values, [2.0, 0, 1.0]):
    bad = True
sys.exit(1 if bad else 0)
