import sys, os; sys.path.insert(0, os.getcwd())
import warnings; warnings.filterwarnings("ignore")
import numpy as np, xarray as xr
# sandbox workaround (NOT the defect): new xarray makes Dataset.update return None
_orig_update = xr.Dataset.update
def _upd(self, other):
    r = _orig_update(self, other)
    return self if r is None else r
xr.Dataset.update = _upd
import holopy
from holopy import propagate
from holopy.core.process import fft, ifft
from holopy.core.metadata import data_grid
print("holopy from", holopy.__file__)
def val(p): return p.transpose("x", "y", ...).values.squeeze()
# Finding 7: fft/ifft docstrings say "data : ndarray or xarray" but 2-D (or higher) ndarrays crash
x = np.random.default_rng(0).normal(size=(5, 6))
bad = False
print("1-D ndarray round trip:", abs(ifft(fft(x[0])) - x[0]).max())
try:
    f = fft(x); print("fft(2-D ndarray) ok")
except Exception as e:
    print("fft(2-D ndarray) raised", type(e).__name__, e); bad = True
try:
    r = ifft(np.fft.fftshift(np.fft.fft2(x))); print("ifft(2-D ndarray) ok", abs(r - x).max())
except Exception as e:
    print("ifft(2-D ndarray) raised", type(e).__name__, e); bad = True
sys.exit(1 if bad else 0)
