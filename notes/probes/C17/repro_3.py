import sys, os; sys.path.insert(0, os.getcwd())
import warnings; warnings.filterwarnings("ignore")
import numpy as np, xarray as xr
# sandbox workaround (NOT the defect): new xarray makes Dataset.update return None
_orig_update = xr.Dataset.update
def _upd(self, other):
    r = _orig_update(self, other)
    return self if r is None else r
xr.Dataset.update = _upd
import holopy
from holopy import propagate
from holopy.core.process import fft, ifft
from holopy.core.metadata import data_grid
print("holopy from", holopy.__file__)
def val(p): return p.transpose("x", "y", ...).values.squeeze()
# Finding 3: the evanescent mask in trans_func is dead code: evanescent frequencies get G = 1 instead of 0
from holopy.propagation.convolution_propagation import trans_func
lam = 0.66 / 1.33
a = np.random.default_rng(0).normal(size=(8, 7))
im = data_grid(a, spacing=0.2 * lam, medium_index=1.33, illum_wavelen=0.66)   # heavily oversampled
Gx = trans_func(im, 3.0, lam).squeeze()
evan = (((lam * Gx.m) ** 2 + (lam * Gx.n) ** 2) > 1).transpose(*Gx.dims).values
G = Gx.values
print("evanescent frequencies: %d of %d" % (evan.sum(), evan.size))
print("|G| at evanescent frequencies: min %.3f max %.3f (documented: 0)" % (abs(G[evan]).min(), abs(G[evan]).max()))
back = propagate(propagate(im, 3.0), -3.0)
print("max |P(-d)P(d) u - u| with evanescent content present:", abs(val(back) - val(im)).max(), "(would be O(1) if the mask worked)")
sys.exit(1 if abs(G[evan]).max() > 0 else 0)
