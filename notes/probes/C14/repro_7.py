"""C14 observations (minor): (a) Uniform.lnprob(nan)/prob(nan) return the
in-support density (nan is not in the support); (b) TransformedPrior.sample
does not accept a tuple size although every base prior does."""
import sys, os; sys.path.insert(0, os.getcwd())
import numpy as np
from holopy.core.prior import Uniform, BoundedGaussian
violations = []
u = Uniform(0, 2)
print("Uniform(0,2).prob(nan) =", u.prob(np.nan), " lnprob(nan) =", u.lnprob(np.nan))
if u.prob(np.nan) != 0 and not np.isnan(u.prob(np.nan)):
    violations.append("Uniform.prob(nan) is the in-support density")
print("u.sample((2,3)).shape =", u.sample((2, 3)).shape)
try:
    print("(u+1).sample((2,3)).shape =", (u + 1).sample((2, 3)).shape)
except Exception as e:
    print("(u+1).sample((2,3)) raised", type(e).__name__, e)
    violations.append("TransformedPrior.sample(tuple) raised")
print("VIOLATIONS:", violations)
sys.exit(1 if violations else 0)
