"""C14 finding 5: ndarray (op) prior.  prior * array returns an object array of
derived priors (tested upstream), but array * prior goes through
__array_ufunc__ and returns ONE TransformedPrior holding the whole array.  Its
sample(size=n) then silently returns wrong values: np.repeat flattens the
array constant and zip() truncates, so every sample is multiplied by
array[0] only, and the shape is (n,) although sample() / guess have shape
(len(array),)."""
import sys, os; sys.path.insert(0, os.getcwd())
import numpy as np
from holopy.core.prior import Uniform, Prior
violations = []
u = Uniform(1, 3)
arr = np.array([1.0, 10.0])
right = u * arr
left = arr * u
print("u * arr  ->", type(right).__name__, right.shape if hasattr(right, 'shape') else '')
print("arr * u  ->", type(left).__name__)
if isinstance(right, np.ndarray) and not isinstance(left, np.ndarray):
    violations.append("arr * prior is not the array of priors that prior * arr is")
print("(arr*u).guess      =", left.guess)
np.random.seed(1); s0 = left.sample()
print("(arr*u).sample()   =", s0)
np.random.seed(1); s = left.sample(4)
np.random.seed(1); base = u.sample(4)
print("(arr*u).sample(4)  =", s)
print("expected arr x u.sample(4) =\n", np.multiply.outer(base, arr))
if np.shape(s) != (4, 2) or not np.allclose(s, np.multiply.outer(base, arr)):
    violations.append("(arr*prior).sample(4) != arr * prior.sample(4): got shape %s, uses only arr[0]" % (np.shape(s),))
print("VIOLATIONS:", violations)
sys.exit(1 if violations else 0)
