"""C14 finding 4 (low confidence / likely limitation): Uniform priors with a
half-infinite or infinite support are explicitly supported at construction
(guess, scale_factor, lnprob = -1e6) but sample() of any size raises
OverflowError, and so does generate_guess()."""
import sys, os; sys.path.insert(0, os.getcwd())
import numpy as np
from holopy.core.prior import Uniform, generate_guess
violations = []
for lo, hi in [(0, np.inf), (-np.inf, 2), (-np.inf, np.inf)]:
    u = Uniform(lo, hi)
    for size in [None, 1, 5]:
        try:
            s = u.sample(size)
            ok = np.all((np.asarray(s) >= lo) & (np.asarray(s) <= hi)) and np.all(np.isfinite(s))
            print(f"Uniform({lo},{hi}).sample({size}) -> {s} in support/finite: {ok}")
            if not ok:
                violations.append(f"Uniform({lo},{hi}).sample({size}) not in support")
        except Exception as e:
            print(f"Uniform({lo},{hi}).sample({size}) raised {type(e).__name__}: {e}")
            violations.append(f"Uniform({lo},{hi}).sample({size}) raised {type(e).__name__}")
try:
    generate_guess([Uniform(0, np.inf)], 3, seed=1)
except Exception as e:
    print("generate_guess([Uniform(0, inf)]) raised", type(e).__name__, e)
    violations.append("generate_guess with improper prior raised")
print("VIOLATIONS:", violations)
sys.exit(1 if violations else 0)
