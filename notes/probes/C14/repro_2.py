"""C14 finding 2: when the same base prior object occurs more than once in a
derived prior (u - u, g * g, u / u, x*(1 - x) ...), TransformedPrior.sample draws
an independent sample for every occurrence, whereas .guess and the model
machinery (holopy.core.mapping.Mapper ties priors by identity) treat every
occurrence as the same random variable. So the samples are NOT the operation
applied to the base prior's samples: (u - u) samples are non-zero, (g * g)
samples are negative half of the time."""
import sys, os; sys.path.insert(0, os.getcwd())
import numpy as np
from holopy.core.prior import Uniform, Gaussian
from holopy.core.mapping import Mapper, read_map

violations = []
np.random.seed(0)
u = Uniform(1, 3)
g = Gaussian(0, 1)
d = u - u
sq = g * g
ratio = u / u

# what the model does with the same objects: one parameter, tied
m = Mapper()
mp = m.convert_to_map({'d': d, 'ratio': ratio})
print("number of model parameters for {u-u, u/u}:", len(m.parameters))
for v in [1.0, 2.2, 3.0]:
    print("  parameter value", v, "->", read_map(mp, [v]))
print("(u-u).guess =", d.guess, " (u/u).guess =", ratio.guess, " (g*g).guess =", sq.guess)

s = d.sample(1000)
print("(u-u).sample(1000): min %.3f max %.3f" % (s.min(), s.max()))
if np.any(s != 0):
    violations.append("(u-u) samples are not u_samples - u_samples = 0")
s = ratio.sample(1000)
print("(u/u).sample(1000): min %.3f max %.3f" % (s.min(), s.max()))
if not np.allclose(s, 1):
    violations.append("(u/u) samples are not 1")
s = sq.sample(1000)
print("(g*g).sample(1000): fraction negative = %.3f ; (g**2) fraction negative = %.3f"
      % ((s < 0).mean(), ((g**2).sample(1000) < 0).mean()))
if np.any(s < 0):
    violations.append("(g*g) samples negative: not g_samples * g_samples")
single = d.sample()
print("(u-u).sample() =", single)
if single != 0:
    violations.append("(u-u).sample() with size None is non-zero")
print("VIOLATIONS:", violations)
sys.exit(1 if violations else 0)
