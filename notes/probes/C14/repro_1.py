"""C14 finding 1: a NumPy scalar (np.float64 / np.int64 / np.float32, e.g. an
array element or the result of np.sqrt(4)) on the LEFT of a prior bypasses
Prior.__mul__/__add__ and goes through Prior.__array_ufunc__, which has none of
the 0/1 identity rules: multiplying by 0 does not raise, multiplying by 1 or
adding 0 does not return the prior itself. The same number on the right (or the
same value as a Python float on either side) obeys the rules."""
import sys, os; sys.path.insert(0, os.getcwd())
import numpy as np
from holopy.core.prior import Uniform, TransformedPrior

u = Uniform(1, 3)
violations = []

def raises_typeerror(f):
    try:
        r = f()
    except TypeError:
        return True, None
    return False, r

for zero in [np.float64(0), np.int64(0), np.float32(0), np.array([0.0, 1.0])[0]]:
    ok_right, _ = raises_typeerror(lambda: u * zero)
    ok_left, res = raises_typeerror(lambda: zero * u)
    print(f"{type(zero).__name__}(0): u*0 raises={ok_right}; 0*u raises={ok_left}; 0*u -> {res!r}")
    if ok_right and not ok_left:
        violations.append(f"{type(zero).__name__}(0) * prior did not raise")

one = np.float64(1)
print("u * np.float64(1) is u:", (u * one) is u, "; np.float64(1) * u is u:", (one * u) is u)
if (u * one) is u and (one * u) is not u:
    violations.append("np.float64(1) * prior is not the prior itself")
z = np.float64(0)
print("u + np.float64(0) is u:", (u + z) is u, "; np.float64(0) + u is u:", (z + u) is u)
if (u + z) is u and (z + u) is not u:
    violations.append("np.float64(0) + prior is not the prior itself")
# explicit ufunc call, same path
try:
    r = np.multiply(u, 0)
    print("np.multiply(u, 0) ->", r)
    violations.append("np.multiply(prior, 0) did not raise")
except TypeError:
    pass

print("VIOLATIONS:", violations)
sys.exit(1 if violations else 0)
