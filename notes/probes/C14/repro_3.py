"""C14 finding 3: NaN (and infinite) bounds, guesses and widths are accepted at
construction, because the validity checks are written as 'reject if a < b'
comparisons that are all False for NaN."""
import sys, os; sys.path.insert(0, os.getcwd())
import numpy as np
from holopy.core.prior import Uniform, Gaussian, BoundedGaussian
from holopy.scattering.errors import ParameterSpecificationError

nan, inf = np.nan, np.inf
cases = {
    "Uniform(nan, 1)": lambda: Uniform(nan, 1),
    "Uniform(0, nan)": lambda: Uniform(0, nan),
    "Uniform(0, 1, guess=nan)": lambda: Uniform(0, 1, guess=nan),
    "Gaussian(0, nan)": lambda: Gaussian(0, nan),
    "Gaussian(0, inf)": lambda: Gaussian(0, inf),
    "Gaussian(nan, 1)": lambda: Gaussian(nan, 1),
    "BoundedGaussian(0, 1, nan, 1)": lambda: BoundedGaussian(0, 1, nan, 1),
    "BoundedGaussian(nan, 1, 0, 1)": lambda: BoundedGaussian(nan, 1, 0, 1),
}
violations = []
for label, f in cases.items():
    try:
        p = f()
    except ParameterSpecificationError as e:
        print(label, "rejected:", e)
        continue
    extra = ""
    if isinstance(p, Uniform):
        extra = " guess=%r scale_factor=%r lnprob(0.5)=%r" % (p.guess, p.scale_factor, p.lnprob(0.5))
    else:
        extra = " lnprob(0.5)=%r scale_factor=%r" % (p.lnprob(0.5), p.scale_factor)
    print(label, "ACCEPTED ->", p, extra)
    violations.append(label)
print("VIOLATIONS:", violations)
sys.exit(1 if violations else 0)
