"""C14 finding 6 (low severity): the default guess of a proper Uniform is
computed as (upper + lower) / 2, which overflows: for large float bounds the
guess is inf (and scale_factor inf, so scale() maps everything to 0 and
unscale(scale(x)) is nan); for small NumPy integer bounds it wraps around.
The guess is then outside the support."""
import sys, os; sys.path.insert(0, os.getcwd())
import warnings
import numpy as np
from holopy.core.prior import Uniform
violations = []
with warnings.catch_warnings():
    warnings.simplefilter('ignore')
    for lo, hi in [(1e308, 1.5e308), (-1.5e308, -1e308), (np.uint8(200), np.uint8(250)), (np.int8(100), np.int8(120))]:
        u = Uniform(lo, hi)
        inside = lo <= u.guess <= hi
        rt = u.unscale(u.scale(float(lo)))
        print(f"Uniform({lo!r}, {hi!r}): interval={u.interval!r} guess={u.guess!r} in support={inside} "
              f"scale_factor={u.scale_factor!r} unscale(scale(lo))={rt!r} prob(guess)={u.prob(u.guess)!r}")
        if not inside:
            violations.append(f"Uniform({lo!r},{hi!r}).guess={u.guess!r} outside support")
print("VIOLATIONS:", violations)
sys.exit(1 if violations else 0)
