"""C19 repro 2: cartesian<->cylindrical with scalar z only work for 1-D x, y.
For a 2-D grid of x, y (or a single scalar point) the scalar-z branch builds a flat
np.full(rho.size, z) whose shape differs from rho and the final np.array raises."""
import sys, os; sys.path.insert(0, os.getcwd())
import numpy as np
import holopy
from holopy.core.math import find_transformation_function as F
print(holopy.__file__)
bad = False
x, y = np.meshgrid(np.linspace(-1, 1, 4), np.linspace(-1, 1, 3))   # shape (3, 4)
z = 5.0
# reference behaviour: the other converters broadcast a scalar z fine
print('cart->sph, 2-D x,y, scalar z: shape', F('cartesian', 'spherical')([x, y, z]).shape)
for a, b, first in [('cartesian', 'cylindrical', [x, y, z]),
                    ('cylindrical', 'cartesian', [np.hypot(x, y), np.arctan2(y, x) % (2*np.pi), z])]:
    try:
        out = F(a, b)(first)
        print(a, '->', b, '2-D x,y, scalar z: shape', out.shape, out.dtype)
        bad |= out.shape != (3, 3, 4) or out.dtype == object
    except Exception as e:
        print(a, '->', b, '2-D x,y, scalar z: RAISES', type(e).__name__, str(e)[:70]); bad = True
# single point given as three scalars (depends on numpy version: numpy >= 1.24 raises)
for a, b in [('cartesian', 'cylindrical'), ('cylindrical', 'cartesian')]:
    try:
        out = F(a, b)([1.0, 2.0, 3.0]); print(a, '->', b, 'scalar point:', out, out.shape)
        bad |= out.shape != (3,)
    except Exception as e:
        print(a, '->', b, 'scalar point: RAISES', type(e).__name__, str(e)[:70]); bad = True
print('VIOLATION' if bad else 'ok')
sys.exit(1 if bad else 0)
