"""C19 repro 5: Scatterers.rotated needs member.center and member.rotated. A generic
Scatterers nested in a Scatterers ('two trimers', as advertised in the class docstring) has
no .center, and every non-sphere primitive (Spheroid, Ellipsoid, Cylinder, Capsule, Bisphere,
Janus) has no .rotated, so rotating such composites raises AttributeError (translated works)."""
import sys, os; sys.path.insert(0, os.getcwd())
import warnings; warnings.simplefilter('ignore')
import numpy as np
import holopy
from holopy.scattering import Sphere, Scatterers, Spheroid
print(holopy.__file__)
def trimer(off):
    return Scatterers([Sphere(n=1.59, r=0.5, center=np.array(c) + off)
                       for c in [(0, 0, 0), (1, 0, 0), (0, 1, 0)]])
bad = False
two_trimers = Scatterers([trimer(0.0), trimer(5.0)])
print('translated nested ok:', [s.center.tolist() for s in two_trimers.translated(1, 2, 3).get_component_list()][:2])
try:
    two_trimers.rotated(0.1, 0.2, 0.3); print('nested Scatterers rotated ok')
except Exception as e:
    print('nested Scatterers.rotated RAISES', type(e).__name__, e); bad = True
mixed = Scatterers([Spheroid(n=1.5, r=(0.3, 0.6), center=(1, 2, 3)), Sphere(n=1.5, r=0.3, center=(3, 3, 3))])
try:
    mixed.rotated(0.1, 0.2, 0.3); print('Scatterers([Spheroid, Sphere]).rotated ok')
except Exception as e:
    print('Scatterers([Spheroid, Sphere]).rotated RAISES', type(e).__name__, e); bad = True
print('VIOLATION' if bad else 'ok')
sys.exit(1 if bad else 0)
