"""C19 repro 4: RigidCluster inherits Scatterers.rotated/translated, which finish with
`new.scatterers = ...`; RigidCluster.scatterers is a read-only property, so rotating or
translating a RigidCluster (directly or as a member of a composite) raises AttributeError."""
import sys, os; sys.path.insert(0, os.getcwd())
import warnings; warnings.simplefilter('ignore')
import numpy as np
import holopy
from holopy.scattering import Sphere, Spheres, Scatterers
from holopy.scattering.scatterer import RigidCluster
print(holopy.__file__)
base = Spheres([Sphere(n=1.59, r=0.5, center=(0, 0, 0)), Sphere(n=1.59, r=0.5, center=(2, 0, 0)),
                Sphere(n=1.59, r=0.5, center=(0, 3, 0))])
rc = RigidCluster(base, translation=(1, 2, 3), rotation=(0.1, 0.2, 0.3))
c0 = np.array([s.center for s in rc.scatterers])
bad = False
for name, call in [('rc.translated(1, 1, 1)', lambda: rc.translated(1, 1, 1)),
                   ('rc.rotated(0.3, 0.2, 0.1)', lambda: rc.rotated(0.3, 0.2, 0.1)),
                   ('Scatterers([rc, Sphere]).translated(1,1,1)',
                    lambda: Scatterers([rc, Sphere(n=1.5, r=0.2, center=(9, 9, 9))]).translated(1, 1, 1))]:
    try:
        new = call()
        c1 = np.array([s.center for s in new.get_component_list()])[:3]
        print(name, 'ok; member shifts', (c1 - c0).tolist())
    except Exception as e:
        print(name, 'RAISES', type(e).__name__, e); bad = True
print('VIOLATION' if bad else 'ok')
sys.exit(1 if bad else 0)
