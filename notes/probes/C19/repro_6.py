"""C19 repro 6: misplaced parenthesis `len(ensure_array(coord1) == 3)` (instead of
`len(ensure_array(coord1)) == 3`) in Scatterer.translated / Scatterers.translated /
Scatterers.rotated: the length check is always true, so translated(5) silently shifts by
(5, 5, 5) through broadcasting instead of raising InvalidScatterer."""
import sys, os; sys.path.insert(0, os.getcwd())
import warnings; warnings.simplefilter('ignore')
import numpy as np
import holopy
from holopy.scattering import Sphere, Spheres
from holopy.scattering.errors import InvalidScatterer
print(holopy.__file__)
bad = False
s = Sphere(n=1.5, r=0.5, center=(1, 2, 3))
c = Spheres([Sphere(n=1.5, r=.5, center=(0, 0, 0)), Sphere(n=1.5, r=.5, center=(2, 0, 0))])
for name, call in [('Sphere.translated(5)', lambda: s.translated(5).center),
                   ('Spheres.translated(5)', lambda: [x.center.tolist() for x in c.translated(5).scatterers]),
                   ('Sphere.translated([1, 2])', lambda: s.translated([1, 2]).center),
                   ('Spheres.rotated(0.5)', lambda: c.rotated(0.5))]:
    try:
        print(name, '->', call(), ' (silently accepted)'); bad = True
    except InvalidScatterer as e:
        print(name, 'raises InvalidScatterer (intended)')
    except Exception as e:
        print(name, 'raises', type(e).__name__, '(intended: InvalidScatterer):', str(e)[:60]); bad = True
print('VIOLATION' if bad else 'ok')
sys.exit(1 if bad else 0)
