"""C19 repro 1: squared-sum overflow/underflow in cartesian->spherical/cylindrical and
cylindrical->spherical: distance from the origin is not preserved, theta is wrong and the
round trip fails for |coords| >~ 1e155 or <~ 1e-162 (also silent wrap for int32 input)."""
import sys, os; sys.path.insert(0, os.getcwd())
import warnings
import numpy as np
import holopy
from holopy.core.math import find_transformation_function as F
print(holopy.__file__)
warnings.simplefilter('ignore')
bad = False
for scale in [1e200, 1e-200]:
    xyz = np.array([[1.0], [2.0], [2.0]]) * scale          # |p| = 3*scale, representable
    r_true = 3 * scale
    theta_true = np.arccos(2 / 3)
    sph = F('cartesian', 'spherical')(xyz)
    cyl = F('cartesian', 'cylindrical')(xyz)
    sph2 = F('cylindrical', 'spherical')(np.array([[np.sqrt(5) * scale], [1.0], [2 * scale]]))
    back = F('spherical', 'cartesian')(sph)
    print('scale', scale)
    print('  cart->sph  r, theta =', sph[0, 0], sph[1, 0], ' expected', r_true, theta_true)
    print('  cart->cyl  rho      =', cyl[0, 0], ' expected', np.sqrt(5) * scale)
    print('  cyl->sph   r, theta =', sph2[0, 0], sph2[1, 0], ' expected', r_true, theta_true)
    print('  cart->sph->cart     =', back.ravel(), ' expected', xyz.ravel())
    ok = (np.isclose(sph[0, 0], r_true, rtol=1e-12) and np.isclose(sph[1, 0], theta_true, rtol=1e-12)
          and np.isclose(cyl[0, 0], np.sqrt(5) * scale, rtol=1e-12)
          and np.isclose(sph2[0, 0], r_true, rtol=1e-12)
          and np.allclose(back, xyz, rtol=1e-12, atol=0))
    bad |= not ok
xyz_i = np.array([[50000], [50000], [50000]], dtype=np.int32)
r_i = F('cartesian', 'spherical')(xyz_i)[0, 0]
print('int32 (50000,50000,50000): r =', r_i, ' expected', 50000 * np.sqrt(3))
bad |= not np.isclose(r_i, 50000 * np.sqrt(3))
print('VIOLATION' if bad else 'ok')
sys.exit(1 if bad else 0)
