"""C19 repro 3: rotation_matrix(..., radians=False) converts with in-place `alpha *= pi/180`,
so ndarray angle arguments (0-d arrays, size-1 arrays/views, e.g. xarray .values) are
overwritten in the caller: a second call with the same objects returns a different matrix,
and integer arrays raise."""
import sys, os; sys.path.insert(0, os.getcwd())
import numpy as np
import holopy
from holopy.core.math import rotation_matrix
print(holopy.__file__)
def Rz(a): c, s = np.cos(a), np.sin(a); return np.array([[c, -s, 0], [s, c, 0], [0, 0, 1]])
def Ry(a): c, s = np.cos(a), np.sin(a); return np.array([[c, 0, s], [0, 1, 0], [-s, 0, c]])
ref = Rz(np.deg2rad(90)) @ Ry(np.deg2rad(60)) @ Rz(np.deg2rad(30))
bad = False
a, b, g = np.array(30.), np.array(60.), np.array(90.)
R1 = rotation_matrix(a, b, g, radians=False)
print('first call matches Rz(g)Ry(b)Rz(a):', np.allclose(R1, ref), '; caller angles are now', a, b, g)
R2 = rotation_matrix(a, b, g, radians=False)
print('second call with same objects matches:', np.allclose(R2, ref), ' max diff', np.abs(R2 - ref).max())
bad |= not np.allclose(R2, ref) or float(a) != 30.0
angles = np.array([30., 60., 90.])
rotation_matrix(angles[0:1], angles[1:2], angles[2:3], radians=False)
print('angle array passed as views after call:', angles)
bad |= not np.array_equal(angles, [30., 60., 90.])
try:
    R3 = rotation_matrix(np.array(30), np.array(60), np.array(90), radians=False)
    bad |= not np.allclose(R3, ref)
except Exception as e:
    print('integer 0-d arrays: RAISES', type(e).__name__, str(e)[:90]); bad = True
print('VIOLATION' if bad else 'ok')
sys.exit(1 if bad else 0)
