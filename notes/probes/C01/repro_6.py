"""C01 / finding 6 (secondary): for k*r > ~2e4 (about 1.6 mm in water at 660 nm)
SBESJY fails to converge, mieangfuncs ignores IFAIL and the default Mie()
returns a finite but meaningless field (hologram ~1e4 instead of 1 +- 0.002)."""
import sys, os; sys.path.insert(0, os.getcwd())
import warnings; warnings.filterwarnings('ignore')
import numpy as np
from holopy.scattering import calc_field, calc_holo, Sphere, Mie
from holopy.core.metadata import detector_grid
d = detector_grid(2, 0.3)
bad = False
for z in [1000., 3000.]:
    s = Sphere(n=1.59, r=0.5, center=(0.3, 0.25, z))
    full = abs(calc_field(d, s, 1.33, 0.66, (1, 0)).values[0, 0, 0, 0])
    far = abs(calc_field(d, s, 1.33, 0.66, (1, 0), theory=Mie(False, False)).values[0, 0, 0, 0])
    holo = calc_holo(d, s, 1.33, 0.66, (1, 0)).values[0, 0, 0]
    print(f'z={z}: |Ex| default Mie()={full:.4g}  far-field Mie(False,False)={far:.4g}  holo={holo:.4g}')
    if abs(holo - 1) > 1: bad = True   # |E_s| ~ 1e-3, so the hologram must be 1 +- 0.002
print('VIOLATION: garbage field at large distance (IFAIL ignored)' if bad else 'ok')
sys.exit(1 if bad else 0)
