"""C01 / finding 1: results computed on point detectors lose the detector's
coordinates (x, y, z  or  r, theta, phi)."""
import sys, os; sys.path.insert(0, os.getcwd())
import warnings; warnings.filterwarnings('ignore')
import numpy as np
import holopy
from holopy.scattering import calc_holo, calc_field, calc_intensity, Sphere
from holopy.core.metadata import detector_points
print(holopy.__file__)
s = Sphere(n=1.59, r=0.5, center=(0.4, 0.5, 5))
kw = dict(medium_index=1.33, illum_wavelen=0.66, illum_polarization=(1, 0))
bad = False
for label, det, names in [
        ('cartesian', detector_points(x=[0.1, 0.5, -1.], y=[0.3, -2., 1.], z=[0., 0.5, -0.3]), 'xyz'),
        ('spherical', detector_points(theta=[0.1, 1., 2.], phi=[0., 2., 4.], r=[10., 20., 5.]), ['r', 'theta', 'phi'])]:
    for fn in (calc_holo, calc_field, calc_intensity):
        out = fn(det, s, **kw)
        missing = [c for c in names if c not in out.coords]
        print(f'{label:9s} {fn.__name__:14s} detector coords={sorted(det.coords)} result coords={sorted(out.coords)} missing={missing}')
        bad |= bool(missing)
print('VIOLATION: point-detector coordinates are dropped from the result' if bad else 'ok')
sys.exit(1 if bad else 0)
