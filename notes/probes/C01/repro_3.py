"""C01 / finding 3: NaN scattered fields are silently turned into 0 in the
hologram and the intensity (xarray .sum(dim=vector) skips NaN), so e.g. the
documented far-field point detector (r = inf) gives hologram 0 -- also with
scaling=0, where it has to be exactly 1 -- and a non-finite field is hidden."""
import sys, os; sys.path.insert(0, os.getcwd())
import warnings; warnings.filterwarnings('ignore')
import numpy as np
from holopy.scattering import calc_holo, calc_field, calc_intensity, Sphere
from holopy.core.metadata import detector_points, detector_grid
kw = dict(medium_index=1.33, illum_wavelen=0.66, illum_polarization=(1, 0))
s = Sphere(n=1.59, r=0.5, center=(0, 0, 0))
det = detector_points(theta=[0.3, 0.3], phi=[1., 1.], r=[20., np.inf])   # r=inf is the documented default
f = calc_field(det, s, **kw).values
h = calc_holo(det, s, **kw).values
h0 = calc_holo(det, s, scaling=0., **kw).values
i = calc_intensity(det, s, **kw).values
print('field       :', f[:, 0])
print('holo        :', h)
print('holo scale 0:', h0, '(must be exactly 1)')
print('intensity   :', i)
bad = (not np.isfinite(f).all()) and np.isfinite(h).all() and (h[1] == 0 or h0[1] != 1 or i[1] == 0)
# second trigger: a grid pixel that coincides with the centre of a particle in the detector plane
g = detector_grid(5, 0.1)
s2 = Sphere(n=1.59, r=0.01, center=(0.2, 0.2, 0))
hg = calc_holo(g, s2, **kw).values.squeeze()
fg = calc_field(g, s2, **kw).sel(vector='x').values.squeeze()
print('grid: field[2,2] =', fg[2, 2], ' holo[2,2] =', hg[2, 2], ' neighbours ~', hg[2, 1])
bad |= (np.isnan(fg[2, 2]) and hg[2, 2] == 0)
print('VIOLATION: NaN field masked as hologram/intensity 0' if bad else 'ok')
sys.exit(1 if bad else 0)
