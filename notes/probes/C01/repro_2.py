"""C01 / finding 2: legitimate Tmatrix inputs terminate the Python interpreter
(Fortran STOP, exit status 0, no message, no exception) instead of returning a
finite hologram or raising."""
import sys, os, subprocess, textwrap
child = textwrap.dedent('''
    import sys, os; sys.path.insert(0, os.getcwd())
    import warnings; warnings.filterwarnings('ignore')
    import numpy as np
    from holopy.scattering import calc_holo, Sphere, Spheroid, Cylinder, Tmatrix
    from holopy.core.metadata import detector_grid, detector_points
    kw = dict(medium_index=1.33, illum_wavelen=0.66, illum_polarization=(1, 0))
    grid = detector_grid(4, 0.1)
    case = sys.argv[1]
    try:
        if case == 'ok_reference':
            h = calc_holo(grid, Spheroid(n=1.59, r=(0.3, 0.5), rotation=(0, 0.3, 0.2), center=(0.4, 0.5, 5)), **kw)
        elif case == 'negative_beta':      # same orientation as (0, 0.3, 0.2 + pi)
            h = calc_holo(grid, Spheroid(n=1.59, r=(0.3, 0.5), rotation=(0, -0.3, 0.2), center=(0.4, 0.5, 5)), **kw)
        elif case == 'negative_gamma':     # same orientation as (0, 0.3, 2*pi - 0.2)
            h = calc_holo(grid, Cylinder(n=1.59, d=0.5, h=0.8, rotation=(0, 0.3, -0.2), center=(0.4, 0.5, 5)), **kw)
        elif case == 'gamma_gt_2pi':
            h = calc_holo(grid, Spheroid(n=1.59, r=(0.3, 0.5), rotation=(0, 0.3, 6.5), center=(0.4, 0.5, 5)), **kw)
        elif case == 'negative_phi_point_detector':
            h = calc_holo(detector_points(theta=[1.0], phi=[-1.0], r=[10.]), Sphere(n=1.59, r=0.5, center=(0, 0, 0)), theory=Tmatrix(), **kw)
        elif case == 'rod_aspect_6':       # "may not converge" -> kills the process
            h = calc_holo(grid, Cylinder(n=1.59, d=0.5, h=3.0, rotation=(0, 0.3, 0.2), center=(0.4, 0.5, 12)), **kw)
        print('RETURNED finite=%s' % np.isfinite(h.values).all(), flush=True)
    except Exception as e:
        print('RAISED %s' % type(e).__name__, flush=True)
''')
bad = False
for case in ['ok_reference', 'negative_beta', 'negative_gamma', 'gamma_gt_2pi', 'negative_phi_point_detector', 'rod_aspect_6']:
    r = subprocess.run([sys.executable, '-c', child, case], capture_output=True, text=True, cwd=os.getcwd())
    out = r.stdout.strip()
    died = not (out.startswith('RETURNED') or out.startswith('RAISED'))
    print(f'{case:30s} exit status={r.returncode} stdout={out!r} ' + ('<-- interpreter terminated silently' if died else ''))
    if died and case != 'ok_reference':
        bad = True
print('VIOLATION: Tmatrix silently kills the interpreter' if bad else 'ok')
sys.exit(1 if bad else 0)
