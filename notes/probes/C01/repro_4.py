"""C01 / finding 4: a polarization handed over as an xarray (the library's own
representation, e.g. taken from another detector's attrs or built by hand) is
not normalised by to_vector, so the reference wave is not a unit vector and
scaling=0 does not give 1."""
import sys, os; sys.path.insert(0, os.getcwd())
import warnings; warnings.filterwarnings('ignore')
import numpy as np, xarray as xr
from holopy.scattering import calc_holo, Sphere
from holopy.core.metadata import detector_grid
s = Sphere(n=1.59, r=0.5, center=(0.4, 0.5, 5))
d = detector_grid(3, 0.2)
pol_xr = xr.DataArray([3., 4., 0.], dims='vector', coords={'vector': ['x', 'y', 'z']})
h_xr = calc_holo(d, s, 1.33, 0.66, pol_xr, scaling=0.).values
h_tu = calc_holo(d, s, 1.33, 0.66, (3., 4.), scaling=0.).values
print('scaling=0, polarization (3,4) as tuple  :', np.unique(h_tu))
print('scaling=0, polarization (3,4) as xarray :', np.unique(h_xr))
bad = not np.allclose(h_xr, 1.0)
print('VIOLATION: xarray polarization not normalised' if bad else 'ok')
sys.exit(1 if bad else 0)
