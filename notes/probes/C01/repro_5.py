"""C01 / finding 5: on a detector that is not in the plane z = 0 the reference
wave is still taken with phase 1, while the scattered field carries the phase
exp(-i k z_particle) referred to the plane z = 0.  Shifting detector AND
particle by the same dz therefore changes the hologram by O(1)."""
import sys, os; sys.path.insert(0, os.getcwd())
import warnings; warnings.filterwarnings('ignore')
import numpy as np
from holopy.scattering import calc_holo, calc_field, Sphere, Mie
from holopy.core.metadata import detector_points
x = np.array([0.0, 0.7, -1.3, 2.0]); y = np.array([0.0, -0.4, 0.9, 1.5])
dz = 0.1                                         # any dz that is not a multiple of the medium wavelength
k = 2 * np.pi * 1.33 / 0.66
kw = dict(medium_index=1.33, illum_wavelen=0.66, illum_polarization=(1, 0))
h_a = calc_holo(detector_points(x=x, y=y, z=0.), Sphere(n=1.59, r=0.5, center=(0.4, 0.5, 5.)), **kw).values
h_b = calc_holo(detector_points(x=x, y=y, z=dz), Sphere(n=1.59, r=0.5, center=(0.4, 0.5, 5. + dz)), **kw).values
f_b = calc_field(detector_points(x=x, y=y, z=dz), Sphere(n=1.59, r=0.5, center=(0.4, 0.5, 5. + dz)), **kw).values
# hologram with the physically consistent reference phase exp(-i k dz) on the shifted detector
h_fix = np.abs(f_b[:, 0] + np.exp(-1j * k * dz))**2 + np.abs(f_b[:, 1])**2
print('detector z=0  , particle z=5     :', h_a)
print('detector z=dz , particle z=5+dz  :', h_b)
print('same, reference = pol*exp(-ik dz):', h_fix)
bad = np.abs(h_a - h_b).max() > 1e-6 and np.abs(h_a - h_fix).max() < 1e-9
print('VIOLATION: hologram not invariant under a common z shift (reference phase ignores detector z)' if bad else 'ok')
sys.exit(1 if bad else 0)
