"""C11 repro 2: a prior object shared between the scatterer and another part
of the model (medium_index / alpha / theory) becomes TWO independent
parameters, whereas the same sharing among optics, alpha and theory is
correctly mapped to ONE parameter.

Run from the checkout root:  /venv/bin/python /tmp/probe_out/C11/repro_2.py
exit 1 = violation present, 0 = absent.
"""
import sys, os; sys.path.insert(0, os.getcwd())
import warnings; warnings.filterwarnings('ignore')
import numpy as np
np.NaN = np.nan
import holopy
from holopy.inference import prior
from holopy.inference.model import AlphaModel
from holopy.scattering import Sphere, Mie, MieLens

print('holopy from', holopy.__file__)
bad = False

# (a) particle index expressed relative to the (fitted) medium index
n_medium = prior.Uniform(1.30, 1.36, guess=1.33)
sphere = Sphere(n=n_medium + 0.25, r=0.5, center=[0, 0, 5])
model = AlphaModel(sphere, medium_index=n_medium, illum_wavelen=0.66,
                   illum_polarization=(1, 0), theory=Mie())
print('(a) distinct prior objects used: 1')
print('    model parameter names      :', model._parameter_names)
print('    scatterer map:', model._maps['scatterer'][1][0][0])
print('    optics map   :', model._maps['optics'][1][0])
if len(model._parameters) != 1:
    bad = True
    vals = [1.31, 1.35]
    n_sph = model.scatterer_from_parameters(vals).n
    n_med = model._find_optics(vals, None)['medium_index']
    print('    values', vals, '-> n_sphere =', n_sph, ', n_medium =', n_med,
          ', difference =', n_sph - n_med, '(was specified as 0.25)')

# (b) same prior for sphere radius and (say) alpha
x = prior.Uniform(0.5, 1.0)
model = AlphaModel(Sphere(n=1.5, r=x, center=[0, 0, 5]), alpha=x,
                   theory=Mie())
print('(b) r and alpha share one prior -> names', model._parameter_names)
if len(model._parameters) != 1:
    bad = True

# (c) control: sharing that does not involve the scatterer IS honoured
y = prior.Uniform(0.5, 1.0)
model = AlphaModel(Sphere(n=1.5, r=0.5, center=[0, 0, 5]), alpha=y,
                   medium_index=y + 0.5, theory=MieLens(lens_angle=y))
print('(c) alpha, medium_index, lens_angle share one prior -> names',
      model._parameter_names)
if len(model._parameters) != 1:
    print('    (control unexpectedly failed)')
    bad = True

print('VIOLATION' if bad else 'ok')
sys.exit(1 if bad else 0)
