"""C11 repro 1: a Model built on a RigidCluster silently ignores the cluster's
rotation and translation (fixed values AND fitted parameters).

Run from the checkout root:  /venv/bin/python /tmp/probe_out/C11/repro_1.py
exit 1 = violation present, 0 = absent.
"""
import sys, os; sys.path.insert(0, os.getcwd())
import warnings; warnings.filterwarnings('ignore')
import numpy as np
np.NaN = np.nan
import holopy
from holopy.inference import prior
from holopy.inference.model import AlphaModel
from holopy.scattering import Sphere, Spheres, Mie
from holopy.scattering.scatterer import RigidCluster

print('holopy from', holopy.__file__)


def make(rot0, tr0):
    s1 = Sphere(n=1.59, r=0.5, center=(1, 0, 0))
    s2 = Sphere(n=1.59, r=0.5, center=(-1, 0, 0))
    return RigidCluster(Spheres([s1, s2]), rotation=(rot0, 0.3, 0),
                        translation=(tr0, 2, 3))


rot_prior = prior.Uniform(0, 3, guess=1.0)
tr_prior = prior.Uniform(0, 10, guess=5.0)
model = AlphaModel(make(rot_prior, tr_prior), theory=Mie())
print('model parameters      :', model._parameter_names)
print('type(_dummy_scatterer):', type(model._dummy_scatterer).__name__)

values = {'rotation.0': 0.7, 'translation.0': 4.0}
got = model.scatterer_from_parameters(values)
# the specification of RigidCluster.from_parameters (and test_RigidCluster):
# the equivalent rotated and translated sphere collection
fixed = make(0.7, 4.0)
expected = fixed.from_parameters(fixed.parameters)

got_c = np.array([s.center for s in got.scatterers], dtype=float)
exp_c = np.array([s.center for s in expected.scatterers], dtype=float)
print('centers from model.scatterer_from_parameters:\n', got_c)
print('centers expected (rotated+translated)       :\n', exp_c)

guess = model.initial_guess_scatterer
gfix = make(rot_prior.guess, tr_prior.guess)
gexp = gfix.from_parameters(gfix.parameters)
guess_c = np.array([s.center for s in guess.scatterers], dtype=float)
gexp_c = np.array([s.center for s in gexp.scatterers], dtype=float)
print('initial_guess_scatterer centers:\n', guess_c)
print('expected from the guesses      :\n', gexp_c)

# changing the parameter values has no effect at all:
other = model.scatterer_from_parameters({'rotation.0': 2.9,
                                         'translation.0': 9.0})
other_c = np.array([s.center for s in other.scatterers], dtype=float)
insensitive = np.allclose(other_c, got_c)
print('scatterer independent of rotation/translation values:', insensitive)

bad = (not np.allclose(got_c, exp_c)) or (not np.allclose(guess_c, gexp_c)) \
    or insensitive
print('VIOLATION' if bad else 'ok')
sys.exit(1 if bad else 0)
