"""C11 repro 3: the Lens theory declares `lens_angle` as its fittable
parameter (parameter_names = ('lens_angle',)), but a Lens whose lens_angle is
a prior cannot even be constructed, so no Model can expose / map it.
MieLens with the same prior works.

Run from the checkout root:  /venv/bin/python /tmp/probe_out/C11/repro_3.py
exit 1 = violation present, 0 = absent.
"""
import sys, os; sys.path.insert(0, os.getcwd())
import warnings; warnings.filterwarnings('ignore')
import traceback
import numpy as np
np.NaN = np.nan
import holopy
from holopy.inference import prior
from holopy.inference.model import AlphaModel
from holopy.scattering import Sphere, Mie, MieLens
from holopy.scattering.theory import Lens

print('holopy from', holopy.__file__)
print('Lens.parameter_names =', Lens.parameter_names)
sphere = Sphere(n=prior.Uniform(1.4, 1.7), r=0.5, center=[0, 0, 5])

m = AlphaModel(sphere, theory=MieLens(lens_angle=prior.Uniform(0.2, 1.2)))
print('MieLens control: names', m._parameter_names, '->',
      m.theory_from_parameters([1.5, 0.7]))

bad = False
try:
    theory = Lens(lens_angle=prior.Uniform(0.2, 1.2), theory=Mie())
    m = AlphaModel(sphere, theory=theory)
    print('Lens: names', m._parameter_names)
    out = m.theory_from_parameters([1.5, 0.7])
    print('Lens theory_from_parameters ->', out)
    bad = not (isinstance(out, Lens) and out.lens_angle == 0.7)
except Exception as e:
    traceback.print_exc(limit=-3)
    print('Lens with a prior lens_angle failed:', type(e).__name__, e)
    bad = True
print('VIOLATION' if bad else 'ok')
sys.exit(1 if bad else 0)
