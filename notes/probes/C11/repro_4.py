"""C11 repro 4: Model.add_tie(..., new_name=<name already used by another
parameter>) silently creates two parameters with the same name.  The
`parameters` / `initial_guess` dictionaries then lose an entry and name-keyed
values no longer give the same scatterer as list-ordered values.
(Mapper.add_parameter de-duplicates names on construction; add_tie does not.)

Run from the checkout root:  /venv/bin/python /tmp/probe_out/C11/repro_4.py
exit 1 = violation present, 0 = absent.
"""
import sys, os; sys.path.insert(0, os.getcwd())
import warnings; warnings.filterwarnings('ignore')
import numpy as np
np.NaN = np.nan
import holopy
from holopy.inference import prior
from holopy.inference.model import AlphaModel
from holopy.scattering import Sphere, Spheres, Mie

print('holopy from', holopy.__file__)
U = prior.Uniform
s0 = Sphere(n=U(1.4, 1.7), r=U(0.3, 0.6, guess=0.4), center=[0, 0, 5])
s1 = Sphere(n=U(1.4, 1.7), r=U(0.7, 0.9, guess=0.8), center=[3, 0, 5])
model = AlphaModel(Spheres([s0, s1]), theory=Mie())
print('names before tie:', model._parameter_names)
model.add_tie(['0:n', '1:n'], new_name='0:r')      # '0:r' already exists
names = model._parameter_names
print('names after  tie:', names)
print('len(_parameters) =', len(model._parameters),
      ' len(parameters dict) =', len(model.parameters))
bad = len(set(names)) != len(names)

values = [1.5, 0.4, 0.8]                # n (tied), 0:r, 1:r
by_list = model.scatterer_from_parameters(values)
by_name = model.scatterer_from_parameters(
    {name: v for name, v in zip(names, values)})
print('list-ordered :', [(s.n, s.r) for s in by_list.scatterers])
print('name-keyed   :', [(s.n, s.r) for s in by_name.scatterers])
guess = model.initial_guess_scatterer
print('initial_guess_scatterer:', [(s.n, s.r) for s in guess.scatterers],
      ' (prior guesses: n=1.55, r0=0.4, r1=0.8)')
bad = bad or by_list != by_name or guess.scatterers[0].n != 1.55
print('VIOLATION' if bad else 'ok')
sys.exit(1 if bad else 0)
