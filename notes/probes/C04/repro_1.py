"""C04 knife-edge observation (LOW confidence that it is a genuine defect).

theory='auto' picks Multisphere iff max_separation <= 30*max_radius
(holopy/scattering/interface.py:_choose_mie_vs_multisphere, line ~398).
For a pair whose separation is exactly 30 radii the comparison is decided by
floating-point round-off, so multiplying every length by one factor switches
the theory (Multisphere <-> Mie superposition) and the hologram changes at
the level of the difference between the two theories.
Exit 1 when the rescaled hologram differs from the reference by > 1e-6.
"""
import sys, os; sys.path.insert(0, os.getcwd())
import warnings; warnings.filterwarnings('ignore')
import numpy as np
import holopy
from holopy.core.metadata import detector_grid
from holopy.scattering import Sphere, Spheres, calc_holo
from holopy.scattering.interface import determine_default_theory_for

r = 0.66
def cluster(f):
    return Spheres([Sphere(n=1.59, r=r * f, center=(2 * f, 2 * f, 10 * f)),
                    Sphere(n=1.59, r=r * f, center=(2 * f + 30 * r * f, 2 * f, 10 * f))])
def holo(f):
    det = detector_grid((8, 8), 0.5 * f)
    return calc_holo(det, cluster(f), medium_index=1.33, illum_wavelen=0.66 * f,
                     illum_polarization=(1, 0)).values
ref = holo(1.0)
bad = False
for f in [1.0, 1e-3, 3.0, 1e3]:
    th = type(determine_default_theory_for(cluster(f))).__name__
    d = np.abs(holo(f) - ref).max() / np.abs(ref).max()
    print('scale %-8g auto theory %-12s max rel. hologram change %.3e' % (f, th, d))
    bad |= d > 1e-6
print('VIOLATION (knife-edge theory switch)' if bad else 'no violation')
sys.exit(1 if bad else 0)
