"""SIDE FINDING (outside C04; scale-invariant, so it does not violate C04).

Tmatrix._parse_args (holopy/scattering/theory/tmatrix.py:103) computes the
equal-volume-sphere radius passed to Mishchenko's code as
    axi = (3/2)**iscyl * (rz*rxy**2)**(1/3.)
For a cylinder (iscyl=True) the factor 3/2 must be INSIDE the cube root:
    axi = ((3/2)**iscyl * rz*rxy**2)**(1/3.)
(volume of cylinder 2*pi*rxy^2*rz = 4/3*pi*axi^3; cf. RSP3 in ampld.lp.f,
 H = REV*(2/(3 EPS^2))^(1/3)).  As written the cylinder is modelled
1.5**(2/3) = 1.31 times too large in every dimension (volume x2.25).

Check: in the Rayleigh-Gans limit (tiny particle, m -> 1) the forward
scattering amplitude is proportional to the particle volume, so a cylinder and
the sphere of equal volume must have the same S(0) to within ~1 %.
Exit 1 when the ratio is off by more than 10 %.
"""
import sys, os; sys.path.insert(0, os.getcwd())
import warnings; warnings.filterwarnings('ignore')
import numpy as np
import holopy
from holopy.core.metadata import detector_points
from holopy.scattering import Sphere, Cylinder, Spheroid, Mie, Tmatrix, calc_scat_matrix

dp = detector_points(theta=[0.0, 0.2], phi=[0.0, 0.0])
d, h = 0.02, 0.03
V = np.pi * (d / 2) ** 2 * h
r_eq = (3 * V / 4 / np.pi) ** (1 / 3)
cyl = calc_scat_matrix(dp, Cylinder(n=1.05, d=d, h=h, center=(0, 0, 0), rotation=(0, 0, 0)),
                       1.0, 0.66, theory=Tmatrix()).values[0, 0, 0]
sph = calc_scat_matrix(dp, Sphere(n=1.05, r=r_eq, center=(0, 0, 0)), 1.0, 0.66, theory=Mie()).values[0, 0, 0]
sd = calc_scat_matrix(dp, Spheroid(n=1.05, r=(0.01, 0.02), center=(0, 0, 0), rotation=(0, 0, 0)),
                      1.0, 0.66, theory=Tmatrix()).values[0, 0, 0]
sd_eq = calc_scat_matrix(dp, Sphere(n=1.05, r=(0.01 ** 2 * 0.02) ** (1 / 3), center=(0, 0, 0)),
                         1.0, 0.66, theory=Mie()).values[0, 0, 0]
ratio = abs(cyl / sph)
print('S(0) cylinder / S(0) equal-volume sphere = %.4f   (expected ~1, bug predicts 1.5**3/1.5 = 2.25)' % ratio)
print('control: spheroid / equal-volume sphere  = %.4f' % abs(sd / sd_eq))
bad = abs(ratio - 1) > 0.1
print('DEFECT PRESENT' if bad else 'ok')
sys.exit(1 if bad else 0)
