"""SIDE FINDING (outside C04 proper; it is what makes the knife-edge of
repro_1.py visible).

For a pair of spheres 30 radii apart (k*R ~ 250) Multisphere silently returns
a badly truncated field (the cluster-centred expansion is capped at a fixed
order, see the comment in interface._choose_mie_vs_multisphere and scfodim.for)
-- no MultisphereFailure is raised -- yet theory='auto' still selects
Multisphere because the rule `max_separation <= 30*max_radius`
(interface.py:398) ignores k*R.
Oracle: directly under sphere 1 the hologram must be close to that of sphere 1
alone (sphere 2 is 20 um away laterally).
Exit 1 when the auto/Multisphere hologram misses the single-sphere fringe by
more than 0.2 (the fringe amplitude there is ~0.5).
"""
import sys, os; sys.path.insert(0, os.getcwd())
import warnings; warnings.filterwarnings('ignore')
import numpy as np
import holopy
from holopy.core.metadata import detector_grid
from holopy.scattering import Sphere, Spheres, Mie, Multisphere, calc_holo
from holopy.scattering.interface import determine_default_theory_for

r = 0.66
s1 = Sphere(n=1.59, r=r, center=(2, 2, 10))
s2 = Sphere(n=1.59, r=r, center=(2 + 29.9 * r, 2, 10))
cl = Spheres([s1, s2])
det = detector_grid((5, 5), 1.0)
kw = dict(medium_index=1.33, illum_wavelen=0.66, illum_polarization=(1, 0))
single = calc_holo(det, s1, **kw).values.squeeze()
sup = calc_holo(det, cl, theory=Mie(), **kw).values.squeeze()
auto = calc_holo(det, cl, **kw).values.squeeze()
print('auto theory:', type(determine_default_theory_for(cl)).__name__)
print('pixel under sphere 1: single sphere %.3f, Mie superposition %.3f, auto/Multisphere %.3f'
      % (single[2, 2], sup[2, 2], auto[2, 2]))
bad = abs(auto[2, 2] - single[2, 2]) > 0.2
print('DEFECT PRESENT' if bad else 'ok')
sys.exit(1 if bad else 0)
