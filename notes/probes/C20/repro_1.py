import sys, os; sys.path.insert(0, os.getcwd())
import warnings
import numpy as np
import holopy
print("holopy from", holopy.__file__)

# CSG (Union / Difference / Intersection) of any primitive that is not a Sphere cannot be built
from holopy.scattering.scatterer import Sphere, Ellipsoid, Union, Difference, Intersection
s = Sphere(n=1.5, r=1.0, center=(0, 0, 0))
e = Ellipsoid(n=1.5, r=(1.0, 2.0, 0.5), center=(0.5, 0, 0))
s2 = Sphere(n=1.5, r=1.0, center=(1, 0, 0))
fail = 0
pts = np.array([[0, 0, 0], [0.5, 1.5, 0], [0, 0, 0.9], [5, 5, 5]], float)
ins_s = ((pts - s.center) ** 2).sum(-1) < 1
ins_e = (((pts - e.center) / np.array(e.r)) ** 2).sum(-1) < 1
for cls, op in ((Union, ins_s | ins_e), (Intersection, ins_s & ins_e), (Difference, ins_s & ~ins_e)):
    for a, b in ((s, e), (e, s)):
        try:
            u = cls(a, b)
            got = u.contains(pts)
            print(cls.__name__, type(a).__name__, type(b).__name__, "contains ->", got)
        except Exception as ex:
            fail += 1
            print(cls.__name__, type(a).__name__, type(b).__name__, "RAISED", type(ex).__name__, ex)
# nested CSG of spheres
try:
    u = Union(Union(s, s2), Sphere(n=1.5, r=.5, center=(0.5, 0, 0)))
    print("nested union contains", u.contains(pts))
except Exception as ex:
    fail += 1
    print("nested Union(Union(s, s2), s3) RAISED", type(ex).__name__, ex)
print("VIOLATION" if fail else "ok")
sys.exit(1 if fail else 0)
