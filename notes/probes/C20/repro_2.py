import sys, os; sys.path.insert(0, os.getcwd())
import warnings
import numpy as np
import holopy
print("holopy from", holopy.__file__)

# Scatterers/Spheres: in_domain gives the same label to member 0 and member 1, index_at looks up the wrong member
from holopy.scattering.scatterer import Sphere, Spheres, Scatterers
s0 = Sphere(n=1.5, r=1.0, center=(0, 0, 0))
s1 = Sphere(n=1.7, r=1.0, center=(3, 0, 0))
s2 = Sphere(n=1.9, r=1.0, center=(0, 5, 0))
fail = 0
for cls in (Scatterers, Spheres):
    S = cls([s0, s1, s2])
    dom = S.in_domain([[0, 0, 0], [3, 0, 0], [0, 5, 0], [9, 9, 9]])
    print(cls.__name__, "in_domain at centres of members 0,1,2 and outside:", dom)
    if dom[0] == dom[1]:
        fail += 1
        print("  -> members 0 and 1 are indistinguishable")
    idx = [np.ravel(S.index_at(p))[0] for p in ([0, 0, 0], [3, 0, 0], [0, 5, 0])]
    print(cls.__name__, "index_at at the three centres:", idx, "expected [1.5, 1.7, 1.9]")
    if not np.allclose(idx, [1.5, 1.7, 1.9]):
        fail += 1
    multi = S.index_at(np.array([[0, 5, 0], [3, 0, 0], [0, 0, 0]], float))
    print(cls.__name__, "index_at of 3 points at once:", multi, "expected [1.9, 1.7, 1.5]")
    if not np.allclose(multi, [1.9, 1.7, 1.5]):
        fail += 1
print("VIOLATION" if fail else "ok")
sys.exit(1 if fail else 0)
