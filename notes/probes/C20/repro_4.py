import sys, os; sys.path.insert(0, os.getcwd())
import warnings
import numpy as np
import holopy
print("holopy from", holopy.__file__)

# LayeredSphere validates neither radii (thicknesses) nor centre; Spheres then silently reports "no overlaps"
from holopy.scattering.scatterer import Sphere, LayeredSphere, Spheres
from holopy.scattering.errors import InvalidScatterer
fail = 0
def rejected(label, f):
    global fail
    try:
        o = f()
        print(label, "ACCEPTED ->", o if not hasattr(o, 'r') else (o, 'r =', o.r))
        fail += 1
    except InvalidScatterer as ex:
        print(label, "rejected (ok)")
rejected("LayeredSphere t=[-1]", lambda: LayeredSphere(n=[1.5], t=[-1.0], center=(0, 0, 0)))
rejected("LayeredSphere t=[1,-0.5]", lambda: LayeredSphere(n=[1.5, 1.6], t=[1.0, -0.5], center=(0, 0, 0)))
rejected("LayeredSphere center=(0,0)", lambda: LayeredSphere(n=[1.5], t=[1.0], center=(0, 0)))
rejected("LayeredSphere center=3", lambda: LayeredSphere(n=[1.5], t=[1.0], center=3))
# collection containing them
with warnings.catch_warnings(record=True) as w:
    warnings.simplefilter('always')
    bad = LayeredSphere(n=[1.5], t=[1.0], center=(0, 0))
    S = Spheres([bad, Sphere(n=1.5, r=1.0, center=(0, 0, 0.5))])
    print("Spheres with a 2-component centre accepted; overlaps =", S.overlaps, "warnings:", len(w))
    try:
        print("largest_overlap", S.largest_overlap())
    except Exception as ex:
        print("largest_overlap RAISED", type(ex).__name__, ex)
print("VIOLATION" if fail else "ok")
sys.exit(1 if fail else 0)
