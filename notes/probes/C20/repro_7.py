import sys, os; sys.path.insert(0, os.getcwd())
import warnings
import numpy as np
import holopy
print("holopy from", holopy.__file__)

# translated(scalar) is silently accepted and shifts all three axes (misplaced parenthesis)
from holopy.scattering.scatterer import Sphere, Spheres
from holopy.scattering.errors import InvalidScatterer
fail = 0
s = Sphere(n=1.5, r=1.0, center=(0, 0, 0))
for obj in (s, Spheres([s])):
    try:
        t = obj.translated(0.5)
        print(type(obj).__name__, "translated(0.5) accepted; new centre", t.center)
        fail += 1
    except InvalidScatterer:
        print(type(obj).__name__, "translated(0.5) rejected (ok)")
    try:
        t = obj.translated([0.5, 0.5])
        print(type(obj).__name__, "translated([.5,.5]) accepted; new centre", t.center); fail += 1
    except InvalidScatterer:
        print("translated([.5,.5]) rejected with InvalidScatterer (ok)")
    except Exception as ex:
        print(type(obj).__name__, "translated([.5,.5]) RAISED", type(ex).__name__, "(not InvalidScatterer)")
print("VIOLATION" if fail else "ok")
sys.exit(1 if fail else 0)
