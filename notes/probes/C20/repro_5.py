import sys, os; sys.path.insert(0, os.getcwd())
import warnings
import numpy as np
import holopy
print("holopy from", holopy.__file__)

# Sphere collections have no bounds / voxelate / num_domains
from holopy.scattering.scatterer import Sphere, Spheres, Scatterers
fail = 0
for cls in (Spheres, Scatterers):
    S = cls([Sphere(n=1.5, r=1.0, center=(0, 0, 0)), Sphere(n=1.5, r=1.0, center=(3, 0, 0))])
    for name, f in (("bounds", lambda: S.bounds), ("voxelate", lambda: S.voxelate(0.5).shape),
                    ("voxelate_domains", lambda: S.voxelate_domains(0.5).shape), ("num_domains", lambda: S.num_domains)):
        try:
            print(cls.__name__, name, "->", f())
        except Exception as ex:
            fail += 1
            print(cls.__name__, name, "RAISED", type(ex).__name__, ex)
print("VIOLATION" if fail else "ok")
sys.exit(1 if fail else 0)
