import sys, os; sys.path.insert(0, os.getcwd())
import warnings
import numpy as np
import holopy
print("holopy from", holopy.__file__)

# malformed centres / negative semi-axes that get through validation
from holopy.scattering.scatterer import Sphere, Ellipsoid, Spheres
from holopy.scattering.errors import InvalidScatterer
fail = 0
def rejected(label, f):
    global fail
    try:
        o = f(); print(label, "ACCEPTED"); fail += 1; return o
    except InvalidScatterer:
        print(label, "rejected (ok)")
    except Exception as ex:
        print(label, "raised", type(ex).__name__, "(not InvalidScatterer)"); fail += 1
s = rejected("Sphere center 3x3 nested list", lambda: Sphere(n=1.5, r=1, center=[[0, 0, 0], [1, 1, 1], [2, 2, 2]]))
if s is not None:
    print("   contains([0,0,0]) ->", s.contains([0, 0, 0]), " bounds ->", s.bounds)
rejected("Sphere center dict", lambda: Sphere(n=1.5, r=1, center={0: 1, 1: 2, 2: 3}))
rejected("Sphere center 0-d array", lambda: Sphere(n=1.5, r=1, center=np.array(3.0)))
rejected("Sphere r=nan", lambda: Sphere(n=1.5, r=np.nan, center=(0, 0, 0)))
e = rejected("Ellipsoid r=(-1,1,1)", lambda: Ellipsoid(n=1.5, r=(-1, 1, 1), center=(0, 0, 0)))
if e is not None:
    print("   bounds ->", e.bounds, "(inverted on x)", "contains origin ->", e.contains([0, 0, 0]))
    try:
        print("   voxelate shape ->", e.voxelate(0.25).shape)
    except Exception as ex:
        print("   voxelate RAISED", type(ex).__name__, ex)
print("VIOLATION" if fail else "ok")
sys.exit(1 if fail else 0)
