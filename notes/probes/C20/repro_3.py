import sys, os; sys.path.insert(0, os.getcwd())
import warnings
import numpy as np
import holopy
print("holopy from", holopy.__file__)

# voxelate(spacing, medium_index) ignores medium_index
from holopy.scattering.scatterer import Sphere, Ellipsoid
fail = 0
for s in (Sphere(n=1.5, r=1.0, center=(0, 0, 0)), Ellipsoid(n=1.5, r=(1, 2, .5), center=(0, 0, 0)),
          Sphere(n=[1.5, 1.6], r=[.5, 1.0], center=(0, 0, 0))):
    v = s.voxelate(0.25, medium_index=1.33)
    print(type(s).__name__, "values present in voxelate(0.25, medium_index=1.33):", np.unique(v))
    if 1.33 not in np.unique(v) or 0 in np.unique(v):
        fail += 1
print("VIOLATION" if fail else "ok")
sys.exit(1 if fail else 0)
