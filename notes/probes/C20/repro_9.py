import sys, os; sys.path.insert(0, os.getcwd())
import warnings
import numpy as np
import holopy
print("holopy from", holopy.__file__)

# Spheroid / Capsule containment only works for 4-D (nx, ny, nz, 3) point grids; Cylinder / Bisphere have none
from holopy.scattering.scatterer import Spheroid, Capsule, Cylinder, Bisphere
fail = 0
for o in (Spheroid(n=1.5, r=(1, 2), center=(0, 0, 0)), Capsule(n=1.5, h=2, d=1, center=(0, 0, 0)),
          Cylinder(n=1.5, h=2, d=1, center=(0, 0, 0)), Bisphere(n=1.5, h=2, d=1, center=(0, 0, 0))):
    for label, p in (("single point", [0, 0, 0]), ("Nx3 cloud", np.zeros((5, 3))), ("grid", np.zeros((2, 2, 2, 3)))):
        try:
            print(type(o).__name__, label, "->", o.contains(p).shape)
        except Exception as ex:
            fail += 1
            print(type(o).__name__, label, "RAISED", type(ex).__name__, ex)
print("VIOLATION" if fail else "ok")
sys.exit(1 if fail else 0)
