import sys, os; sys.path.insert(0, os.getcwd())
import warnings
import numpy as np
import holopy
print("holopy from", holopy.__file__)

# LimitOverlaps (consumer of largest_overlap) scales the tolerance with the smallest *inner* layer radius, and crashes on mixed collections
from holopy.scattering.scatterer import Sphere, Spheres
from holopy.inference.model import LimitOverlaps
fail = 0
# two identical coated spheres, outer radius 1 (diameter 2), overlapping by 0.1 = 5 % of the diameter
a = Sphere(n=[1.5, 1.6], r=[0.1, 1.0], center=(0, 0, 0))
b = Sphere(n=[1.5, 1.6], r=[0.1, 1.0], center=(1.9, 0, 0))
S = Spheres([a, b], warn=False)
print("largest_overlap", S.largest_overlap())
ok = LimitOverlaps(fraction=0.1).check(S)
print("LimitOverlaps(0.1).check (overlap is 5% of diameter, limit 10%) ->", ok, "expected True")
if not ok:
    fail += 1
# same geometry with homogeneous spheres for reference
H = Spheres([Sphere(n=1.5, r=1.0, center=(0, 0, 0)), Sphere(n=1.5, r=1.0, center=(1.9, 0, 0))], warn=False)
print("homogeneous reference ->", LimitOverlaps(fraction=0.1).check(H))
# mixed collection
M = Spheres([a, Sphere(n=1.5, r=1.0, center=(1.9, 0, 0))], warn=False)
try:
    print("mixed ->", LimitOverlaps(fraction=0.1).check(M))
except Exception as ex:
    fail += 1
    print("mixed layered/plain collection RAISED", type(ex).__name__, ex)
print("VIOLATION" if fail else "ok")
sys.exit(1 if fail else 0)
