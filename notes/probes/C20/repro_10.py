import sys, os; sys.path.insert(0, os.getcwd())
import warnings
import numpy as np
import holopy
print("holopy from", holopy.__file__)

# largest_overlap is clamped at 0 instead of max(sum of radii - distance)
from holopy.scattering.scatterer import Sphere, Spheres
S = Spheres([Sphere(n=1.5, r=1.0, center=(0, 0, 0)), Sphere(n=1.5, r=1.0, center=(3, 0, 0)), Sphere(n=1.5, r=1.0, center=(0, 5, 0))])
got = S.largest_overlap()
print("largest_overlap", got, "max(sum r - d) =", -1.0)
sys.exit(1 if got != -1.0 else 0)
