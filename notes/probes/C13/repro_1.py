"""C13 finding: LeastSquaresScipyStrategy ignores the priors altogether
(scipyfit.py line 77: `np.append(residuals, zscore_prior)` result discarded, and
method='lm' cannot take bounds), so the fit leaves the prior's bounds, the reported
max_lnprob is -inf, i.e. worse than the starting guess.  Exit 1 when present."""
import sys, os; sys.path.insert(0, os.getcwd())
import warnings
import numpy as np
np.NaN = np.nan
import holopy as hp
from holopy.scattering import Sphere, calc_holo
from holopy.inference import prior, AlphaModel, NmpfitStrategy, LeastSquaresScipyStrategy
from holopy.core.metadata import detector_grid

bad = False
det = detector_grid(30, 0.1)
opt = dict(medium_index=1.33, illum_wavelen=0.66, illum_polarization=(1, 0))
data = calc_holo(det, Sphere(n=1.59, r=0.5, center=(1.6, 1.4, 8)), scaling=0.8, **opt)

def check(label, make_model):
    global bad
    for strat in [NmpfitStrategy(), LeastSquaresScipyStrategy()]:
        m = make_model()
        with warnings.catch_warnings():
            warnings.simplefilter('ignore')
            res = strat.fit(m, data)
        guess_lnpost = m.lnposterior(m.initial_guess, data)
        oob = {k: res.parameters[k] for k, p in m.parameters.items()
               if hasattr(p, 'lower_bound') and not (p.lower_bound <= res.parameters[k] <= p.upper_bound)}
        print(label, type(strat).__name__, {k: float(v) for k, v in res.parameters.items()})
        print('    out of bounds:', oob, ' lnposterior guess -> fit: %.4f -> %s' % (guess_lnpost, res.max_lnprob))
        if oob or res.max_lnprob < guess_lnpost:
            print('    VIOLATION')
            bad = True

# 1. non-absorbing particle, imaginary index has prior [0, 0.1] (truth on the bound)
check('imag-index', lambda: AlphaModel(
    Sphere(n=prior.ComplexPrior(prior.Uniform(1.4, 1.8, 1.585), prior.Uniform(0, 0.1, 0.001)),
           r=prior.Uniform(0.3, 0.8, 0.505),
           center=(prior.Uniform(0, 3, 1.61), prior.Uniform(0, 3, 1.39), prior.Uniform(4, 12, 8.05))),
    alpha=prior.Uniform(0.5, 1, 0.79), noise_sd=1))
# 2. prior on r excludes the generating value by 1 %
check('tight-r   ', lambda: AlphaModel(
    Sphere(n=1.59, r=prior.Uniform(0.505, 0.8, 0.51),
           center=(prior.Uniform(0, 3, 1.62), prior.Uniform(0, 3, 1.38), prior.Uniform(4, 12, 8.1))),
    alpha=prior.Uniform(0.5, 1, 0.78), noise_sd=1))
# 3. informative Gaussian prior: posterior gets (much) worse than at the guess
check('gauss-r   ', lambda: AlphaModel(
    Sphere(n=1.59, r=prior.Gaussian(0.51, 1e-4),
           center=(1.6, 1.4, prior.Uniform(4, 12, 8.05))),
    alpha=0.8, noise_sd=1))
sys.exit(1 if bad else 0)
