"""C13 finding: LeastSquaresScipyStrategy cannot fit multi-channel (e.g. two-colour) data that
NmpfitStrategy fits fine: scipyfit.py::fit.residual returns the 2-D (illumination x pixel)
residual array un-flattened (nmpfit.py calc_residuals calls .flatten()).  Exit 1 when present."""
import sys, os; sys.path.insert(0, os.getcwd())
import warnings
import numpy as np
np.NaN = np.nan
import xarray as xr
import holopy as hp
from holopy.scattering import Sphere, calc_holo
from holopy.inference import prior, AlphaModel, NmpfitStrategy, LeastSquaresScipyStrategy
from holopy.core.metadata import detector_grid

cols = {'illumination': ['red', 'green']}
wl = xr.DataArray([0.66, 0.532], dims=['illumination'], coords=cols)
det = detector_grid(24, 0.1, extra_dims=cols)
data = calc_holo(det, Sphere(n=1.59, r=0.5, center=(1.2, 1.1, 8)), medium_index=1.33, illum_wavelen=wl,
                 illum_polarization=(1, 0), scaling=0.8)
bad = False
for strat in [NmpfitStrategy(), NmpfitStrategy(npixels=200, seed=2), LeastSquaresScipyStrategy(), LeastSquaresScipyStrategy(npixels=200)]:
    m = AlphaModel(Sphere(n=1.59, r=prior.Uniform(0.3, 0.8, 0.51),
                          center=(prior.Uniform(0, 3, 1.22), prior.Uniform(0, 3, 1.08), prior.Uniform(4, 12, 8.1))),
                   alpha=prior.Uniform(0.5, 1, 0.78), noise_sd=1)
    try:
        with warnings.catch_warnings():
            warnings.simplefilter('ignore')
            res = strat.fit(m, data)
        print(type(strat).__name__, strat.npixels, 'ok', {k: round(float(v), 8) for k, v in res.parameters.items()})
    except Exception as e:
        print(type(strat).__name__, strat.npixels, 'VIOLATION', type(e).__name__, e)
        bad = True
sys.exit(1 if bad else 0)
