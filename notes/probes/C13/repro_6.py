"""C13 finding (objective inconsistent with the reported log-probability): NmpfitStrategy
adds prior residuals sqrt(lnprior(guess) - lnprior(p)); squared that is -Delta lnprior, but
the data residuals squared are -2*lnlike, so priors are under-weighted by a factor 2 and the
returned point is not the maximum of the posterior that FitResult.max_lnprob reports
(nmpfit.py calc_residuals line 143; scipyfit.py has the intended sqrt(2 * ...)).
Exit 1 when present."""
import sys, os; sys.path.insert(0, os.getcwd())
import warnings
import numpy as np
np.NaN = np.nan
from scipy.optimize import minimize
import holopy as hp
from holopy.scattering import Sphere, calc_holo
from holopy.inference import prior, AlphaModel, NmpfitStrategy
from holopy.core.metadata import detector_grid

det = detector_grid(30, 0.1)
data = calc_holo(det, Sphere(n=1.59, r=0.5, center=(1.6, 1.4, 8)), medium_index=1.33,
                 illum_wavelen=0.66, illum_polarization=(1, 0), scaling=0.8)
m = AlphaModel(Sphere(n=1.59, r=prior.Gaussian(0.51, 0.002), center=(1.6, 1.4, prior.Uniform(4, 12, 8.05))),
               alpha=0.8, noise_sd=0.01)
with warnings.catch_warnings():
    warnings.simplefilter('ignore')
    res = NmpfitStrategy().fit(m, data)
o = minimize(lambda p: -m.lnposterior(list(p), data), [res.parameters['r'], res.parameters['center.2']],
             method='Nelder-Mead', options=dict(xatol=1e-11, fatol=1e-9, maxiter=5000))
print('nmpfit result    ', res.parameters, 'lnposterior', res.max_lnprob)
print('posterior maximum', dict(zip(['r', 'center.2'], o.x)), 'lnposterior', -o.fun)
shift_fit = res.parameters['r'] - 0.5
shift_map = o.x[0] - 0.5
print('pull of r towards the prior mean: nmpfit %.3e, MAP %.3e, ratio %.3f (0.5 = prior weighted half)' %
      (shift_fit, shift_map, shift_fit / shift_map))
bad = (-o.fun) - res.max_lnprob > 1e-3
if bad:
    print('VIOLATION: a point with higher posterior exists next to the "best fit"')
sys.exit(1 if bad else 0)
