"""C13 finding: a FitResult produced by LeastSquaresScipyStrategy can never be
saved and reloaded (three different failure modes); NmpfitStrategy results can.
Exit 1 when present."""
import sys, os; sys.path.insert(0, os.getcwd())
import warnings, tempfile
import numpy as np
np.NaN = np.nan
import holopy as hp
from holopy.scattering import Sphere, calc_holo
from holopy.inference import prior, AlphaModel, NmpfitStrategy, LeastSquaresScipyStrategy
from holopy.core.metadata import detector_grid

det = detector_grid(30, 0.1)
data = calc_holo(det, Sphere(n=1.59, r=0.5, center=(1.6, 1.4, 8)), medium_index=1.33,
                 illum_wavelen=0.66, illum_polarization=(1, 0), scaling=0.8)
def model():
    s = Sphere(n=1.59, r=prior.Uniform(0.3, 0.8, 0.51),
               center=(prior.Uniform(0, 4, 1.65), prior.Uniform(0, 4, 1.35), prior.Uniform(4, 12, 8.2)))
    return AlphaModel(s, alpha=prior.Uniform(0.5, 1.0, 0.78), noise_sd=1)

bad = False
cases = [('nmpfit full image', NmpfitStrategy(), True),
         ('nmpfit 150 pixels', NmpfitStrategy(npixels=150, seed=1), True),
         ('scipy full image, untouched result', LeastSquaresScipyStrategy(), False),
         ('scipy full image, after reading .hologram', LeastSquaresScipyStrategy(), True),
         ('scipy 150 pixels', LeastSquaresScipyStrategy(npixels=150), False)]
for label, strat, touch in cases:
    with warnings.catch_warnings():
        warnings.simplefilter('ignore')
        res = strat.fit(model(), data)
        if touch:
            res.hologram; res.max_lnprob
        fn = tempfile.mktemp(suffix='.h5')
        stage = 'save'
        try:
            hp.save(fn, res)
            stage = 'load'
            back = hp.load(fn)
            same = (back.parameters == res.parameters and back.model == res.model
                    and back.strategy == res.strategy
                    and np.allclose(back.hologram.values, res.hologram.values)
                    and abs(back.max_lnprob - res.max_lnprob) < 1e-9)
            print('%-45s round trip ok, equivalent=%s' % (label, same))
            bad |= not same
        except Exception as e:
            print('%-45s FAILS in %s: %s: %s' % (label, stage, type(e).__name__, str(e).split('\n')[0][:110]))
            bad = True
sys.exit(1 if bad else 0)
