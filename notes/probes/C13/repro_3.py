"""C13 finding: NmpfitStrategy stalls far from the optimum (and reports convergence)
because third_party/nmpfit.py::mpfit.qrsolv saves the diagonal of R with
`x = numpy.diagonal(r)`, which is a *view* for numpy >= 1.9, so the diagonal is never
restored and every later Levenberg-Marquardt trial step inside lmpar is wrong.
Run from the checkout root.  Exit 1 when the violation is present."""
import sys, os; sys.path.insert(0, os.getcwd())
import warnings
import numpy as np
np.NaN = np.nan  # sandbox caveat (numpy 2)
import holopy as hp
from holopy.scattering import Sphere, calc_holo, MieLens
from holopy.inference import prior, AlphaModel, NmpfitStrategy, LeastSquaresScipyStrategy
from holopy.inference.third_party import nmpfit
from holopy.core.metadata import detector_grid

bad = False

# (a) low level: qrsolv must leave the upper triangle (incl. diagonal) of r unaltered
rng = np.random.default_rng(0)
J = rng.normal(size=(20, 3))
Q, R = np.linalg.qr(J)
f = rng.normal(size=20)
fitter = nmpfit.mpfit.__new__(nmpfit.mpfit)
fitter.debug = 0
r_in = R.copy()
D = np.array([1.0, 2.0, 3.0])
par = 0.7
r_out, x, sdiag = fitter.qrsolv(r_in.copy(), np.arange(3), np.sqrt(par) * D, Q.T @ f, np.zeros(3))
x_ref = np.linalg.solve(J.T @ J + par * np.diag(D**2), J.T @ f)
print("qrsolv solution ok:", np.allclose(x, x_ref))
print("diag(r) in :", np.diag(R))
print("diag(r) out:", np.diag(r_out))
if not np.allclose(np.diag(r_out), np.diag(R)):
    print("VIOLATION (root cause): qrsolv does not restore the diagonal of r")
    bad = True
# second call with the returned (corrupted) r, as lmpar does in its loop
par2 = 0.2
_, x2, _ = fitter.qrsolv(r_out, np.arange(3), np.sqrt(par2) * D, Q.T @ f, np.zeros(3))
x2_ref = np.linalg.solve(J.T @ J + par2 * np.diag(D**2), J.T @ f)
print("2nd qrsolv call: got", x2, "expected", x2_ref)
if not np.allclose(x2, x2_ref):
    bad = True

# (b) holopy level: noise-free MieLens hologram, guess within 1.3 % of the truth
kw = {'interpolate_integrals': False}   # sandbox caveat
det = detector_grid(24, 0.1)
true = Sphere(n=1.59, r=0.5, center=(1.2, 1.1, 8))
data = calc_holo(det, true, medium_index=1.33, illum_wavelen=0.66, illum_polarization=(1, 0),
                 scaling=0.8, theory=MieLens(lens_angle=0.8, calculator_accuracy_kwargs=kw))
def model():
    s = Sphere(n=1.59, r=prior.Uniform(0.3, 0.8, 0.505),
               center=(1.2, 1.1, prior.Uniform(4, 12, 8.05)))
    th = MieLens(lens_angle=prior.Uniform(0.5, 1.1, 0.81), calculator_accuracy_kwargs=kw)
    return AlphaModel(s, alpha=0.8, noise_sd=1, theory=th)
truth = {'r': 0.5, 'center.2': 8.0, 'lens_angle': 0.8}
for strat in [LeastSquaresScipyStrategy(), NmpfitStrategy()]:
    m = model()
    with warnings.catch_warnings():
        warnings.simplefilter('ignore')
        res = strat.fit(m, data)
    err = max(abs(res.parameters[k] - truth[k]) / truth[k] for k in truth)
    chi2 = float(((res.hologram - (data if res.hologram.ndim == 3 else res.data)).values ** 2).sum())
    extra = ''
    if hasattr(res, 'mpfit_details'):
        extra = 'status=%d converged=%s niter=%d' % (res.mpfit_details.status, res.mpfit_details.converged, res.mpfit_details.niter)
    print(type(strat).__name__, res.parameters, 'max rel err %.2e' % err, 'chi2 %.3e' % chi2, extra)
    if isinstance(strat, NmpfitStrategy) and err > 1e-4:
        print("VIOLATION: NmpfitStrategy does not recover the generating parameters "
              "(scipy LM does from the same guess) and reports convergence")
        bad = True
sys.exit(1 if bad else 0)
