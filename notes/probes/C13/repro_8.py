"""C13 finding (lower confidence): saving a FitResult whose model is an ExactModel with a
non-default calc_func silently drops calc_func (Model._iteritems / from_yaml); the reloaded
result compares equal (model == model) but its best-fit "hologram" and recomputed
log-probability come from calc_holo instead.  Exit 1 when present."""
import sys, os; sys.path.insert(0, os.getcwd())
import warnings, tempfile
import numpy as np
np.NaN = np.nan
import holopy as hp
from holopy.scattering import Sphere, calc_intensity
from holopy.inference import prior, ExactModel, NmpfitStrategy
from holopy.core.metadata import detector_grid

det = detector_grid(24, 0.1)
opt = dict(medium_index=1.33, illum_wavelen=0.66, illum_polarization=(1, 0))
data = calc_intensity(det, Sphere(n=1.59, r=0.5, center=(1.2, 1.1, 8)), **opt)
m = ExactModel(Sphere(n=1.59, r=prior.Uniform(0.3, 0.8, 0.51), center=(1.2, 1.1, prior.Uniform(4, 12, 8.1))),
               calc_func=calc_intensity, noise_sd=1)
with warnings.catch_warnings():
    warnings.simplefilter('ignore')
    res = NmpfitStrategy().fit(m, data)
    best = res.hologram.values.copy()
    fn = tempfile.mktemp(suffix='.h5')
    hp.save(fn, res)
    back = hp.load(fn)
print('fit', res.parameters)
print('calc_func before:', res.model.calc_func.__name__, ' after reload:', back.model.calc_func.__name__)
print('models compare equal:', back.model == res.model)
d = float(np.abs(back.hologram.values - best).max())
print('max |reloaded.hologram - original.hologram| =', d)
print('lnposterior recomputed by reloaded model %.3f vs original %.3f' %
      (back.model.lnposterior(back.parameters, back.data), res.max_lnprob))
sys.exit(1 if d > 1e-9 else 0)
