"""C13 finding: with exactly ONE free parameter NmpfitStrategy returns the initial guess
(status 2, converged=True, tiny error bar) instead of the optimum, because
third_party/nmpfit.py::mpfit.lmpar skips the Gauss-Newton back-substitution when
nsing == 1 (`if nsing > 1:` should be `if nsing >= 1:`).  Exit 1 when present."""
import sys, os; sys.path.insert(0, os.getcwd())
import warnings
import numpy as np
np.NaN = np.nan
import holopy as hp
from holopy.scattering import Sphere, calc_holo
from holopy.inference import prior, AlphaModel, NmpfitStrategy, LeastSquaresScipyStrategy
from holopy.inference.third_party import nmpfit
from holopy.core.metadata import detector_grid

bad = False
# (a) bare minimiser on a linear one-parameter problem: one LM step should solve it
a = np.linspace(-1, 2, 50)
r = nmpfit.mpfit(lambda p, fjac=None: [0, a * (p[0] - 2.0)],
                 parinfo=[{'parname': 'p', 'value': 1.0, 'limited': [False, False], 'limits': [0, 0]}],
                 quiet=True, ftol=1e-10, xtol=1e-10, gtol=1e-10)
print('linear 1-parameter problem: params', r.params, 'status', r.status, 'niter', r.niter, '(expected 2.0 in ~2 iterations)')
if abs(r.params[0] - 2.0) > 1e-9 or r.niter > 10:
    bad = True

# (b) holopy: only the radius is free, guess 2 % off
det = detector_grid(30, 0.1)
data = calc_holo(det, Sphere(n=1.59, r=0.5, center=(1.6, 1.4, 8)), medium_index=1.33,
                 illum_wavelen=0.66, illum_polarization=(1, 0), scaling=0.8)
for strat in [LeastSquaresScipyStrategy(), NmpfitStrategy()]:
    m = AlphaModel(Sphere(n=1.59, r=prior.Uniform(0.3, 0.8, 0.51), center=(1.6, 1.4, 8)), alpha=0.8, noise_sd=1)
    with warnings.catch_warnings():
        warnings.simplefilter('ignore')
        res = strat.fit(m, data)
    extra = ''
    if hasattr(res, 'mpfit_details'):
        extra = 'status=%d converged=%s niter=%d' % (res.mpfit_details.status, res.mpfit_details.converged, res.mpfit_details.niter)
    print(type(strat).__name__, res.parameters, res.intervals[0], extra)
    if abs(res.parameters['r'] - 0.5) > 1e-6:
        print('VIOLATION: generating radius 0.5 not recovered, fit did not move from the guess')
        bad = True
sys.exit(1 if bad else 0)
