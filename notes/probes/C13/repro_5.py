"""C13 finding: hp.fit(data, scatterer, parameters=[... 'x'/'y'/'z' ...]) raises TypeError
when the bare scatterer's center is a tuple (the form the library itself documents:
"center should be specified as (x, y, z)"); it works for a list or ndarray center.
interface.py::replace_center does `parameters['center'][index] = val` on the tuple.
Exit 1 when present."""
import sys, os; sys.path.insert(0, os.getcwd())
import warnings
import numpy as np
np.NaN = np.nan
import holopy as hp
from holopy.scattering import Sphere, Spheres, calc_holo
from holopy.core.metadata import detector_grid

det = detector_grid(30, 0.1)
opt = dict(medium_index=1.33, illum_wavelen=0.66, illum_polarization=(1, 0))
data = calc_holo(det, Sphere(n=1.59, r=0.5, center=(1.6, 1.4, 8)), scaling=0.8, **opt)
bad = False
for center in [[1.62, 1.38, 8.1], np.array([1.62, 1.38, 8.1]), (1.62, 1.38, 8.1)]:
    guess = Sphere(n=1.59, r=0.51, center=center)
    for pars in [None, ['center'], ['r', 'x', 'y', 'z']]:
        try:
            with warnings.catch_warnings():
                warnings.simplefilter('ignore')
                res = hp.fit(data, guess, parameters=pars)
            print(type(center).__name__, pars, 'ok', {k: round(float(v), 6) for k, v in res.parameters.items()})
        except TypeError as e:
            print(type(center).__name__, pars, 'VIOLATION TypeError:', e)
            bad = True
sys.exit(1 if bad else 0)
