"""C13 side finding: the documented option NmpfitStrategy(quiet=False) crashes for any model
whose priors were not given explicit names (nmpfit.py::minimize passes 'parname': par.name,
which is None; should use the model's parameter names).  Exit 1 when present."""
import sys, os; sys.path.insert(0, os.getcwd())
import numpy as np
np.NaN = np.nan
import holopy as hp
from holopy.scattering import Sphere, calc_holo
from holopy.inference import prior, AlphaModel, NmpfitStrategy
from holopy.core.metadata import detector_grid
det = detector_grid(20, 0.1)
data = calc_holo(det, Sphere(n=1.59, r=0.5, center=(1.0, 1.0, 8)), medium_index=1.33,
                 illum_wavelen=0.66, illum_polarization=(1, 0), scaling=0.8)
m = AlphaModel(Sphere(n=1.59, r=prior.Uniform(0.3, 0.8, 0.51), center=(1.0, 1.0, prior.Uniform(4, 12, 8.1))),
               alpha=0.8, noise_sd=1)
try:
    res = NmpfitStrategy(quiet=False).fit(m, data)
    print('ok', res.parameters); sys.exit(0)
except TypeError as e:
    print('VIOLATION TypeError:', e); sys.exit(1)
