"""C16 finding 8: colour images that are one pixel wide/high cannot be loaded
(load_image squeezes every singleton axis, not only the channel axis), and
data_grid cannot build a (1, N, nchannel) image."""
import sys, os; sys.path.insert(0, os.getcwd())
import warnings; warnings.simplefilter('ignore')
import tempfile
import numpy as np
from PIL import Image
from holopy.core.io import load_image
from holopy.core.metadata import data_grid

td = tempfile.mkdtemp()
rng = np.random.default_rng(0)
bad = False
for shape in [(5, 7, 3), (1, 6, 3), (6, 1, 3)]:
    arr = rng.integers(0, 255, shape).astype('uint8')
    f = os.path.join(td, 'c%dx%d.png' % shape[:2]); Image.fromarray(arr).save(f)
    for ch in [1, [0, 2]]:
        try:
            im = load_image(f, spacing=(0.1, 0.3), channel=ch)
            exp = arr[:, :, ch]
            ok = np.array_equal(im.values[0], exp)
            print(shape, 'channel', ch, '->', im.shape, 'OK' if ok else 'WRONG')
            bad |= not ok
        except Exception as e:
            print(shape, 'channel', ch, 'raised', type(e).__name__, ':', e)
            bad = True
try:
    data_grid(np.zeros((1, 6, 2)), spacing=0.1, extra_dims={'illumination': ['red', 'green']})
    print('data_grid (1,6,2) OK')
except Exception as e:
    print('data_grid (1,6,2) raised', type(e).__name__, ':', e); bad = True
sys.exit(1 if bad else 0)
