"""C16 finding 1: the image returned by load_average (single channel, >1 file)
carries noise_sd as a 0-dimensional xarray.DataArray.  hp.save() writes it
(HDF5 and TIFF) without complaint but hp.load() of the file raises, so the
averaged background cannot be round-tripped."""
import sys, os; sys.path.insert(0, os.getcwd())
import warnings; warnings.simplefilter('ignore')
import tempfile
import numpy as np, xarray as xr
from PIL import Image
import holopy as hp
from holopy.core.io import load_average
from holopy.core.metadata import data_grid

td = tempfile.mkdtemp()
rng = np.random.default_rng(0)
files = []
for i in range(3):
    f = os.path.join(td, 'bg%d.png' % i)
    Image.fromarray(rng.integers(50, 200, (6, 8)).astype('uint8')).save(f)
    files.append(f)
bg = load_average(files, spacing=0.1, medium_index=1.33, illum_wavelen=0.66,
                  illum_polarization=(1, 0))
print('load_average noise_sd:', type(bg.noise_sd).__name__, 'dims', bg.noise_sd.dims,
      'value', float(bg.noise_sd))

bad = False
for label, im in [('load_average result', bg),
                  ('data_grid(noise_sd=xr.DataArray(0.05))',
                   data_grid(rng.random((4, 5)), spacing=0.1, noise_sd=xr.DataArray(0.05)))]:
    for ext in ['.h5', '.tif']:
        f = os.path.join(td, 'out' + ext)
        if os.path.exists(f): os.remove(f)
        hp.save(f, im)                       # succeeds
        try:
            l = hp.load(f)
            ok = np.isclose(float(l.noise_sd), float(im.noise_sd))
            print(label, ext, 'loaded, noise_sd =', l.noise_sd, 'OK' if ok else 'WRONG')
            bad |= not ok
        except Exception as e:
            print(label, ext, 'save OK but load raised', type(e).__name__, ':', e)
            bad = True
sys.exit(1 if bad else 0)
