"""C16 finding 3: save_image with depth=16 (or 32) and any scaling that maps the
image into [0, 1] (the default 'auto') raises TypeError: dtype 'int15'."""
import sys, os; sys.path.insert(0, os.getcwd())
import warnings; warnings.simplefilter('ignore')
import tempfile
import numpy as np
import holopy as hp
from holopy.core.io import save_image
from holopy.core.metadata import data_grid

td = tempfile.mkdtemp()
im = data_grid(np.random.default_rng(0).random((5, 7)) * 37, spacing=0.1, medium_index=1.33)
bad = False
for depth in [16, 32]:
    f = os.path.join(td, 'd%d.tif' % depth)
    try:
        save_image(f, im, depth=depth)
        l = hp.load(f)
        err = float(np.abs(l.values - im.values).max())
        print('depth', depth, 'round trip max err', err)
        bad |= err > 37 / 2 ** 14
    except Exception as e:
        print('depth', depth, 'raised', type(e).__name__, ':', e)
        bad = True
sys.exit(1 if bad else 0)
