"""C16 finding 6: a constant image (e.g. a fresh detector_grid of zeros, or a
saturated frame) saved as TIFF with the default 'auto' scaling is loaded back as NaN."""
import sys, os; sys.path.insert(0, os.getcwd())
import warnings; warnings.simplefilter('ignore')
import tempfile
import numpy as np
import holopy as hp
from holopy.core.metadata import data_grid

td = tempfile.mkdtemp()
bad = False
for c in [0.0, 3.0]:
    im = data_grid(np.full((4, 5), c), spacing=0.1, medium_index=1.33)
    f = os.path.join(td, 'const%g.tif' % c)
    hp.save(f, im)
    l = hp.load(f)
    print('constant', c, '-> loaded values', np.unique(l.values))
    bad |= not np.allclose(l.values, c)
sys.exit(1 if bad else 0)
