"""C16 finding 5: metadata that yaml.dump writes with a python-specific tag
(a Python complex medium index of an absorbing medium, numpy scalars other than
float64/int64/int32/complex128) is saved by hp.save but hp.load raises
ConstructorError, because pack_attrs uses yaml.dump and unpack_attrs yaml.safe_load."""
import sys, os; sys.path.insert(0, os.getcwd())
import warnings; warnings.simplefilter('ignore')
import tempfile
import numpy as np
import holopy as hp
from holopy.core.metadata import data_grid

td = tempfile.mkdtemp()
rng = np.random.default_rng(0)
bad = False
for label, kw in [('medium_index=1.33+0.01j', dict(medium_index=1.33 + 0.01j)),
                  ('illum_wavelen=np.float32(0.66)', dict(illum_wavelen=np.float32(0.66))),
                  ('noise_sd=np.float32(0.1)', dict(noise_sd=np.float32(0.1))),
                  ('medium_index=np.complex128 (control)', dict(medium_index=np.complex128(1.33 + 0.01j)))]:
    im = data_grid(rng.random((4, 5)), spacing=0.1, **kw)
    for ext in ['.h5', '.tif']:
        f = os.path.join(td, 'm' + ext)
        if os.path.exists(f): os.remove(f)
        hp.save(f, im)
        try:
            l = hp.load(f)
            k = list(kw)[0]
            ok = l.attrs[k] == kw[k]
            print(label, ext, '->', repr(l.attrs[k]), 'OK' if ok else 'WRONG')
            bad |= not ok
        except Exception as e:
            print(label, ext, 'save OK, load raised', type(e).__name__, ':', str(e).splitlines()[0])
            bad = True
sys.exit(1 if bad else 0)
