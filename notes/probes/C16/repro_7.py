"""C16 finding 7: update_metadata does not normalise the polarization when it is
given as a DataArray that already has a 'vector' coordinate (to_vector returns it
untouched), and normalises complex Jones vectors with sum(c**2) instead of sum(|c|**2)."""
import sys, os; sys.path.insert(0, os.getcwd())
import warnings; warnings.simplefilter('ignore')
import numpy as np, xarray as xr
from holopy.core.metadata import data_grid, update_metadata

im = data_grid(np.zeros((4, 5)), spacing=0.1, illum_polarization=(1, 0))
bad = False
pol = xr.DataArray([3., 4., 0.], coords={'vector': ['x', 'y', 'z']}, dims='vector')
for label, p in [('tuple (3,4)', (3, 4)), ('DataArray [3,4,0] with vector coord', pol),
                 ('complex (1, 2j)', (1, 2j)), ('circular (1, 1j)', (1, 1j))]:
    new = update_metadata(im, illum_polarization=p)
    v = new.illum_polarization.values
    norm = np.sqrt((np.abs(v) ** 2).sum())
    print(label, '->', v, ' |pol| =', norm)
    bad |= not np.isclose(norm, 1)
sys.exit(1 if bad else 0)
