"""C16 finding 2: save_image(..., scaling=(smin, smax)) followed by hp.load
does not recover the values: load() stretches the stored data so that its own
min/max hit smin/smax instead of inverting the mapping smin->0, smax->full scale."""
import sys, os; sys.path.insert(0, os.getcwd())
import warnings; warnings.simplefilter('ignore')
import tempfile
import numpy as np
import holopy as hp
from holopy.core.io import save_image
from holopy.core.metadata import data_grid

td = tempfile.mkdtemp()
rng = np.random.default_rng(0)
im = data_grid(rng.random((5, 7)) * 10 + 20, spacing=(0.1, 0.3), medium_index=1.33)  # values in [20, 30]
bad = False
for depth in [8, 'float']:
    f = os.path.join(td, 'scaled_%s.tif' % depth)
    save_image(f, im, scaling=(0, 100), depth=depth)     # no clipping: data well inside (0, 100)
    l = hp.load(f)
    err = float(np.abs(l.values - im.values).max())
    quantum = 100 / 255 if depth == 8 else 1e-5
    print('depth', depth, ': original range [%.3f, %.3f]' % (im.min(), im.max()),
          'loaded range [%.3f, %.3f]' % (l.min(), l.max()), 'max abs error %.3f' % err,
          '(quantisation step %.3g)' % quantum)
    bad |= err > quantum
sys.exit(1 if bad else 0)
