"""C16 finding 9: load_average(files, refimg, spacing=s) with s different from the
spacing of refimg ("used preferentially over refimg value") returns an image whose
coordinates are those of refimg (spacing ignored) and whose pixels are a
duplicated/decimated selection, not the pixelwise mean."""
import sys, os; sys.path.insert(0, os.getcwd())
import warnings; warnings.simplefilter('ignore')
import tempfile
import numpy as np
from PIL import Image
from holopy.core.io import load_average, load_image
from holopy.core.metadata import get_spacing

td = tempfile.mkdtemp()
rng = np.random.default_rng(0)
arrs = [rng.integers(1, 255, (6, 9)).astype('uint8') for i in range(3)]
files = []
for i, a in enumerate(arrs):
    f = os.path.join(td, 'a%d.png' % i); Image.fromarray(a).save(f); files.append(f)
mean = np.mean(np.stack(arrs).astype(float), axis=0)
ref = load_image(files[0], spacing=(0.1, 0.2), medium_index=1.33)
r = load_average(files, ref, spacing=(0.2, 0.4))
print('requested spacing (0.2, 0.4); result spacing', get_spacing(r), 'shape', r.shape)
same_shape = r.shape[1:] == mean.shape
err = float(np.abs(r.values[0] - mean).max()) if same_shape else np.inf
print('max |result - pixelwise mean| =', err)
bad = (not np.allclose(get_spacing(r), (0.2, 0.4))) or err > 1e-9
sys.exit(1 if bad else 0)
