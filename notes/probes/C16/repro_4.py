"""C16 finding 4: save_image(scaling=None) ("no scaling") of an image whose
maximum is <= 1 is silently multiplied by 255 in _save_im, and since no
_image_scaling is recorded hp.load returns values 255x too large."""
import sys, os; sys.path.insert(0, os.getcwd())
import warnings; warnings.simplefilter('ignore')
import tempfile
import numpy as np
import holopy as hp
from holopy.core.io import save_image
from holopy.core.metadata import data_grid

td = tempfile.mkdtemp()
im = data_grid(np.random.default_rng(0).random((5, 7)), spacing=0.1, medium_index=1.33)   # in [0, 1)
f = os.path.join(td, 'noscale.tif')
save_image(f, im, scaling=None)
l = hp.load(f)
print('original range [%.4f, %.4f]' % (im.min(), im.max()), ' loaded range [%.4f, %.4f]' % (l.min(), l.max()))
err = float(np.abs(l.values - im.values).max())
print('max abs error', err, '(an 8-bit quantisation of a [0,1] image would give <= 1/510)')
sys.exit(1 if err > 1 / 255 else 0)
