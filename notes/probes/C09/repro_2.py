"""C09 finding 2: the off-diagonal amplitude-scattering-matrix elements S3, S4
produced by the Multisphere theory have the wrong sign (the -0.5 "fudge factor"
that converts Mackowski's s1..s4 to the Bohren&Huffman matrix was calibrated on
single spheres, for which S3 = S4 = 0).  Consequences shown here:

 (a) rotating the whole configuration (cluster + polarisation) about the optical
     axis changes calc_cross_sections (C_ext, C_abs) -- covariance violated;
 (b) same for calc_field at a detector point on the axis through the cluster
     centre (the computed field is discontinuous on that axis);
 (c) root-cause check: with the interactions switched off (niter=0) the
     multi-sphere field must equal the Mie superposition; it does only after
     the sign of S3 and S4 is flipped;
 (d) physics check: a Rayleigh dimer is more polarisable along its axis, so for
     a dimer along (1,1,0) and x-polarised light the forward-scattered E_y must
     have the SAME sign as E_x; Multisphere gives the opposite sign.

Run from the checkout root. Exit status 1 when the violation is present.
"""
import sys, os; sys.path.insert(0, os.getcwd())
import warnings
import numpy as np
warnings.filterwarnings('ignore')
import holopy as hp
from holopy.scattering import (Sphere, Spheres, calc_field, calc_cross_sections,
                               Mie, Multisphere)

print('holopy from', hp.__file__)
kw = dict(medium_index=1.33, illum_wavelen=0.66)
k = 2 * np.pi * 1.33 / 0.66
tight = dict(eps=1e-12, qeps1=1e-10, qeps2=1e-12)


def Rz(a):
    return np.array([[np.cos(a), -np.sin(a), 0], [np.sin(a), np.cos(a), 0],
                     [0, 0, 1]])


def dimer(angle, r, n, c=(0, 0, 10.)):
    u = np.array([np.cos(angle), np.sin(angle), 0.])
    c = np.array(c)
    return Spheres([Sphere(n=n, r=r, center=c - 1.01 * r * u),
                    Sphere(n=n, r=r, center=c + 1.01 * r * u)])


violated = False
th = Multisphere(**tight)

# ---- (a) cross sections -----------------------------------------------------
print('(a) calc_cross_sections, non-absorbing polystyrene dimer r=0.25, '
      'polarisation always parallel to the dimer axis')
ref = None
for a in (0.0, np.pi / 6, np.pi / 4, np.pi / 2):
    x = calc_cross_sections(dimer(a, 0.25, 1.59),
                            illum_polarization=(np.cos(a), np.sin(a)),
                            theory=th, **kw).values
    if ref is None:
        ref = x
    print(f'    rotation {np.degrees(a):5.1f} deg: C_scat={x[0]:.6f} '
          f'C_abs={x[1]:+.6f} C_ext={x[2]:.6f}')
    if abs(x[2] - ref[2]) > 1e-4 * ref[2]:
        violated = True
xperp = calc_cross_sections(dimer(0, 0.25, 1.59), illum_polarization=(0, 1),
                            theory=th, **kw).values
print(f'    (dimer along x, polarisation PERPENDICULAR: C_ext={xperp[2]:.6f}'
      ' <- this is what the 45 deg case returns)')

# ---- (b) field on the axis ---------------------------------------------------
print('(b) calc_field at the detector point on the axis through the cluster '
      'centre')
det0 = hp.detector_points(x=[0.], y=[0.], z=[0.])
for r, n in [(0.03, 2.0), (0.25, 1.59)]:
    f0 = calc_field(det0, dimer(0, r, n), illum_polarization=(1, 0), theory=th,
                    **kw).values[0]
    for a in (np.pi / 6, np.pi / 4):
        f = calc_field(det0, dimer(a, r, n),
                       illum_polarization=(np.cos(a), np.sin(a)), theory=th,
                       **kw).values[0]
        expect = Rz(a) @ f0
        err = np.abs(f - expect)[:2].max() / np.abs(expect).max()
        print(f'    r={r} n={n} rotation {np.degrees(a):.0f} deg: relative '
              f'deviation from the rotated field = {err:.3e}')
        if err > 1e-6:
            violated = True

# ---- (c) no-interaction limit vs Mie superposition ---------------------------
print('(c) Multisphere(niter=0) vs Mie superposition, tangential field, random '
      'points at kr = 40..300')
S = Spheres([Sphere(n=1.59, r=0.3, center=(0, 0, 0)),
             Sphere(n=1.45, r=0.25, center=(0.5, 0.7, 0.2)),
             Sphere(n=1.7, r=0.2, center=(-0.6, 0.3, -0.4))])
cen = S.center
rng = np.random.default_rng(3)
thn = Multisphere(niter=0, qeps1=1e-10, qeps2=1e-12)
worst_asis = np.zeros(4)
worst_flip = np.zeros(4)
for i in range(25):
    t = rng.uniform(0.05, 1.2); p = rng.uniform(0, 2 * np.pi)
    kR = rng.uniform(40, 300); R = kR / k
    pt = cen + R * np.array([np.sin(t) * np.cos(p), np.sin(t) * np.sin(p),
                             -np.cos(t)])       # holopy z is minus propagation
    det = hp.detector_points(x=[pt[0]], y=[pt[1]], z=[pt[2]])
    thh = np.array([np.cos(t) * np.cos(p), np.cos(t) * np.sin(p), -np.sin(t)])
    phh = np.array([-np.sin(p), np.cos(p), 0])
    el = []
    # incident field parallel / perpendicular (B&H) to this scattering plane
    for pol in [(np.cos(p), np.sin(p)), (np.sin(p), -np.cos(p))]:
        fm = calc_field(det, S, illum_polarization=pol, theory=Mie(),
                        **kw).values[0] * kR
        ft = calc_field(det, S, illum_polarization=pol, theory=thn,
                        **kw).values[0] * kR
        el += [(fm @ thh, ft @ thh), (-(fm @ phh), -(ft @ phh))]
    (S2, S4, S3, S1) = el            # each (mie, multisphere)
    sc = abs(S2[0])
    for j, (m_, t_) in enumerate((S2, S1, S3, S4)):
        worst_asis[j] = max(worst_asis[j], abs(m_ - t_) / sc)
        sgn = -1 if j >= 2 else 1
        worst_flip[j] = max(worst_flip[j], abs(m_ - sgn * t_) / sc)
print('    max |MS - Mie|/|S2| for (S2, S1, S3, S4) as computed      :',
      np.array2string(worst_asis, precision=2))
print('    same after flipping the sign of the Multisphere S3 and S4 :',
      np.array2string(worst_flip, precision=2))
if worst_asis[2:].max() > 100 * worst_flip[2:].max():
    violated = True

# ---- (d) physics: sign of the depolarised forward field ----------------------
f = calc_field(hp.detector_points(x=[0.], y=[0.], z=[-40.]),
               dimer(np.pi / 4, 0.03, 2.0), illum_polarization=(1, 0),
               theory=th, **kw).values[0]
ratio = f[1] / f[0]
print(f'(d) Rayleigh dimer along (1,1,0), x-polarised: forward E_y/E_x = '
      f'{ratio:.4f} (electrostatic coupled-dipole estimate: about +0.06)')
if ratio.real < 0:
    violated = True

print('VIOLATION (rotation covariance / wrong sign of S3,S4)' if violated
      else 'no violation')
sys.exit(1 if violated else 0)
