"""C09 finding 6 (minor): "a non-scatterer: a clear error".
interface.determine_default_theory_for raises the clear AutoTheoryFailed for a
non-scatterer, but every public entry point (calc_holo, calc_field,
calc_intensity, calc_scat_matrix, calc_cross_sections) calls
validate_scatterer(scatterer) BEFORE interpret_theory, so what the user gets is
an AttributeError about a missing 'parameters' attribute and the
AutoTheoryFailed branch is unreachable through the API.

Run from the checkout root. Exit status 1 when the violation is present.
"""
import sys, os; sys.path.insert(0, os.getcwd())
import warnings; warnings.filterwarnings('ignore')
import holopy as hp
from holopy.scattering import calc_holo, calc_field, calc_cross_sections
from holopy.scattering.errors import AutoTheoryFailed
from holopy.scattering.interface import determine_default_theory_for

det = hp.detector_grid(shape=(4, 4), spacing=0.3)
kw = dict(medium_index=1.33, illum_wavelen=0.66, illum_polarization=(1, 0))
violated = False
for bad in ('sphere', None, 3.0):
    try:
        determine_default_theory_for(bad)
    except Exception as e:
        print(f'determine_default_theory_for({bad!r}) -> {type(e).__name__}')
    for fn, args in ((calc_holo, (det, bad)), (calc_field, (det, bad)),
                     (calc_cross_sections, (bad,))):
        try:
            fn(*args, **kw)
        except AutoTheoryFailed as e:
            print(f'   {fn.__name__}: AutoTheoryFailed (clear)')
        except Exception as e:
            print(f'   {fn.__name__}: {type(e).__name__}: {e}')
            violated = True
print('VIOLATION (unclear error for a non-scatterer)' if violated else 'no violation')
sys.exit(1 if violated else 0)
