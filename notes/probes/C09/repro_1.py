"""C09 finding 1: the Multisphere solution depends on the ORDER in which the
spheres are listed (N >= 3 spheres whose single-sphere expansion orders differ),
and the biconjugate-gradient solver (meth=0) fails to converge for some orderings
of a cluster that other orderings solve in 2-3 iterations.

Run from the checkout root:  /venv/bin/python /tmp/probe_out/C09/repro_1.py
Exit status 1 when the violation is present.
"""
import sys, os; sys.path.insert(0, os.getcwd())
import itertools, warnings
import numpy as np
warnings.filterwarnings('ignore')
import holopy as hp
from holopy.scattering import Sphere, Spheres, calc_holo, Multisphere
from holopy.scattering.errors import MultisphereFailure

print('holopy from', hp.__file__)
det = hp.detector_grid(shape=(32, 32), spacing=0.2)
kw = dict(medium_index=1.33, illum_wavelen=0.66, illum_polarization=(1, 0))


def chain(rs, n, z=10.0, gap=1.01):
    """non-overlapping chain of spheres along x (kR of the largest = 8.9)"""
    x, out = 0.0, []
    for i, r in enumerate(rs):
        if i > 0:
            x += (rs[i - 1] + r) * gap
        out.append(Sphere(n=n, r=r, center=(2.7 + x, 3.2, z)))
    return out


violated = False
for rs, n in [((0.1, 0.7, 0.35), 1.8), ((0.2, 0.5, 0.35), 1.59)]:
    spheres = chain(rs, n)
    assert not Spheres(spheres).overlaps
    for meth in (1, 0):
        holos, status = [], []
        for p in itertools.permutations(range(3)):
            try:
                h = calc_holo(det, Spheres([spheres[i] for i in p]),
                              theory=Multisphere(meth=meth), **kw).values
                holos.append(h)
                status.append('ok')
            except MultisphereFailure:
                status.append('MultisphereFailure')
        holos = np.array(holos)
        spread = np.abs(holos - holos[0]).max()
        contrast = np.abs(holos[0] - 1).max()
        print(f'radii={rs} n={n} meth={meth}: max |holo(perm) - holo(perm0)| = '
              f'{spread:.3e} (hologram contrast {contrast:.2f}); status per '
              f'permutation = {status}')
        # the order-of-scattering iteration is a Jacobi sweep and the system is
        # the same whatever the ordering: anything above ~1e-9 is not round-off
        if spread > 1e-6 or len(set(status)) > 1:
            violated = True

# default theory ('auto' -> Multisphere) shows the same thing
spheres = chain((0.1, 0.7, 0.35), 1.8)
h_a = calc_holo(det, Spheres(spheres), **kw).values
h_b = calc_holo(det, Spheres(spheres[::-1]), **kw).values
print('theory="auto": max |holo(order) - holo(reversed order)| =',
      np.abs(h_a - h_b).max())

print('VIOLATION (order dependence)' if violated else 'no violation')
sys.exit(1 if violated else 0)
