"""C09 finding 3: Multisphere silently truncates the expansions at the
compile-time limits nod=32 (single-sphere order) and notd=70 (cluster order)
and returns wrong fields without error or warning, for inputs inside the
documented / quantified range (sphere size parameter < 1000 in the docstring,
kR < ~80 in the property, spheres within 30 radii for theory='auto').

 (a) one-sphere cluster, size parameter x = 35..60: Multisphere differs from the
     Lorenz-Mie solution by 40-100 % (agreement is ~1e-4 up to x ~ 25);
 (b) two r=0.5 spheres 12.5 um apart along x (25 radii, so theory='auto'
     selects Multisphere; k * half-separation = 79): the hologram differs from
     the Mie superposition by the full fringe contrast, whereas at 10 um
     separation the two agree to a few %, and just beyond the 30-radius rule
     (where 'auto' switches to Mie) the result jumps.

Run from the checkout root. Exit status 1 when the violation is present.
"""
import sys, os; sys.path.insert(0, os.getcwd())
import warnings
import numpy as np
import holopy as hp
from holopy.scattering import Sphere, Spheres, calc_field, calc_holo, Mie, Multisphere
from holopy.scattering.interface import determine_default_theory_for

print('holopy from', hp.__file__)
kw = dict(medium_index=1.33, illum_wavelen=0.66, illum_polarization=(1, 0))
k = 2 * np.pi * 1.33 / 0.66
violated = False

print('(a) one-sphere cluster: Multisphere(compute_escat_radial=True) vs Mie()')
det = hp.detector_grid(shape=(9, 11), spacing=(0.2, 0.15))
for x in (10, 20, 25, 30, 35, 40, 60):
    r = x / k
    s = Sphere(n=1.59, r=r, center=(0.7, 1.1, max(5, 3 * r)))
    with warnings.catch_warnings(record=True) as w:
        warnings.simplefilter('always')
        fm = calc_field(det, s, theory=Mie(), **kw).values
        fs = calc_field(det, Spheres([s]),
                        theory=Multisphere(compute_escat_radial=True), **kw).values
    err = np.abs(fs - fm).max() / np.abs(fm).max()
    print(f'    x = k*r = {x:3d}: max relative field difference = {err:.2e};'
          f' warnings raised: {len(w)}')
    if x >= 35 and err > 0.05 and len(w) == 0:
        violated = True

print('(b) two r=0.5 spheres separated along x; default theory')
det = hp.detector_grid(shape=(30, 30), spacing=0.4)
for sep in (10.0, 12.5, 14.9, 15.1):
    S = Spheres([Sphere(n=1.59, r=0.5, center=(6, 6, 20)),
                 Sphere(n=1.59, r=0.5, center=(6 + sep, 6, 20))])
    auto = type(determine_default_theory_for(S)).__name__
    with warnings.catch_warnings(record=True) as w:
        warnings.simplefilter('always')
        ha = calc_holo(det, S, **kw).values
    hm = calc_holo(det, S, theory=Mie(), **kw).values
    d = np.abs(ha - hm).max()
    c = np.abs(hm - 1).max()
    print(f'    separation {sep:5.1f} um ({sep/0.5:.0f} radii, k*sep/2 = '
          f'{k*sep/2:.0f}): auto -> {auto:11s} max|holo_auto - holo_Mie_superposition|'
          f' = {d:.3f} (contrast {c:.2f}); warnings: {len(w)}')
    if auto == 'Multisphere' and d > 0.5 * c and len(w) == 0:
        violated = True

print('VIOLATION (silent truncation at nod/notd)' if violated else 'no violation')
sys.exit(1 if violated else 0)
