"""C09 finding 5: the radial field component of the Multisphere solution
(Multisphere(compute_escat_radial=True)) is wrong for every cluster that is not
a chain along the optical axis: ms_radial_fields (uts_scsmfo.for) skips all
m = 0 terms of the cluster expansion (`if (m .ne. 0)`, because it obtains
P_n^m as sin(theta)*pi_mn/m) and its perpendicular-incidence part inherits the
S3/S4 sign problem of finding 2.

Check used: with the interactions switched off (niter=0) the multi-sphere field
must equal the Mie superposition (both with radial components).  It does for a
chain along z (only m = +-1 terms), it does not for a cluster with lateral
extent.  (Multisphere's default is compute_escat_radial=False, so holograms
computed with defaults are not affected by this one.)

Run from the checkout root. Exit status 1 when the violation is present.
"""
import sys, os; sys.path.insert(0, os.getcwd())
import warnings; warnings.filterwarnings('ignore')
import numpy as np
import holopy as hp
from holopy.scattering import Sphere, Spheres, calc_field, Mie, Multisphere

k = 2 * np.pi * 1.33 / 0.66
kw = dict(medium_index=1.33, illum_wavelen=0.66)
rng = np.random.default_rng(3)
th = Multisphere(niter=0, qeps1=1e-10, qeps2=1e-12, compute_escat_radial=True)
res = {}
for name, S in [
        ('chain along z      ', Spheres([Sphere(n=1.59, r=0.3, center=(0, 0, 0)),
                                         Sphere(n=1.45, r=0.25, center=(0, 0, 0.9))])),
        ('laterally extended ', Spheres([Sphere(n=1.59, r=0.3, center=(0, 0, 0)),
                                         Sphere(n=1.45, r=0.25, center=(0.9, 0, 0))]))]:
    cen = S.center
    worst = 0
    for i in range(10):
        t = rng.uniform(0.05, 1.2); p = rng.uniform(0, 2 * np.pi)
        kR = rng.uniform(40, 300)
        rh = np.array([np.sin(t) * np.cos(p), np.sin(t) * np.sin(p), np.cos(t)])
        pt = cen + kR / k * rh * np.array([1, 1, -1])
        det = hp.detector_points(x=[pt[0]], y=[pt[1]], z=[pt[2]])
        pol = (np.cos(p), np.sin(p))      # incident field in the scattering plane
        fm = calc_field(det, S, illum_polarization=pol, theory=Mie(), **kw).values[0]
        ft = calc_field(det, S, illum_polarization=pol, theory=th, **kw).values[0]
        worst = max(worst, abs(fm @ rh - ft @ rh) / abs(fm @ rh))
    res[name] = worst
    print(f'{name}: max relative error of the radial component E_r = {worst:.2e}')
violated = res['laterally extended '] > 1e-2 and res['chain along z      '] < 1e-3
print('VIOLATION (radial component of cluster field)' if violated else 'no violation')
sys.exit(1 if violated else 0)
