"""C09 finding 4 (minor): for a one-sphere cluster the default theory is
Lorenz-Mie (interface._choose_mie_vs_multisphere), but Mie cannot compute
scattering matrices or cross sections of a `Spheres` object, so
calc_scat_matrix / calc_cross_sections with no theory named FAIL for
Spheres([sphere]) instead of returning the single-sphere solution (calc_holo,
calc_field and calc_intensity do return it).  The cross-section error message
even tells the user to "Use Multisphere", i.e. not the theory 'auto' selected.

Run from the checkout root. Exit status 1 when the violation is present.
"""
import sys, os; sys.path.insert(0, os.getcwd())
import warnings; warnings.filterwarnings('ignore')
import numpy as np
import holopy as hp
from holopy.scattering import (Sphere, Spheres, calc_holo, calc_scat_matrix,
                               calc_cross_sections, Multisphere)

kw = dict(medium_index=1.33, illum_wavelen=0.66)
s = Sphere(n=1.59, r=0.4, center=(1, 1.3, 9))
S = Spheres([s])
angles = hp.detector_points(theta=np.linspace(0, np.pi, 5), phi=np.zeros(5))
det = hp.detector_grid(shape=(5, 5), spacing=0.3)
violated = False

h1 = calc_holo(det, s, illum_polarization=(1, 0), **kw).values
h2 = calc_holo(det, S, illum_polarization=(1, 0), **kw).values
print('calc_holo: one-sphere cluster == sphere :', np.array_equal(h1, h2))

ref = calc_scat_matrix(angles, s, **kw).values
try:
    got = calc_scat_matrix(angles, S, **kw).values
    print('calc_scat_matrix(Spheres([s])) max diff', np.abs(got - ref).max())
except Exception as e:
    print('calc_scat_matrix(Spheres([s]))  ->', type(e).__name__, ':', e)
    violated = True
ok = calc_scat_matrix(angles, S, theory=Multisphere(), **kw).values
print('   (explicit Multisphere works, max diff from sphere: %.1e)'
      % np.abs(ok - ref).max())

ref = calc_cross_sections(s, illum_polarization=(1, 0), **kw).values
try:
    got = calc_cross_sections(S, illum_polarization=(1, 0), **kw).values
    print('calc_cross_sections(Spheres([s])) max diff', np.abs(got - ref).max())
except Exception as e:
    print('calc_cross_sections(Spheres([s])) ->', type(e).__name__, ':',
          str(e).replace('\n', ' '))
    violated = True

print('VIOLATION' if violated else 'no violation')
sys.exit(1 if violated else 0)
