"""C06 repro 4: per-channel scatterer properties given as a labelled array
(xr.DataArray over 'illumination') cannot be used with Multisphere (also the
default theory for a close pair): the per-channel value is extracted as a 0-d
numpy array, np.isscalar() is False for it, and Multisphere rejects the sphere
as "layered".  The same values given as a dict work.
Run from the checkout root: /venv/bin/python /tmp/probe_out/C06/repro_4.py
"""
import sys, os; sys.path.insert(0, os.getcwd())
import warnings
import numpy as np, xarray as xr
import holopy as hp
from holopy.scattering import Sphere, Spheres, calc_field
warnings.simplefilter("ignore")
chans = ['red', 'green']
det = hp.detector_grid((3, 3), 0.1, extra_dims={'illumination': chans})
wl = {'red': 0.66, 'green': 0.52}
nd = {'red': 1.58, 'green': 1.60}
nx = xr.DataArray([1.58, 1.60], dims='illumination', coords={'illumination': chans})
res = {}
for label, n in (('dict', nd), ('labelled array', nx)):
    sc = Spheres([Sphere(n=n, r=0.5, center=(0, 0, 5)), Sphere(n=1.5, r=0.4, center=(1, 0.2, 5.5))])
    try:
        res[label] = calc_field(det, sc, 1.33, wl, (1, 0))   # theory='auto' -> Multisphere
        print(label, ': ok')
    except Exception as e:
        res[label] = None
        print(label, ': raised', type(e).__name__, '-', str(e)[:160])
violated = res['dict'] is not None and res['labelled array'] is None
print("VIOLATION" if violated else "ok")
sys.exit(1 if violated else 0)
