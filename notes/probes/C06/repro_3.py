"""C06 repro 3: wavelengths given as a plain list/array for a detector that has a
labelled 'illumination' dimension.

(a) with a single polarization the channel labels of the detector are dropped
    and replaced by the wavelength values; anything keyed by the detector's
    labels then fails to match: a per-channel `scaling` dict silently yields an
    EMPTY hologram, and model - data is empty.
(b) with a polarization dict, the wavelengths are attached positionally to the
    insertion order of that dict, not to the channel order of the detector, so
    a dict written in another order silently swaps the wavelengths.
Run from the checkout root: /venv/bin/python /tmp/probe_out/C06/repro_3.py
"""
import sys, os; sys.path.insert(0, os.getcwd())
import warnings
import numpy as np
import holopy as hp
from holopy.scattering import Sphere, calc_holo
from holopy.core.metadata import update_metadata
warnings.simplefilter("ignore")

chans = ['red', 'green']
det = hp.detector_grid((4, 5), 0.1, extra_dims={'illumination': chans})
det1 = hp.detector_grid((4, 5), 0.1)
s = Sphere(n=1.59, r=0.5, center=(0.3, 0.2, 5))
wl_list = [0.66, 0.52]          # red, green -- the order of the detector's channels

violated = False
h = calc_holo(det, s, 1.33, wl_list, (1, 0))
print("(a) detector channels", list(det.illumination.values),
      "-> result channels", list(h.illumination.values))
h2 = calc_holo(det, s, 1.33, wl_list, (1, 0), scaling={'red': 0.8, 'green': 0.9})
print("(a) with scaling={'red':..,'green':..}: result shape", h2.shape)
data = update_metadata(det + 1.0, 1.33, wl_list, (1, 0))
resid = calc_holo(data, s) - data
print("(a) (model - data) shape for multi-channel data with list wavelengths:", resid.shape)
violated |= h2.size == 0 or resid.size == 0 or list(h.illumination.values) != chans

pol_a = {'red': (1, 0), 'green': (1, 1)}
pol_b = {'green': (1, 1), 'red': (1, 0)}       # same mapping, other insertion order
ha = calc_holo(det, s, 1.33, wl_list, pol_a)
hb = calc_holo(det, s, 1.33, wl_list, pol_b)
for c in chans:
    single = calc_holo(det1, s, 1.33, dict(zip(chans, wl_list))[c], pol_a[c])
    ea = float(np.abs(ha.sel(illumination=c).transpose(*single.dims).values - single.values).max())
    eb = float(np.abs(hb.sel(illumination=c).transpose(*single.dims).values - single.values).max())
    print("(b) channel %-5s: |multi-single| with pol dict in detector order %.2e, "
          "in other order %.2e" % (c, ea, eb))
    violated |= eb > 1e-9
print("VIOLATION" if violated else "ok")
sys.exit(1 if violated else 0)
