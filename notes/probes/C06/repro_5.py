"""C06 repro 5: per-channel noise given as a dictionary to a Model is accepted by
the constructor (model.py:52-54 explicitly allows dict) but the likelihood
cannot be evaluated: Model._find_noise returns the raw dict and _lnlike does
np.log(ensure_array(dict)) / divides an xarray by a dict.  The same noise
stored in the data's metadata (where it is converted to a labelled array)
works and equals the sum of the single-channel likelihoods.
Run from the checkout root: /venv/bin/python /tmp/probe_out/C06/repro_5.py
"""
import sys, os; sys.path.insert(0, os.getcwd())
import warnings
import numpy as np
np.NaN = np.nan
import holopy as hp
from holopy.scattering import Sphere, Mie, calc_holo
from holopy.inference import AlphaModel, prior
from holopy.core.metadata import update_metadata, copy_metadata
warnings.simplefilter("ignore")
chans = ['red', 'green']
det = hp.detector_grid((5, 4), 0.1, extra_dims={'illumination': chans})
wl = {'red': 0.66, 'green': 0.52}; pol = {'red': (1, 0), 'green': (1, 1)}
noise = {'red': 0.1, 'green': 0.3}
truth = calc_holo(det, Sphere(n=1.59, r=0.5, center=(.3, .2, 5)), 1.33, wl, pol)
data = copy_metadata(truth, truth + 0.05 * np.random.default_rng(0).normal(size=truth.shape))
sph = Sphere(n=prior.Uniform(1.5, 1.7, guess=1.6), r=0.5, center=(.3, .2, 5))
def model(noise_sd):
    return AlphaModel(sph, alpha=0.9, noise_sd=noise_sd, medium_index=1.33,
                      illum_wavelen=wl, illum_polarization=pol, theory=Mie())
m_ok = model(None)
ll_meta = m_ok.lnlike({'n': 1.6}, update_metadata(data, noise_sd=noise))
print("noise dict stored in data metadata: lnlike =", ll_meta)
violated = False
try:
    ll_dict = model(noise).lnlike({'n': 1.6}, data)
    print("noise dict given to the model      : lnlike =", ll_dict)
    violated = abs(ll_dict - ll_meta) > 1e-9
except Exception as e:
    print("noise dict given to the model      : raised", type(e).__name__, '-', str(e)[:120])
    violated = True
print("VIOLATION" if violated else "ok")
sys.exit(1 if violated else 0)
