"""C06 repro 6 (minor): calc_scat_matrix cannot be used with several illumination
channels: prep_schema is called with illum_polarization=False and then does
`illumination in illum_polarization.dims` on the bool.
Run from the checkout root: /venv/bin/python /tmp/probe_out/C06/repro_6.py
"""
import sys, os; sys.path.insert(0, os.getcwd())
import warnings
import holopy as hp
from holopy.scattering import Sphere, calc_scat_matrix
warnings.simplefilter("ignore")
chans = ['red', 'green']
det = hp.detector_grid((3, 3), 0.1, extra_dims={'illumination': chans})
s = Sphere(n={'red': 1.58, 'green': 1.6}, r=0.5, center=(0.2, 0.3, 4))
try:
    m = calc_scat_matrix(det, s, 1.33, {'red': 0.66, 'green': 0.52})
    print("ok", m.dims); sys.exit(0)
except AttributeError as e:
    print("raised AttributeError:", e); print("VIOLATION"); sys.exit(1)
