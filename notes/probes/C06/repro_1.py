"""C06 repro 1: multi-channel result != single-channel result when a sphere of a
cluster has a per-channel radius and theory='auto' (the default).

The automatic theory choice is made once, on the scatterer that still carries
per-channel dictionaries; a dict-valued (or DataArray-valued) radius is
mistaken for a layered sphere, so Mie superposition is used (with a warning
about "coated spheres"), whereas every single-channel calculation of the same
cluster uses Multisphere.
Run from the checkout root: /venv/bin/python /tmp/probe_out/C06/repro_1.py
"""
import sys, os; sys.path.insert(0, os.getcwd())
import warnings
import numpy as np
import holopy as hp
from holopy.scattering import Sphere, Spheres, calc_field, calc_holo
from holopy.scattering.interface import interpret_theory, validate_scatterer
warnings.simplefilter("ignore")

chans = ['red', 'green']
det_multi = hp.detector_grid((6, 5), 0.1, extra_dims={'illumination': chans})
det_single = hp.detector_grid((6, 5), 0.1)
wl = {'red': 0.66, 'green': 0.52}
pol = {'red': (1, 0), 'green': (0, 1)}
n1 = {'red': 1.58, 'green': 1.60}
r2 = {'red': 0.30, 'green': 0.35}       # per-channel radius of sphere 2
c1, c2 = (0.3, 0.2, 5.0), (1.5, 1.0, 6.0)

multi_scatterer = Spheres([Sphere(n=n1, r=0.5, center=c1),
                           Sphere(n=1.45, r=r2, center=c2)])
print("theory chosen for the multi-channel scatterer :",
      type(interpret_theory(validate_scatterer(multi_scatterer), 'auto')).__name__)

violated = False
for fn in (calc_field, calc_holo):
    multi = fn(det_multi, multi_scatterer, 1.33, wl, pol)        # theory='auto'
    for c in chans:
        single_scatterer = Spheres([Sphere(n=n1[c], r=0.5, center=c1),
                                    Sphere(n=1.45, r=r2[c], center=c2)])
        if fn is calc_field and c == 'red':
            print("theory chosen for the single-channel scatterer:",
                  type(interpret_theory(single_scatterer, 'auto')).__name__)
        single = fn(det_single, single_scatterer, 1.33, wl[c], pol[c])
        m = multi.sel(illumination=c).transpose(*single.dims)
        err = float(np.abs(m.values - single.values).max()
                    / np.abs(single.values).max())
        print("%-10s channel %-5s  max rel. difference multi vs single = %.3e"
              % (fn.__name__, c, err))
        violated |= err > 1e-6
print("VIOLATION" if violated else "ok")
sys.exit(1 if violated else 0)
