"""C06 repro 2: a polarization given as a labelled array (xr.DataArray with a
'vector' dimension) is never normalised.

(a) single channel: the Mie field for polarization (3, 4) given as a labelled
    array is 5x the field for the tuple (3, 4); the hologram is 25x.
(b) multi channel: the per-channel scattered field IS normalised (the per-channel
    schema is rebuilt from a bare ndarray) but the reference wave of calc_holo is
    not, so the hologram channel differs from the single-channel hologram.
Run from the checkout root: /venv/bin/python /tmp/probe_out/C06/repro_2.py
"""
import sys, os; sys.path.insert(0, os.getcwd())
import warnings
import numpy as np, xarray as xr
import holopy as hp
from holopy.scattering import Sphere, calc_field, calc_holo
warnings.simplefilter("ignore")

s = Sphere(n=1.59, r=0.5, center=(0.3, 0.2, 5))
det = hp.detector_grid((4, 5), 0.1)
fx = calc_field(det, s, 1.33, 0.66, (1, 0)).values
fy = calc_field(det, s, 1.33, 0.66, (0, 1)).values
expected = (3 * fx + 4 * fy) / 5.0

f_tuple = calc_field(det, s, 1.33, 0.66, (3, 4)).values
p = xr.DataArray([3., 4., 0.], dims='vector', coords={'vector': ['x', 'y', 'z']})
f_label = calc_field(det, s, 1.33, 0.66, p).values
e_tuple = np.abs(f_tuple - expected).max() / np.abs(expected).max()
e_label = np.abs(f_label - expected).max() / np.abs(expected).max()
print("(a) field, tuple (3,4)          : rel. error vs (3fx+4fy)/5 = %.2e" % e_tuple)
print("(a) field, labelled array (3,4) : rel. error vs (3fx+4fy)/5 = %.2e"
      "   (ratio to expected = %.3f)" % (e_label, np.abs(f_label).max() / np.abs(expected).max()))
h_tuple = calc_holo(det, s, 1.33, 0.66, (3, 4)).values
h_label = calc_holo(det, s, 1.33, 0.66, p).values
print("(a) hologram mean: tuple %.4f, labelled array %.4f" % (h_tuple.mean(), h_label.mean()))

chans = ['red', 'green']
detm = hp.detector_grid((4, 5), 0.1, extra_dims={'illumination': chans})
wl = {'red': 0.66, 'green': 0.52}
polx = xr.DataArray(np.array([[3., 4.], [0., 2.]]),
                    coords=[('illumination', chans), ('vector', ['x', 'y'])])
hm = calc_holo(detm, s, 1.33, wl, polx)
worst = 0
for c in chans:
    hs = calc_holo(det, s, 1.33, wl[c], tuple(polx.sel(illumination=c).values))
    m = hm.sel(illumination=c).transpose(*hs.dims)
    err = float(np.abs(m.values - hs.values).max() / np.abs(hs.values).max())
    worst = max(worst, err)
    print("(b) hologram channel %-5s: multi mean %.4f, single mean %.4f, max rel diff %.2e"
          % (c, float(m.mean()), float(hs.mean()), err))
violated = e_label > 1e-9 or worst > 1e-9
print("VIOLATION" if violated else "ok")
sys.exit(1 if violated else 0)
