"""C12 repro 4: with theory='auto' (the default) a Model of a sphere cluster
resolves the theory ONCE, from an all-zero dummy scatterer, so it always picks
Multisphere; the public calc_holo(detector, scatterer) default picks Mie
superposition for widely separated spheres (where the library's own comments
say Multisphere is inaccurate). The model's forward hologram therefore differs
from the public hologram of the substituted scatterer by far more than solver
accuracy."""
import sys, os; sys.path.insert(0, os.getcwd())
import warnings; warnings.simplefilter('ignore')
import numpy as np
np.NaN = np.nan
from holopy.scattering import Sphere, Spheres, calc_holo
from holopy.scattering.interface import determine_default_theory_for
from holopy.inference import AlphaModel, prior
from holopy.core.metadata import detector_grid, update_metadata
warnings.simplefilter('ignore')  # holopy re-enables OverlapWarning on import

det = update_metadata(detector_grid((8, 8), (0.1, 0.1)), medium_index=1.33,
                      illum_wavelen=0.66, illum_polarization=(1, 0),
                      noise_sd=0.05)
s1 = Sphere(n=1.59, r=0.25, center=[prior.Uniform(-1, 2), 0.3, 5])
s2 = Sphere(n=1.59, r=0.25, center=[prior.Uniform(-1, 40), 0.3, 5])
m = AlphaModel(Spheres([s1, s2]), alpha=1)       # theory='auto'
print('dummy scatterer used to pick the theory:', m._dummy_scatterer)
print('model theory:', type(m.theory).__name__)
bad = False
for sep in [2.0, 15.0, 30.0]:
    p = [0.0, sep]
    sc = m.scatterer_from_parameters(p)
    public = calc_holo(det, sc)                  # public default (auto)
    fw = m.forward(p, det)
    d = float(np.abs(fw - public).max())
    ll = m.lnlike(p, public)
    ll0 = m.lnlike(p, fw)
    print('separation %5.1f: public auto theory = %-11s max|forward - calc_holo| = %.3e ;'
          ' lnlike(data = public hologram) = %.2f (would be %.2f if equal)'
          % (sep, type(determine_default_theory_for(sc)).__name__, d, ll, ll0))
    bad = bad or d > 1e-3
print('VIOLATION' if bad else 'ok')
sys.exit(1 if bad else 0)
