"""C12 repro 7 (low severity): lnposterior(..., pixels=k) on data that is
already a flattened subset (a legitimate data array for lnlike/lnposterior)
draws indices from len(x)*len(y) = n_flat**2 instead of n_flat, so it raises
IndexError (or, with luck, works) instead of sub-sampling the flat points."""
import sys, os; sys.path.insert(0, os.getcwd())
import warnings; warnings.simplefilter('ignore')
import numpy as np
np.NaN = np.nan
from holopy.scattering import Sphere
from holopy.inference import AlphaModel, prior
from holopy.core.metadata import detector_grid, update_metadata, make_subset_data

det = update_metadata(detector_grid((7, 6), (0.1, 0.12)), medium_index=1.33,
                      illum_wavelen=0.66, illum_polarization=(1, 0),
                      noise_sd=0.1)
rng = np.random.default_rng(1)
data = det + rng.normal(1, 0.1, det.shape)
data.attrs = det.attrs
m = AlphaModel(Sphere(n=prior.Uniform(1.4, 1.7), r=prior.Uniform(0.3, 0.8),
                      center=[0.3, 0.35, prior.Uniform(3, 8)]), alpha=0.8)
p = [1.5, 0.5, 5]
sub = make_subset_data(data, pixels=20, seed=1)
print('lnposterior on the 20-point subset:', m.lnposterior(p, sub))
fails = 0
for seed in range(10):
    np.random.seed(seed)
    try:
        m.lnposterior(p, sub, pixels=5)
    except IndexError as e:
        fails += 1
        msg = str(e)
print('pixels=5 on the 20-point subset: %d/10 calls raised IndexError%s'
      % (fails, (' (' + msg + ')') if fails else ''))
print('VIOLATION' if fails else 'ok')
sys.exit(1 if fails else 0)
