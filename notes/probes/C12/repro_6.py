"""C12 repro 6 (lower confidence): LimitOverlaps on a cluster of LAYERED
spheres measures the allowed overlap against the innermost layer's radius
(np.min over all layers) instead of the sphere diameter, so configurations
whose overlap is below `fraction` x diameter get lnprior = -inf."""
import sys, os; sys.path.insert(0, os.getcwd())
import warnings; warnings.simplefilter('ignore')
import numpy as np
np.NaN = np.nan
from holopy.scattering import Sphere, Spheres
from holopy.inference import AlphaModel, prior
from holopy.inference.model import LimitOverlaps
warnings.simplefilter('ignore')  # holopy re-enables OverlapWarning on import

U = prior.Uniform
s1 = Sphere(n=[1.4, 1.59], r=[0.1, 0.5], center=[U(-1, 1), 0, 5])
s2 = Sphere(n=[1.4, 1.59], r=[0.1, 0.5], center=[U(0, 2), 0, 5])
m = AlphaModel(Spheres([s1, s2]), constraints=LimitOverlaps(0.1), noise_sd=0.1)
bad = False
for x2 in [1.0, 0.95, 0.91, 0.85]:
    p = [0.0, x2]
    sc = m.scatterer_from_parameters(p)
    ov = sc.largest_overlap()
    allowed = ov <= 0.1 * (2 * 0.5)      # fraction x sphere diameter
    lp = m.lnprior(p)
    print('x2=%.2f overlap=%.3f allowed(by diameter 1.0, fraction 0.1)=%s '
          'lnprior=%s' % (x2, ov, allowed, lp))
    if allowed != np.isfinite(lp):
        bad = True
print('VIOLATION' if bad else 'ok')
sys.exit(1 if bad else 0)
