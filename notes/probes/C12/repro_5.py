"""C12 repro 5: when the forward hologram's `illumination` labels differ from
the data's (e.g. wavelengths given as a plain list/array, which calc_holo labels
by wavelength value, for data whose channels are called 'red'/'green'), the
xarray subtraction in Model._residuals inner-joins to an EMPTY array. lnlike
silently returns only the normalisation constant -- the same value for every
parameter vector and every data set -- while still using N = data.size."""
import sys, os; sys.path.insert(0, os.getcwd())
import warnings; warnings.simplefilter('ignore')
import numpy as np
np.NaN = np.nan
from holopy.scattering import Sphere
from holopy.inference import AlphaModel, prior
from holopy.core.metadata import detector_grid, update_metadata, illumination

chan = ['red', 'green']
det = detector_grid((6, 7), (0.1, 0.12), extra_dims={illumination: chan})
det = update_metadata(det, medium_index=1.33,
                      illum_wavelen={'red': 0.66, 'green': 0.52},
                      illum_polarization=(1, 0),
                      noise_sd={'red': 0.05, 'green': 0.1})
rng = np.random.default_rng(0)
data = det + rng.normal(1, 0.1, det.shape)
data.attrs = det.attrs
sph = Sphere(n=1.59, r=prior.Uniform(0.2, 0.8),
             center=[0.3, 0.3, prior.Uniform(1, 6)])
ok_model = AlphaModel(sph, alpha=0.8)                       # optics from data
bad_model = AlphaModel(sph, alpha=0.8, illum_wavelen=[0.66, 0.52])
N = data.size
const = -N/2*np.log(2*np.pi) - N*np.mean(np.log([0.05, 0.1]))
print('normalisation constant alone:', const)
bad = False
for pars in ([0.5, 5.0], [0.3, 2.0], [0.75, 1.5]):
    a = ok_model.lnlike(pars, data)
    b = bad_model.lnlike(pars, data)
    shape = bad_model._residuals(pars, data, 1.0).shape
    print('pars', pars, ' optics from data: %.3f   wavelengths as list in the '
          'model: %.3f   residual shape %s' % (a, b, shape))
    if abs(b - a) > 1e-6 * abs(a):
        bad = True
print('forward illumination labels:',
      bad_model.forward([0.5, 5.0], data).illumination.values,
      ' data labels:', data.illumination.values)
print('VIOLATION' if bad else 'ok')
sys.exit(1 if bad else 0)
