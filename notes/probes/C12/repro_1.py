"""C12 repro 1: per-channel noise given as a list / numpy array (accepted by
Model.__init__ via ensure_array, and by update_metadata on the data) gives a
wrong log-likelihood for ordinary (unflattened) multi-channel data, although
the very same model/data give the right value on a flattened pixel subset that
contains every pixel."""
import sys, os; sys.path.insert(0, os.getcwd())
import warnings; warnings.simplefilter('ignore')
import numpy as np, xarray as xr
np.NaN = np.nan
from scipy import stats
from holopy.scattering import Sphere, calc_holo
from holopy.inference import AlphaModel, prior
from holopy.core.metadata import (detector_grid, update_metadata,
                                  make_subset_data, illumination)

chan = ['red', 'green', 'blue']
sds = [0.02, 0.05, 0.2]
det = detector_grid((7, 6), (0.1, 0.12), extra_dims={illumination: chan})
det = update_metadata(det, medium_index=1.33,
                      illum_wavelen={'red': 0.66, 'green': 0.52, 'blue': 0.45},
                      illum_polarization=(1, 0))
rng = np.random.default_rng(0)
data = det + rng.normal(1, 0.1, det.shape)
data.attrs = det.attrs

sph = Sphere(n=prior.Uniform(1.4, 1.7), r=prior.Uniform(0.3, 0.8),
             center=[0.3, 0.35, prior.Uniform(3, 8)])
pars = [1.5, 0.45, 5.5, 0.7]
ref = calc_holo(data, Sphere(n=1.5, r=0.45, center=(0.3, 0.35, 5.5)),
                scaling=0.7)
expected = sum(
    stats.norm.logpdf((data.sel(illumination=c) - ref.sel(illumination=c)
                       ).values, 0, sd).sum() for c, sd in zip(chan, sds))
print('expected lnlike (independent Gaussian per channel):', expected)

bad = False
noise_xr = xr.DataArray(sds, dims=[illumination], coords={illumination: chan})
for label, nz in [('xarray (control)', noise_xr), ('list', list(sds)),
                  ('ndarray', np.array(sds))]:
    m = AlphaModel(sph, alpha=prior.Uniform(0.5, 1), noise_sd=nz)
    full = m.lnlike(pars, data)
    allpix = m.lnlike(pars, make_subset_data(data, pixels=42, seed=1))
    res_shape = m._residuals(pars, data, m._find_noise(pars, data)).shape
    print('model noise_sd as %-17s lnlike(full)=%.4f  lnlike(all 42 pixels '
          'flattened)=%.4f  residual array shape %s'
          % (label, full, allpix, res_shape))
    if label != 'xarray (control)' and abs(full - expected) > 1e-6 * abs(expected):
        bad = True
# same thing with the noise coming from the data's metadata
m = AlphaModel(sph, alpha=prior.Uniform(0.5, 1))
d2 = update_metadata(data, noise_sd=list(sds))
got = m.lnlike(pars, d2)
print('data.noise_sd as list: lnlike(full)=%.4f' % got)
bad = bad or abs(got - expected) > 1e-6 * abs(expected)
print('VIOLATION' if bad else 'ok')
sys.exit(1 if bad else 0)
