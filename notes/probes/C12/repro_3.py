"""C12 repro 3: a Model built on a RigidCluster silently ignores the cluster's
rotation and translation parameters: forward/lnlike are computed for the
un-rotated, un-translated spheres."""
import sys, os; sys.path.insert(0, os.getcwd())
import warnings; warnings.simplefilter('ignore')
import numpy as np
np.NaN = np.nan
from holopy.scattering import Sphere, Spheres, calc_holo
from holopy.scattering.scatterer import RigidCluster
from holopy.inference import AlphaModel, prior
from holopy.core.metadata import detector_grid, update_metadata

U = prior.Uniform
det = update_metadata(detector_grid((6, 7), (0.1, 0.12)), medium_index=1.33,
                      illum_wavelen=0.66, illum_polarization=(1, 0),
                      noise_sd=0.1)
base = Spheres([Sphere(n=1.59, r=0.3, center=(0, 0, 5)),
                Sphere(n=1.59, r=0.3, center=(0.65, 0, 5))])
rc = RigidCluster(base, translation=[U(0, 1), U(0, 1), U(0, 5)],
                  rotation=[U(-3, 3), U(-3, 3), U(-3, 3)])
m = AlphaModel(rc, alpha=0.8)
print('parameters:', m._parameter_names)
print('dummy scatterer type:', type(m._dummy_scatterer).__name__)
pA = {'translation.0': 0.3, 'translation.1': 0.4, 'translation.2': 2.0,
      'rotation.0': 0.5, 'rotation.1': -0.7, 'rotation.2': 1.1}
pB = {'translation.0': 0.9, 'translation.1': 0.1, 'translation.2': 4.0,
      'rotation.0': -2.0, 'rotation.1': 0.3, 'rotation.2': 0.0}
scA = RigidCluster(base, translation=(0.3, 0.4, 2.0), rotation=(0.5, -0.7, 1.1))
ref = calc_holo(det, scA, scaling=0.8, theory=m.theory)
fwA = m.forward(pA, det)
fwB = m.forward(pB, det)
print('substituted scatterer:', m.scatterer_from_parameters(pA))
print('expected centers     :', [list(np.round(s.center, 4)) for s in scA.scatterers])
dA = float(np.abs(fwA - ref).max())
dAB = float(np.abs(fwA - fwB).max())
print('max|forward(pA) - calc_holo(RigidCluster(pA))| =', dA)
print('max|forward(pA) - forward(pB)| =', dAB, '(0 => parameters ignored)')
print('lnprior still depends on them:', m.lnprior(pA), m.lnprior(dict(pA, **{'rotation.0': 3.5})))
bad = dA > 1e-6
print('VIOLATION' if bad else 'ok')
sys.exit(1 if bad else 0)
