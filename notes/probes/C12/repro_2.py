"""C12 repro 2: a per-channel noise_sd given to the model as a dict (explicitly
accepted by Model.__init__, exercised by the library's own
test_reads_noise_map) cannot be used: lnlike / lnposterior raise TypeError."""
import sys, os; sys.path.insert(0, os.getcwd())
import warnings; warnings.simplefilter('ignore')
import numpy as np
np.NaN = np.nan
from scipy import stats
from holopy.scattering import Sphere, calc_holo
from holopy.inference import AlphaModel, prior
from holopy.core.metadata import detector_grid, update_metadata, illumination

chan = ['red', 'green']
det = detector_grid((6, 5), (0.1, 0.1), extra_dims={illumination: chan})
det = update_metadata(det, medium_index=1.33,
                      illum_wavelen={'red': 0.66, 'green': 0.52},
                      illum_polarization=(1, 0))
rng = np.random.default_rng(0)
data = det + rng.normal(1, 0.1, det.shape)
data.attrs = det.attrs
sph = Sphere(n=1.59, r=prior.Uniform(0.3, 0.8), center=[0.3, 0.3, 5])
bad = False
for noise in [{'red': 0.05, 'green': 0.1},
              {'red': 0.05, 'green': prior.Uniform(0, 1)}]:
    m = AlphaModel(sph, alpha=0.8, noise_sd=noise)
    pars = [0.5] + ([0.1] if len(m._parameters) == 2 else [])
    print('model parameters', m._parameter_names,
          '-> noise found:', m._find_noise(pars, data))
    ref = calc_holo(data, Sphere(n=1.59, r=0.5, center=(0.3, 0.3, 5)),
                    scaling=0.8)
    expected = m.lnprior(pars) + sum(
        stats.norm.logpdf((data.sel(illumination=c) - ref.sel(illumination=c)
                           ).values, 0, sd).sum()
        for c, sd in zip(chan, [0.05, 0.1]))
    try:
        got = m.lnposterior(pars, data)
        print('lnposterior', got, 'expected', expected)
        bad = bad or abs(got - expected) > 1e-6 * abs(expected)
    except Exception as e:
        print('lnposterior raised', type(e).__name__, ':', str(e)[:120],
              '(expected value %.4f)' % expected)
        bad = True
# control: the same dict put on the data works
m = AlphaModel(sph, alpha=0.8)
d2 = update_metadata(data, noise_sd={'red': 0.05, 'green': 0.1})
print('control (dict on the data):', m.lnposterior([0.5], d2))
print('VIOLATION' if bad else 'ok')
sys.exit(1 if bad else 0)
