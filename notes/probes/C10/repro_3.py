"""C10 finding 3: legitimate Tmatrix inputs hit a Fortran STOP and silently terminate
the Python interpreter (exit status 0, no traceback, no TmatrixFailure).

Run from the checkout root:  /venv/bin/python /tmp/probe_out/C10/repro_3.py
Every case is run in a child process.  Exits 1 when at least one child died.
"""
import sys, os, subprocess, textwrap

CHILD = textwrap.dedent('''
    import sys, os; sys.path.insert(0, os.getcwd())
    import warnings; warnings.filterwarnings('ignore')
    import numpy as np
    from numpy import pi
    from holopy.core import detector_grid, detector_points
    from holopy.scattering import Sphere, Spheroid, Cylinder, Tmatrix, calc_field, calc_holo
    kw = dict(medium_index=1.33, illum_wavelen=0.66, illum_polarization=(1, 0))
    det = detector_grid(shape=4, spacing=1.0)
    try:
        {stmt}
        print('RETURNED finite=%s' % np.isfinite(out.values).all(), flush=True)
    except Exception as e:
        print('RAISED', type(e).__name__, flush=True)
    print('ALIVE', flush=True)
''')

cases = [
 ('control: spheroid rotation=(0, 0.5, 0.7)',
  "out = calc_holo(det, Spheroid(n=1.5, r=(0.4, 0.8), rotation=(0, 0.5, 0.7), center=(2, 2, 5)), theory=Tmatrix(), **kw)"),
 ('spheroid, negative azimuthal Euler angle rotation=(0, 0.5, -0.7)',
  "out = calc_holo(det, Spheroid(n=1.5, r=(0.4, 0.8), rotation=(0, 0.5, -0.7), center=(2, 2, 5)), theory=Tmatrix(), **kw)"),
 ('spheroid, negative polar Euler angle rotation=(0, -0.5, 0.7)',
  "out = calc_holo(det, Spheroid(n=1.5, r=(0.4, 0.8), rotation=(0, -0.5, 0.7), center=(2, 2, 5)), theory=Tmatrix(), **kw)"),
 ('cylinder, polar angle beyond pi rotation=(0, pi+0.5, 0.7)',
  "out = calc_holo(det, Cylinder(n=1.5, d=0.8, h=1.0, rotation=(0, pi + 0.5, 0.7), center=(2, 2, 5)), theory=Tmatrix(), **kw)"),
 ('cylinder, azimuth beyond 2pi rotation=(0, 0.5, 2pi+0.7)',
  "out = calc_holo(det, Cylinder(n=1.5, d=0.8, h=1.0, rotation=(0, 0.5, 2 * pi + 0.7), center=(2, 2, 5)), theory=Tmatrix(), **kw)"),
 ('sphere, detector azimuth given as phi=-0.5',
  "out = calc_field(detector_points(theta=np.array([0.3]), phi=np.array([-0.5]), r=np.array([50.])), Sphere(n=1.5, r=0.5, center=(0, 0, 0)), theory=Tmatrix(), **kw)"),
 ('large sphere r=10 um (x=127: NGAUSS=NDGS*NMAX > NPNG1, STOP at ampld.lp.f:355)',
  "out = calc_holo(det, Sphere(n=1.5, r=10., center=(2, 2, 50)), theory=Tmatrix(), **kw)"),
 ('spheroid 1.1 x 3.3 um semi-axes (aspect 3, equal-volume x=20; no convergence, STOP at :355/:385)',
  "out = calc_holo(det, Spheroid(n=1.5, r=(1.095, 3.286), rotation=(0, 0.5, 0.7), center=(2, 2, 20)), theory=Tmatrix(), **kw)"),
 ('index-matched sphere n = medium_index (0/0=NaN in convergence test, STOP at :355/:385)',
  "out = calc_holo(det, Sphere(n=1.33, r=0.5, center=(2, 2, 5)), theory=Tmatrix(), **kw)"),
]

died = 0
for name, stmt in cases:
    p = subprocess.run([sys.executable, '-c', CHILD.format(stmt=stmt)],
                       capture_output=True, text=True)
    lines = p.stdout.strip().splitlines()
    alive = 'ALIVE' in lines
    status = lines[0] if lines else '(no output at all)'
    if not alive:
        died += 1
        status = 'INTERPRETER TERMINATED, exit status %d, stderr=%r' % (p.returncode, p.stderr[-80:])
    print('%-95s -> %s' % (name, status))

print('VIOLATION PRESENT: %d child interpreters were killed' % died if died else 'no violation')
sys.exit(1 if died else 0)
