"""C10 finding 1: Tmatrix.raw_fields is wrong for a sphere away from azimuth 0/pi.

Run from the checkout root:  /venv/bin/python /tmp/probe_out/C10/repro_1.py
Exits 1 when the violation is present.
"""
import sys, os; sys.path.insert(0, os.getcwd())
import warnings; warnings.filterwarnings('ignore')
import numpy as np
import holopy
from holopy.core import detector_grid, detector_points
from holopy.scattering import Sphere, Spheroid, Mie, Tmatrix, calc_field, calc_holo

print('holopy from', holopy.__file__)
kw = dict(medium_index=1.33, illum_wavelen=0.66, illum_polarization=(1, 0))
bad = False

# (a) single far-field points, r = 0.25 um sphere (x ~ 3.2), theta = 1 rad
theta = np.array([1.0, 1.0, 1.0, 1.0, 0.5])
phi = np.array([0.0, np.pi / 4, np.pi / 2, 4.0, np.pi / 2])
pts = detector_points(theta=theta, phi=phi, r=np.full(theta.size, 50.))
for scat, name in [(Sphere(n=1.59, r=0.25, center=(0, 0, 0)), 'Sphere'),
                   (Spheroid(n=1.59, r=(0.25, 0.25), rotation=(0, 0.4, 1.1),
                             center=(0, 0, 0)), 'Spheroid(a=a)')]:
    ref = calc_field(pts, Sphere(n=1.59, r=0.25, center=(0, 0, 0)),
                     theory=Mie(False, False), **kw).transpose('vector', 'point').values
    tm = calc_field(pts, scat, theory=Tmatrix(), **kw).transpose('vector', 'point').values
    rel = np.abs(tm - ref).max(axis=0) / np.abs(ref).max(axis=0)
    for t, p, e in zip(theta, phi, rel):
        print(f'{name:14s} theta={t:.2f} phi={p:.3f}  |E_tmat-E_mie|/|E_mie| = {e:.3e}')
    if rel.max() > 1e-2:
        bad = True

# (b) user-level hologram, particle 5 um above a 20x20 detector
det = detector_grid(shape=20, spacing=0.5)
s = Sphere(n=1.59, r=0.5, center=(5.1, 4.9, 5))
hm = calc_holo(det, s, theory=Mie(False, False), **kw).values
ht = calc_holo(det, s, theory=Tmatrix(), **kw).values
d = np.abs(hm - ht).max()
print(f'hologram: max|I_tmat - I_mie| = {d:.4f} (fringe contrast {np.ptp(hm):.3f})')
if d > 1e-2:
    bad = True

print('VIOLATION PRESENT' if bad else 'no violation')
sys.exit(1 if bad else 0)
