"""C10 finding 2: Tmatrix.raw_scat_matrs returns a (transposed) lab-frame matrix, not
holopy's scattering-plane amplitude matrix -> calc_scat_matrix and Lens(a, Tmatrix())
disagree with Mie for a sphere.

Run from the checkout root:  /venv/bin/python /tmp/probe_out/C10/repro_2.py
Exits 1 when the violation is present.
"""
import sys, os; sys.path.insert(0, os.getcwd())
import warnings; warnings.filterwarnings('ignore')
import numpy as np
import holopy
from holopy.core import detector_grid, detector_points
from holopy.scattering import Sphere, Mie, Tmatrix, calc_field, calc_holo, calc_scat_matrix
from holopy.scattering.theory import Lens

print('holopy from', holopy.__file__)
bad = False
opt = dict(medium_index=1.33, illum_wavelen=0.66)

# (a) calc_scat_matrix
theta = np.array([0.6, 0.6, 0.6]); phi = np.array([0.0, np.pi / 2, 2.0])
pts = detector_points(theta=theta, phi=phi, r=np.full(3, 50.))
sph = Sphere(n=1.59, r=0.5)
sm = calc_scat_matrix(pts, sph, theory=Mie(False, False), **opt).values
st = calc_scat_matrix(pts, sph, theory=Tmatrix(), **opt).values
for i in range(3):
    e = np.abs(sm[i] - st[i]).max() / np.abs(sm[i]).max()
    print(f'calc_scat_matrix theta=0.6 phi={phi[i]:.3f}: rel. diff = {e:.3e}')
    print('   Mie    ', np.round(sm[i], 3).tolist())
    print('   Tmatrix', np.round(st[i], 3).tolist())
    if e > 1e-2:
        bad = True

# (b) lens wrapper
det = detector_grid(shape=8, spacing=0.4)
s = Sphere(n=1.59, r=0.5, center=(1.5, 1.3, 3))
kw = dict(illum_polarization=(1, 0), **opt)
q = dict(quad_npts_theta=40, quad_npts_phi=40)
fm = calc_field(det, s, theory=Lens(0.8, Mie(False, False), **q), **kw).values
ft = calc_field(det, s, theory=Lens(0.8, Tmatrix(), **q), **kw).values
e = np.abs(fm - ft).max() / np.abs(fm).max()
print(f'Lens(0.8, Tmatrix()) vs Lens(0.8, Mie()): max field diff / max|E| = {e:.3f}')
hm = calc_holo(det, s, theory=Lens(0.8, Mie(False, False), **q), **kw).values
ht = calc_holo(det, s, theory=Lens(0.8, Tmatrix(), **q), **kw).values
print(f'   hologram max diff = {np.abs(hm - ht).max():.3f} (Mie-lens hologram range {hm.min():.3f}..{hm.max():.3f})')
if e > 1e-2:
    bad = True

print('VIOLATION PRESENT' if bad else 'no violation')
sys.exit(1 if bad else 0)
