"""C08 finding 1: MieLens with its DEFAULT quadrature (quad_npts=100) is not converged for
radii that are still BELOW its own validity cutoff krho < 3.9*quad_npts = 390 when the lens
angle is large (>~1 rad) and/or |k z| is large.  Refining the quadrature changes the result by
orders of magnitude, and the default result disagrees with the converged Lens(Mie) field.
Run from the checkout root:  /venv/bin/python /tmp/probe_out/C08/repro_1.py
"""
import sys, os; sys.path.insert(0, os.getcwd())
import warnings; warnings.filterwarnings('ignore')
import numpy as np
import holopy
from holopy.scattering import calc_field, Sphere, Mie
from holopy.scattering.theory import MieLens, Lens
from holopy.core import detector_points

nmed, wl = 1.33, 0.66
k = 2 * np.pi * nmed / wl
lens_angle = 1.2                      # NA = 1.33*sin(1.2) = 1.24, ordinary oil objective
kz = 40.0                             # sphere 3.2 um above the focus
krho = np.array([0.0, 300.0, 380.0])  # all < 3.9 * 100 = 390 (inside the "valid" region)
det = detector_points(x=krho / k * np.cos(0.3), y=krho / k * np.sin(0.3), z=0.)
kw = dict(medium_index=nmed, illum_wavelen=wl, illum_polarization=(1, 0))
s = Sphere(n=1.59, r=0.5, center=(0, 0, kz / k))
off = {'interpolate_integrals': False}   # (numpy-2 sandbox: avoid the 'check' default)

def ex(theory):
    return calc_field(det, s, theory=theory, **kw).sel(vector='x').values.ravel()

ml_default = ex(MieLens(lens_angle, calculator_accuracy_kwargs=off))
ml_refined = ex(MieLens(lens_angle, calculator_accuracy_kwargs=dict(off, quad_npts=400)))
ml_refined2 = ex(MieLens(lens_angle, calculator_accuracy_kwargs=dict(off, quad_npts=800)))
lens_conv = ex(Lens(lens_angle, Mie(False, False), quad_npts_theta=500, quad_npts_phi=1200))
print('holopy from', holopy.__file__)
print('krho                     ', krho)
print('|Ex| MieLens default(100)', np.abs(ml_default))
print('|Ex| MieLens quad 400    ', np.abs(ml_refined))
print('|Ex| MieLens quad 800    ', np.abs(ml_refined2))
print('|Ex| Lens(Mie) converged ', np.abs(lens_conv))
peak = np.abs(lens_conv).max()
err_default = np.abs(ml_default - lens_conv) / peak
err_refined = np.abs(ml_refined - lens_conv) / peak
print('err/peak default', err_default)
print('err/peak refined', err_refined)
ratio = np.abs(ml_default[-1]) / np.abs(lens_conv[-1])
print('at krho=380: default MieLens amplitude is %.0f x the converged one' % ratio)
violated = (err_default.max() > 1e-3) and (err_refined.max() < 1e-6)
print('VIOLATION' if violated else 'ok')
sys.exit(1 if violated else 0)
