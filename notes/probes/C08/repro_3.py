"""C08 finding 3: MieLens.can_handle() says it can handle a layered (core-shell) Sphere, but
raw_fields crashes with a TypeError; Lens(Mie) computes the same scatterer without trouble.
"""
import sys, os; sys.path.insert(0, os.getcwd())
import warnings; warnings.filterwarnings('ignore')
import numpy as np
from holopy.scattering import calc_field, Sphere, Mie
from holopy.scattering.theory import MieLens, Lens
from holopy.core import detector_grid

det = detector_grid(4, 0.3)
kw = dict(medium_index=1.33, illum_wavelen=0.66, illum_polarization=(1, 0))
s = Sphere(n=(1.59, 1.45), r=(0.3, 0.5), center=(0.8, 0.9, 4))
ml = MieLens(0.9, calculator_accuracy_kwargs={'interpolate_integrals': False})
print('MieLens.can_handle(layered) =', ml.can_handle(s))
f_lens = calc_field(det, s, theory=Lens(0.9, Mie(False, False)), **kw)
print('Lens(Mie) works, max|E| =', float(np.abs(f_lens.values).max()))
violated = False
try:
    f = calc_field(det, s, theory=ml, **kw)
    err = np.abs(f.values - f_lens.values).max() / np.abs(f_lens.values).max()
    print('MieLens returned, rel. difference to Lens(Mie):', err)
    violated = err > 1e-6
except Exception as e:
    print('MieLens raised %s: %s' % (type(e).__name__, e))
    violated = ml.can_handle(s) and type(e).__name__ != 'TheoryNotCompatibleError'
print('VIOLATION' if violated else 'ok')
sys.exit(1 if violated else 0)
