"""C08 finding 2: beyond krho >= 3.9*quad_npts MieLens silently returns an exactly-zero
scattered field, whereas the (converged) Lens(Mie) field is non-zero; raising quad_npts moves
the cutoff so "refining the quadrature" changes the MieLens result from 0 to the true value.
"""
import sys, os; sys.path.insert(0, os.getcwd())
import warnings; warnings.filterwarnings('ignore')
import numpy as np
from holopy.scattering import calc_field, Sphere, Mie
from holopy.scattering.theory import MieLens, Lens
from holopy.core import detector_points

nmed, wl = 1.33, 0.66
k = 2 * np.pi * nmed / wl
lens_angle, kz = 0.6, 40.0
krho = np.array([389.0, 391.0, 500.0])   # 391/k = 30.9 um: corner of a 440x440 px, 0.1 um/px image
det = detector_points(x=krho / k * np.cos(0.3), y=krho / k * np.sin(0.3), z=0.)
kw = dict(medium_index=nmed, illum_wavelen=wl, illum_polarization=(1, 0))
s = Sphere(n=1.59, r=0.5, center=(0, 0, kz / k))
off = {'interpolate_integrals': False}
ex = lambda th: calc_field(det, s, theory=th, **kw).sel(vector='x').values.ravel()
a = ex(MieLens(lens_angle, calculator_accuracy_kwargs=off))
b = ex(MieLens(lens_angle, calculator_accuracy_kwargs=dict(off, quad_npts=400)))
c = ex(Lens(lens_angle, Mie(False, False), quad_npts_theta=500, quad_npts_phi=1200))
print('krho                 ', krho)
print('|Ex| MieLens default ', np.abs(a))
print('|Ex| MieLens quad 400', np.abs(b))
print('|Ex| Lens converged  ', np.abs(c))
violated = bool(np.all(a[1:] == 0) and np.all(np.abs(c[1:]) > 1e-6) and np.allclose(b, c, rtol=1e-4, atol=1e-9))
print('VIOLATION' if violated else 'ok')
sys.exit(1 if violated else 0)
