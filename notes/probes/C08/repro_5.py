"""C08 observation 5 (low confidence): Lens caches its pupil quadrature in __init__, so changing
the public `lens_angle` attribute afterwards is silently ignored, whereas MieLens honours it.
"""
import sys, os; sys.path.insert(0, os.getcwd())
import warnings; warnings.filterwarnings('ignore')
import numpy as np
from holopy.scattering import calc_field, Sphere, Mie
from holopy.scattering.theory import MieLens, Lens
from holopy.core import detector_grid

det = detector_grid(4, 0.3)
kw = dict(medium_index=1.33, illum_wavelen=0.66, illum_polarization=(1, 0))
s = Sphere(n=1.59, r=0.5, center=(0.8, 0.9, 4))
acc = {'interpolate_integrals': False}
L = Lens(0.9, Mie(False, False)); M = MieLens(0.9, calculator_accuracy_kwargs=acc)
L.lens_angle = 0.5; M.lens_angle = 0.5
fL = calc_field(det, s, theory=L, **kw).values
fM = calc_field(det, s, theory=M, **kw).values
f5 = calc_field(det, s, theory=Lens(0.5, Mie(False, False)), **kw).values
eL = np.abs(fL - f5).max() / np.abs(f5).max(); eM = np.abs(fM - f5).max() / np.abs(f5).max()
print('parameters reported by mutated Lens:', L.parameters)
print('mutated Lens    vs fresh Lens(0.5): rel diff', eL)
print('mutated MieLens vs fresh Lens(0.5): rel diff', eM)
violated = eL > 1e-3 and eM < 1e-6
print('VIOLATION' if violated else 'ok')
sys.exit(1 if violated else 0)
