"""C08 finding 4 (minor): AberratedMieLens with an empty coefficient list (a list "of any
length" whose coefficients are all zero) crashes instead of reducing to MieLens.
"""
import sys, os; sys.path.insert(0, os.getcwd())
import warnings; warnings.filterwarnings('ignore')
import numpy as np
from holopy.scattering import calc_field, Sphere
from holopy.scattering.theory import MieLens
from holopy.scattering.theory.mielens import AberratedMieLens
from holopy.core import detector_grid

det = detector_grid(4, 0.3)
kw = dict(medium_index=1.33, illum_wavelen=0.66, illum_polarization=(1, 0))
s = Sphere(n=1.59, r=0.5, center=(0.8, 0.9, 4))
acc = {'interpolate_integrals': False}
ref = calc_field(det, s, theory=MieLens(0.9, calculator_accuracy_kwargs=acc), **kw).values
violated = False
for ab in (0.0, [0.0], [0.0] * 7, []):
    try:
        f = calc_field(det, s, theory=AberratedMieLens(ab, 0.9, calculator_accuracy_kwargs=acc), **kw).values
        d = np.abs(f - ref).max()
        print(repr(ab), 'max abs diff to MieLens', d)
        violated |= d > 1e-12
    except Exception as e:
        print(repr(ab), 'raised %s: %s' % (type(e).__name__, e))
        violated = True
print('VIOLATION' if violated else 'ok')
sys.exit(1 if violated else 0)
