"""C13 repro 2 (linear variant): nmpfit's handling of a parameter pegged at a limit zeroes the
whole Levenberg-Marquardt step (alpha = 0) when every component of the step has
the same sign, and the minimiser then reports convergence (status 1/2/3) at a
point that is not the bounded optimum.

third_party/nmpfit.py, mpfit.__init__, "Do not allow any steps out of bounds":
    numpy.clip(numpy.take(wa1, whlpeg), 0., max(wa1))     # lower-pegged
    numpy.clip(numpy.take(wa1, whupeg), min(wa1), 0.)     # upper-pegged
numpy.clip with a_min > a_max returns a_max, so when max(wa1) < 0 the pegged
component keeps its negative (outward) step, t = (llim - x)/wa1 = 0 and alpha
becomes 0.  MPFIT (IDL) has  wa1[whlpeg] = wa1[whlpeg] > 0, i.e. maximum(.,0).

A linear least-squares problem with box bounds is used so that the true bounded
optimum is known exactly (scipy.optimize.lsq_linear).
"""
import sys, os; sys.path.insert(0, os.getcwd())
import numpy as np
np.NaN = np.nan   # sandbox numpy 2.x
from scipy.optimize import lsq_linear
from holopy.inference import prior, NmpfitStrategy

A = np.array([[0.29506057, -1.2515498, -0.43532019],
              [-1.24970337, -0.29936976, 0.74945382],
              [-0.49312996, -0.06526463, 0.20547532],
              [1.66688875, 0.81933051, -1.60821703]])
b = np.array([9.37478505, -6.67415022, -2.6413729, 9.56620727])
guess = np.array([4.03171885, -4.92436936, -4.35467147])
lo = np.array([-np.inf, -np.inf, -4.37748569])
hi = np.array([4.0778977, np.inf, -4.33579223])

pars = [prior.Uniform(float(l), float(h), guess=float(g), name='p%d' % i)
        for i, (g, l, h) in enumerate(zip(guess, lo, hi))]


def resid(vals):
    return A @ np.array(vals, dtype=float) - b


out, info = NmpfitStrategy().minimize(pars, resid)
out = np.array(out)
ref = lsq_linear(A, b, bounds=(lo, hi), tol=1e-14).x
chi = lambda p: float((resid(p)**2).sum())
print('nmpfit  :', out, 'chi2 %.6e' % chi(out), 'status', info.status,
      'niter', info.niter)
print('optimum :', ref, 'chi2 %.6e' % chi(ref))
print('guess   :', guess, 'chi2 %.6e' % chi(guess))
# restarting from the returned point does not move either
pars2 = [prior.Uniform(float(l), float(h), guess=float(g), name='p%d' % i)
         for i, (g, l, h) in enumerate(zip(out, lo, hi))]
out2, info2 = NmpfitStrategy().minimize(pars2, resid)
print('restart :', np.array(out2), 'chi2 %.6e' % chi(out2), 'status',
      info2.status)
violation = info.status in (1, 2, 3, 4) and chi(out) > 1.05 * chi(ref)
print('VIOLATION: "converged" %.0f%% above the bounded optimum'
      % (100 * (chi(out) / chi(ref) - 1)) if violation else 'ok')
sys.exit(1 if violation else 0)
