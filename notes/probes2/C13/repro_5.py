"""C13 repro 5 (minor): a saved FitResult does not reload to an equivalent
result as far as the data's identity is concerned: the DataArray's name (the
image file name for data read with hp.load_image) comes back as 'data', and a
result holding subset data gains a private '_flat' attribute.
"""
import sys, os; sys.path.insert(0, os.getcwd())
import tempfile
import numpy as np
np.NaN = np.nan   # sandbox numpy 2.x
import holopy as hp
from holopy.scattering import Sphere, calc_holo
from holopy.core.metadata import detector_grid, make_subset_data
from holopy.inference import prior, AlphaModel, NmpfitStrategy

U = prior.Uniform
data = calc_holo(detector_grid(12, 0.1), Sphere(n=1.59, r=0.5, center=(0.6, 0.6, 8)),
                 1.33, 0.66, (1, 0), scaling=0.8)
data.name = 'image0001'
model = AlphaModel(Sphere(n=1.59, r=U(0.3, 0.8, guess=0.51), center=(0.6, 0.6, U(5, 12, guess=8.1))),
                   alpha=U(0.5, 1, guess=0.8), noise_sd=1)
tmp = tempfile.mkdtemp()
res = hp.fit(data, model, strategy=NmpfitStrategy())
hp.save(os.path.join(tmp, 'full.h5'), res)
ld = hp.load(os.path.join(tmp, 'full.h5'))
print('name before save %r, after load %r' % (res.data.name, ld.data.name))
sub = make_subset_data(data, pixels=60, seed=0)
res2 = NmpfitStrategy().fit(model, sub)
hp.save(os.path.join(tmp, 'sub.h5'), res2)
ld2 = hp.load(os.path.join(tmp, 'sub.h5'))
print('subset data attrs before', sorted(res2.data.attrs), 'after', sorted(ld2.data.attrs))
violation = ld.data.name != res.data.name or set(ld2.data.attrs) != set(res2.data.attrs)
print('VIOLATION' if violation else 'ok')
sys.exit(1 if violation else 0)
