"""C13 repro 1: NmpfitStrategy stalls (and reports convergence) as soon as one
parameter is stepped onto a prior bound whose scaled limit does not round-trip
through Prior.scale/unscale.

Two models are fitted to the same noise-free hologram.  They are identical
except that the upper bound of z differs by a few ulp (both bounds are below the
generating z, so the best bounded fit has z pegged at the bound and r, alpha
re-optimised).  With the bound that round-trips exactly the fit reaches the
bounded optimum; with the other one every trial point on the bound gets
lnprior = -inf -> an infinite prior residual, all steps are rejected, the trust
region collapses, and the "converged" result is stuck next to the initial guess.
"""
import sys, os; sys.path.insert(0, os.getcwd())
import warnings
import numpy as np
np.NaN = np.nan   # sandbox numpy 2.x
import holopy as hp
from holopy.scattering import Sphere, calc_holo
from holopy.core.metadata import detector_grid
from holopy.inference import prior, AlphaModel, NmpfitStrategy

U = prior.Uniform
truth = Sphere(n=1.59, r=0.5, center=(0.8, 0.9, 8.0))
data = calc_holo(detector_grid(16, 0.1), truth, 1.33, 0.66, (1, 0), scaling=0.8)

z_guess = 7.75
# look for two neighbouring upper bounds: one that survives scale/unscale, one
# that comes back 1 ulp too large
probe = U(2, 7.9, guess=z_guess)
good = bad = None
zhi = 7.8
for _ in range(200):
    back = probe.unscale(probe.scale(zhi))
    if back > zhi and bad is None:
        bad = zhi
    if back == zhi and good is None:
        good = zhi
    zhi = np.nextafter(zhi, 10)
    if good is not None and bad is not None:
        break
print('upper bounds: exact round trip %r, outward round trip %r (differ by %.1e)'
      % (good, bad, abs(good - bad)))


def run(zhi):
    sph = Sphere(n=1.59, r=U(0.3, 0.9, guess=0.52),
                 center=(0.8, 0.9, U(2, zhi, guess=z_guess)))
    model = AlphaModel(sph, alpha=U(0.3, 1.0, guess=0.75), noise_sd=1)
    with warnings.catch_warnings(record=True) as w:
        warnings.simplefilter('always')
        res = NmpfitStrategy().fit(model, data)
    chi_guess = float(((res.guess_hologram - data)**2).sum())
    chi_fit = float(((res.hologram - data)**2).sum())
    print(' zhi=%r -> %s' % (zhi, res.parameters))
    print('   chi2 guess %.5e  fit %.5e  status %d converged %s  convergence warnings %d'
          % (chi_guess, chi_fit, res.mpfit_details.status,
             res.mpfit_details.converged,
             sum('onvergence' in str(x.message) for x in w)))
    return chi_fit, res

chi_good, res_good = run(good)
chi_bad, res_bad = run(bad)
violation = chi_bad > 1.5 * chi_good
print('stalled fit is %.1fx worse than the same fit with the bound moved by '
      'a few ulp' % (chi_bad / chi_good))
print('VIOLATION' if violation else 'ok')
sys.exit(1 if violation else 0)
