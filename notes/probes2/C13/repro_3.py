"""C13 repro 3: NmpfitStrategy.minimize keeps the parameter list of its first
call on the strategy object (self._parameters) and silently uses those priors
to un-scale the values of every later call, so a strategy object that has been
used once through minimize() returns wrong minima for a different parameter
set.  (NmpfitStrategy.fit() is not affected: initialize_fit/cleanup_from_fit
reset the scratch state.)
"""
import sys, os; sys.path.insert(0, os.getcwd())
import numpy as np
np.NaN = np.nan   # sandbox numpy 2.x
from holopy.inference import prior, NmpfitStrategy


def cost(target):
    return lambda vals: np.array([vals[0] - target, 0.0])

first = [prior.Uniform(0, 10, guess=2.0, name='a')]
second = [prior.Uniform(0, 1000, guess=50.0, name='b')]

strategy = NmpfitStrategy()
r1 = strategy.minimize(first, cost(3.0))[0][0]
r2 = strategy.minimize(second, cost(70.0))[0][0]
r2_fresh = NmpfitStrategy().minimize(second, cost(70.0))[0][0]
print('first problem  (minimum at 3): ', r1)
print('second problem (minimum at 70) on the re-used strategy:', r2)
print('second problem on a fresh strategy:                    ', r2_fresh)
print('scratch state left on the strategy:', strategy.__dict__.get('_parameters'))
violation = abs(r2 - 70.0) > 1e-6 and abs(r2_fresh - 70.0) < 1e-6
print('VIOLATION' if violation else 'ok')
sys.exit(1 if violation else 0)
