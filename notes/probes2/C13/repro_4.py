"""C13 repro 4: the documented option NmpfitStrategy(quiet=False) cannot be used
with a model whose priors are unnamed (the normal way of writing a model):
minimize() labels the minimiser's parameters with the priors' own .name
(None) instead of the model's parameter names, and nmpfit's iteration printer
fails with a TypeError.  With named priors it prints the priors' names, which
are not the model's names when the model had to disambiguate them.
"""
import sys, os; sys.path.insert(0, os.getcwd())
import io, contextlib
import numpy as np
np.NaN = np.nan   # sandbox numpy 2.x
import holopy as hp
from holopy.scattering import Sphere, calc_holo
from holopy.core.metadata import detector_grid
from holopy.inference import prior, AlphaModel, NmpfitStrategy

U = prior.Uniform
data = calc_holo(detector_grid(12, 0.1), Sphere(n=1.59, r=0.5, center=(0.6, 0.6, 8)),
                 1.33, 0.66, (1, 0), scaling=0.8)
violation = False

model = AlphaModel(Sphere(n=1.59, r=U(0.3, 0.8, guess=0.51), center=(0.6, 0.6, U(5, 12, guess=8.1))),
                   alpha=U(0.5, 1, guess=0.8), noise_sd=1)
print('model parameter names:', model._parameter_names)
try:
    with contextlib.redirect_stdout(io.StringIO()):
        hp.fit(data, model, strategy=NmpfitStrategy(quiet=False))
    print('quiet=False fit with unnamed priors: ok')
except TypeError as e:
    print('quiet=False fit with unnamed priors raised TypeError:', e)
    violation = True

# named priors: the printed labels are the priors' names, not the model's
r = U(0.3, 0.8, guess=0.51, name='size')
z = U(5, 12, guess=8.1, name='size')   # model renames this one to size_0
model = AlphaModel(Sphere(n=1.59, r=r, center=(0.6, 0.6, z)), alpha=0.8, noise_sd=1)
buf = io.StringIO()
with contextlib.redirect_stdout(buf):
    res = hp.fit(data, model, strategy=NmpfitStrategy(quiet=False, maxiter=2))
labels = [l.split('=')[0].strip() for l in buf.getvalue().splitlines()[1:3]]
print('model names', model._parameter_names, 'result names', list(res.parameters),
      'labels printed by the minimiser', labels)
if labels != model._parameter_names:
    violation = True
print('VIOLATION' if violation else 'ok')
sys.exit(1 if violation else 0)
