"""C13 repro 2b: same defect as repro_2 (step zeroed when a parameter is pegged
at a bound), but here the generating parameters lie INSIDE every prior's
bounds and the guess is within 3 % of them.  The first LM step overshoots and
is clipped onto the lower bound of alpha; in the next iteration the pegged
alpha blocks the whole step (alpha_step = 0) and nmpfit reports convergence
(status 3, no warning) 2 % away from the generating parameters.  The scipy
strategy started from the same guess recovers them.
"""
import sys, os; sys.path.insert(0, os.getcwd())
import warnings
import numpy as np
np.NaN = np.nan   # sandbox numpy 2.x
import holopy as hp
from holopy.scattering import Sphere, calc_holo
from holopy.core.metadata import detector_grid
from holopy.inference import (prior, AlphaModel, NmpfitStrategy,
                              LeastSquaresScipyStrategy)

U = prior.Uniform
truth = {'n': 1.5579054870523357, 'r': 0.5015369449891978,
         'z': 11.066873239723119, 'alpha': 0.8351203024044422}
guess = {'n': 1.5830152707878804, 'r': 0.5121298722047203,
         'z': 11.070054843758518, 'alpha': 0.8556418260295778}
bounds = {'n': (1.5514628301246942, 1.6779961870351534),
          'r': (0.49989867551372075, 0.5428576645370036),
          'z': (11.066744562555323, 11.73425813438403),
          'alpha': (0.829455788819537, 0.9069803355913526)}
data = calc_holo(detector_grid(16, 0.1),
                 Sphere(n=truth['n'], r=truth['r'], center=(0.8, 0.9, truth['z'])),
                 1.33, 0.66, (1, 0), scaling=truth['alpha'])


def P(k):
    p = U(*bounds[k], guess=guess[k], name=k)
    assert p.lower_bound <= truth[k] <= p.upper_bound
    assert abs(guess[k] / truth[k] - 1) < 0.03
    # bounds survive scale/unscale exactly, so this is not repro_1's problem
    assert p.unscale(p.scale(p.lower_bound)) == p.lower_bound
    assert p.unscale(p.scale(p.upper_bound)) == p.upper_bound
    return p

def model():
    return AlphaModel(Sphere(n=P('n'), r=P('r'), center=(0.8, 0.9, P('z'))),
                      alpha=P('alpha'), noise_sd=1)

out = {}
for strategy in (NmpfitStrategy(), LeastSquaresScipyStrategy()):
    with warnings.catch_warnings(record=True) as w:
        warnings.simplefilter('always')
        res = hp.fit(data, model(), strategy=strategy)
    err = max(abs(res.parameters[k] / truth[k] - 1) for k in truth)
    nwarn = sum('onvergence' in str(x.message) for x in w)
    name = type(strategy).__name__
    out[name] = err
    print(name, res.parameters)
    print('   max relative error %.2e, convergence warnings %d' % (err, nwarn),
          ('status %d niter %d' % (res.mpfit_details.status, res.mpfit_details.niter))
          if hasattr(res, 'mpfit_details') else '')
violation = out['NmpfitStrategy'] > 1e-3 and out['LeastSquaresScipyStrategy'] < 1e-6
print('VIOLATION' if violation else 'ok')
sys.exit(1 if violation else 0)
