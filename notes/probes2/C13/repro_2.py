"""C13 repro 2: a hologram fit with NmpfitStrategy stops after one real
iteration and reports convergence (status 3) as soon as one parameter is pegged
at its prior bound while the remaining Levenberg-Marquardt step has the same
sign in every component; the result is ~4 orders of magnitude in chi^2 above the
bounded optimum (and restarting from it does not move).

Cause: third_party/nmpfit.py, mpfit.__init__, "Do not allow any steps out of
bounds":
    numpy.clip(numpy.take(wa1, whlpeg), 0., max(wa1))     # lower-pegged
    numpy.clip(numpy.take(wa1, whupeg), min(wa1), 0.)     # upper-pegged
numpy.clip with a_min > a_max returns a_max, so when max(wa1) < 0 the pegged
component keeps its outward step, t = (llim - x)/wa1 = 0, alpha = 0 and the
whole step is multiplied by zero.  MPFIT has wa1[whlpeg] = wa1[whlpeg] > 0.
(repro_2_linear.py shows the same thing on a linear problem whose bounded
optimum is known exactly.)
"""
import sys, os; sys.path.insert(0, os.getcwd())
import warnings
import numpy as np
np.NaN = np.nan   # sandbox numpy 2.x
from scipy.optimize import least_squares
import holopy as hp
from holopy.scattering import Sphere, calc_holo
from holopy.core.metadata import detector_grid
from holopy.inference import prior, AlphaModel, NmpfitStrategy

U = prior.Uniform
truth = Sphere(n=1.59, r=0.5, center=(0.8, 0.9, 8.0))
data = calc_holo(detector_grid(16, 0.1), truth, 1.33, 0.66, (1, 0), scaling=0.8)


def make_model(guess):
    # the generating index (1.59) is just outside the prior on n; everything
    # else is wide open
    sph = Sphere(n=U(1.598, 1.9, guess=guess[0]), r=U(0.2, 0.9, guess=guess[1]),
                 center=(0.8, 0.9, U(2, 15, guess=guess[2])))
    return AlphaModel(sph, alpha=U(0.5, 1.0, guess=guess[3]), noise_sd=1)

model = make_model([1.601, 0.512, 8.27, 0.87])
p = model.parameters['n']
assert p.unscale(p.scale(p.lower_bound)) == p.lower_bound  # not repro_1's problem
names = model._parameter_names
fun = lambda v: model._residuals(list(v), data, 1).ravel()
chi = lambda v: float((fun(v)**2).sum())

with warnings.catch_warnings(record=True) as w:
    warnings.simplefilter('always')
    res = hp.fit(data, model, strategy=NmpfitStrategy())
fit = [res.parameters[k] for k in names]
d = res.mpfit_details
print('guess  :', model.initial_guess, 'chi2 %.4e' % chi(list(model.initial_guess.values())))
print('nmpfit :', res.parameters, 'chi2 %.4e' % chi(fit))
print('         status', d.status, 'converged', d.converged, 'niter', d.niter,
      'convergence warnings', sum('onvergence' in str(x.message) for x in w))

lo = [model.parameters[k].lower_bound for k in names]
hi = [model.parameters[k].upper_bound for k in names]
x0 = np.clip(fit, np.array(lo) + 1e-12, np.array(hi) - 1e-12)
ref = least_squares(fun, x0, bounds=(lo, hi), xtol=1e-13, ftol=1e-13,
                    gtol=1e-13, x_scale=np.abs(x0))
print('bounded optimum (scipy trf started from the nmpfit result):',
      dict(zip(names, ref.x)), 'chi2 %.4e' % chi(ref.x))

with warnings.catch_warnings():
    warnings.simplefilter('ignore')
    res2 = hp.fit(data, make_model(fit), strategy=NmpfitStrategy())
print('nmpfit restarted from its own result: chi2 %.4e status %d' % (
    chi([res2.parameters[k] for k in names]), res2.mpfit_details.status))

violation = d.converged and chi(fit) > 100 * chi(ref.x)
print('VIOLATION: converged result is %.0fx above the bounded optimum'
      % (chi(fit) / chi(ref.x)) if violation else 'ok')
sys.exit(1 if violation else 0)
