"""C11 repro 2: a prior shared between members of nested Scatterers is exposed under
a name that is the key of a different (fixed) place of the scatterer."""
import sys, os; sys.path.insert(0, os.getcwd())
import warnings; warnings.simplefilter('ignore')
from holopy.scattering import Sphere, Scatterers, Mie
from holopy.core.prior import Uniform
from holopy.inference import AlphaModel

p = Uniform(0.2, 0.9)
scat = Scatterers([
    Scatterers([Sphere(n=1.5, r=0.3, center=[0, 0, 0]),
                Sphere(n=1.5, r=p, center=[1, 0, 0])]),       # keys 0:0:*, 0:1:*
    Sphere(n=1.5, r=0.5, center=[5, 0, 0]),                    # keys 1:*   (all fixed)
    Scatterers([Sphere(n=1.5, r=0.3, center=[9, 0, 0]),
                Sphere(n=1.5, r=p, center=[10, 0, 0])])])      # keys 2:0:*, 2:1:*
model = AlphaModel(scat, theory=Mie())
names = list(model.parameters)
print('parameter names:', names)
keys = scat.parameters
sites = [k for k, v in keys.items() if isinstance(v, Uniform)]
print('places where the prior is used:', sites)
built = model.scatterer_from_parameters({names[0]: 0.77})
print('radius of member 1 after setting', names[0], '= 0.77 ->', built.scatterers[1].r)
bad = names[0] in keys and names[0] not in sites
print('VIOLATION: parameter %r is named after a fixed place it does not control' % names[0] if bad else 'ok')
sys.exit(1 if bad else 0)
