"""C11 repro 5: rebuilding a scatterer from a PARTIAL parameter dictionary splits a prior
that is shared between two of its places into independent copies (the tie is lost)."""
import sys, os; sys.path.insert(0, os.getcwd())
import warnings; warnings.simplefilter('ignore')
from holopy.scattering import Sphere, Spheres
from holopy.core.prior import Uniform
from holopy.inference import AlphaModel

p = Uniform(0.4, 0.6)
s = Sphere(n=1.5, r=p, center=[0, 0, p + 5])          # sphere resting 5 above a wall
print('original            :', list(AlphaModel(s).parameters))
full = s.from_parameters({**s.parameters, 'n': 1.6})
part = s.from_parameters({'n': 1.6})
print('full dict rebuild   :', list(AlphaModel(full).parameters))
print('partial dict rebuild:', list(AlphaModel(part).parameters), '(== full rebuild: %s)' % (part == full))
sp = Spheres([s, Sphere(n=1.5, r=p, center=[3, 0, 5])], warn=False)
print('cluster original    :', list(AlphaModel(sp).parameters))
sp2 = sp.from_parameters({'0:n': 1.6})
print('cluster partial     :', list(AlphaModel(sp2).parameters))
bad = len(AlphaModel(part).parameters) != 1 or len(AlphaModel(sp2).parameters) != 1
print('VIOLATION' if bad else 'ok')
sys.exit(1 if bad else 0)
