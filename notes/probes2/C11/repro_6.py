"""C11 repro 6: fit(data, scatterer, parameters=[...]) / make_default_model /
parameterize_scatterer silently ignore coordinate names of members of nested Scatterers."""
import sys, os; sys.path.insert(0, os.getcwd())
import warnings; warnings.simplefilter('ignore')
from holopy.scattering import Sphere, Scatterers
from holopy.core.prior import Prior
from holopy.inference.interface import parameterize_scatterer

inner = Scatterers([Sphere(n=1.5, r=0.5, center=[1, 2, 3]), Sphere(n=1.4, r=0.4, center=[4, 5, 6])])
s = Scatterers([inner, Sphere(n=1.6, r=0.3, center=[7, 8, 9])])
asked = ['0:0:x', '0:1:r', '1:x']
ps = parameterize_scatterer(s, asked)
def priors(x):
    if isinstance(x, Prior): return [x.name]
    if isinstance(x, (list, tuple)): return sum([priors(y) for y in x], [])
    return []
got = sum([priors(v) for v in ps.parameters.values()], [])
print('asked to vary:', asked)
print('priors placed:', got)
bad = sorted(got) != sorted(asked)
print('VIOLATION: %s silently not varied' % sorted(set(asked) - set(got)) if bad else 'ok')
sys.exit(1 if bad else 0)
