"""C11 repro 3: add_tie with a repeated name deletes the parameter and silently ties
its place to the NEXT (unequal) parameter, bypassing the equality check."""
import sys, os; sys.path.insert(0, os.getcwd())
import warnings; warnings.simplefilter('ignore')
from holopy.scattering import Sphere
from holopy.core.prior import Uniform
from holopy.inference import AlphaModel

s = Sphere(n=Uniform(1.4, 1.6), r=Uniform(0.4, 0.6),
           center=[Uniform(10, 20), Uniform(1, 2), Uniform(5, 6)])
m = AlphaModel(s, alpha=Uniform(0.5, 1))
before = list(m.parameters)
m.add_tie(['r', 'r'])
after = list(m.parameters)
print('names before:', before)
print('names after add_tie(["r", "r"]):', after)
guess = m.initial_guess_scatterer
print('initial guess scatterer:', guess)
bad = 'r' not in after or guess.r != 0.5
print('VIOLATION: radius now follows center.0 (guess %s, prior %s)' % (guess.r, m.parameters.get('center.0')) if bad else 'ok')
sys.exit(1 if bad else 0)
