"""C11 repro 1: Model(theory='auto') picks the theory from a dummy scatterer made of
zeros, so every multi-sphere model silently gets Multisphere, whatever the geometry;
model.forward(guess) then disagrees with calc_holo(guess scatterer)."""
import sys, os; sys.path.insert(0, os.getcwd())
import warnings; warnings.simplefilter('ignore')
import numpy as np
np.NaN = np.nan
from holopy.scattering import Sphere, Spheres, calc_holo
from holopy.scattering.interface import determine_default_theory_for
from holopy.core.metadata import detector_grid
from holopy.core.prior import Uniform
from holopy.inference import AlphaModel

optics = dict(medium_index=1.33, illum_wavelen=0.66, illum_polarization=(1, 0))
# two spheres 50 um apart: separation >> 30 radii, so the library's own rule says
# "Mie superposition" (interface._choose_mie_vs_multisphere)
scat = Spheres([Sphere(n=1.59, r=Uniform(0.4, 0.6), center=[2, 2, 10]),
                Sphere(n=1.59, r=0.5, center=[2, 2, 60])])
model = AlphaModel(scat, noise_sd=0.1, **optics)
guess_scatterer = model.initial_guess_scatterer
expected_theory = determine_default_theory_for(guess_scatterer)
print('theory chosen by calc_holo for the guess scatterer:', type(expected_theory).__name__)
print('theory stored in the model                        :', type(model.theory).__name__)
print('dummy scatterer the model used for the decision   :', model._dummy_scatterer)

det = detector_grid(8, 0.5)
direct = calc_holo(det, guess_scatterer, **optics)
through_model = model.forward(model.initial_guess, det)
diff = float(np.abs(direct.values - through_model.values).max())
print('max |calc_holo(guess) - model.forward(guess)| =', diff)
bad = type(expected_theory) is not type(model.theory) and diff > 1e-3
print('VIOLATION' if bad else 'ok')
sys.exit(1 if bad else 0)
