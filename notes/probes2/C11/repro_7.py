"""C11 repro 7 (low interest, crash): Model accepts a per-channel dictionary for noise_sd
(model.py:52-54 special-cases dict) and maps it correctly, but lnlike cannot use it."""
import sys, os; sys.path.insert(0, os.getcwd())
import warnings; warnings.simplefilter('ignore')
import numpy as np
from holopy.scattering import Sphere, calc_holo
from holopy.core.metadata import detector_grid
from holopy.core.prior import Uniform
from holopy.inference import AlphaModel

wl = {'red': 0.66, 'green': 0.52}
det = detector_grid(8, 0.2, extra_dims={'illumination': ['red', 'green']})
s = Sphere(n={'red': 1.58, 'green': 1.6}, r=0.5, center=[0.8, 0.8, 6])
data = calc_holo(det, s, medium_index=1.33, illum_wavelen=wl, illum_polarization=(1, 0))
ps = Sphere(n={'red': Uniform(1.5, 1.7), 'green': 1.6}, r=0.5, center=[0.8, 0.8, 6])
m = AlphaModel(ps, noise_sd={'red': 0.1, 'green': 0.2}, medium_index=1.33, illum_wavelen=wl, illum_polarization=(1, 0))
print('noise_sd the model returns:', m.noise_sd)
try:
    print('lnlike =', m.lnlike({'n.red': 1.58}, data)); bad = False
except TypeError as e:
    print('lnlike raised', repr(e)[:120]); bad = True
print('VIOLATION' if bad else 'ok')
sys.exit(1 if bad else 0)
