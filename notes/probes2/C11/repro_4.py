"""C11 repro 4: Model.scatterer does not give back the scatterer the model was built
from: ComplexPrior objects come back as generic TransformedPrior(complex, ...) and
named TransformedPriors lose their name."""
import sys, os; sys.path.insert(0, os.getcwd())
import warnings; warnings.simplefilter('ignore')
import numpy as np
from holopy.scattering import Sphere
from holopy.core.prior import Uniform, ComplexPrior, TransformedPrior
from holopy.inference import AlphaModel

bad = False
s1 = Sphere(n=ComplexPrior(Uniform(1.4, 1.6), Uniform(0, 0.1)), r=Uniform(0.4, 0.6), center=[1, 2, 3])
m1 = AlphaModel(s1)
print(type(s1.n).__name__, '->', type(m1.scatterer.n).__name__, '; equal:', m1.scatterer == s1)
bad |= not (m1.scatterer == s1)
try:
    m1.scatterer.n.lnprob(1.5 + 0.05j)
except NotImplementedError as e:
    print('lnprob of the returned index prior:', repr(e)); bad = True
s2 = Sphere(n=1.5, r=TransformedPrior(np.sqrt, Uniform(0.1, 0.4), name='root_area'), center=[1, 2, 3])
m2 = AlphaModel(s2)
print('name', s2.r.name, '->', m2.scatterer.r.name, '; equal:', m2.scatterer == s2)
bad |= not (m2.scatterer == s2)
s3 = Sphere(n=Uniform(1.4, 1.6), r=Uniform(0.4, 0.6), center=[1, 2, 3])
print('plain priors equal:', AlphaModel(s3).scatterer == s3)
print('VIOLATION' if bad else 'ok')
sys.exit(1 if bad else 0)
