"""C02 finding 3: calc_scat_matrix drops the x, y, z coordinates of explicit
Cartesian detector points (calc_field keeps them).

Run from the checkout root.  Exit 1 when the violation is present.
"""
import sys, os
sys.path.insert(0, os.getcwd())
import warnings
import numpy as np
warnings.filterwarnings('ignore')
from holopy.scattering import Sphere, Mie, Multisphere, calc_scat_matrix, calc_field
from holopy.core.metadata import detector_points

s = Sphere(n=1.59, r=0.5, center=(0.4, 0.5, 3.0))
det = detector_points(x=np.array([0., 1., 2.]), y=np.array([0.5, 0.5, 1.]),
                      z=np.array([0., 0., 1.]))
bad = False
for theory in (Mie(), Multisphere()):
    sm = calc_scat_matrix(det, s, 1.33, 0.66, theory=theory)
    f = calc_field(det, s, 1.33, 0.66, (1, 0), theory=theory)
    print(type(theory).__name__)
    print('  detector coords     :', sorted(det.coords))
    print('  calc_field coords   :', sorted(f.coords))
    print('  calc_scat_matrix    :', sorted(sm.coords))
    missing = [c for c in ('x', 'y', 'z') if c not in sm.coords]
    if missing:
        print('  -> missing from the scattering matrices:', missing)
        bad = True
if bad:
    print('VIOLATION: the positions of the detector points are lost in the '
          'result of calc_scat_matrix')
    sys.exit(1)
print('no violation')
sys.exit(0)
