"""C02 finding 2: labelled polarisation vectors are read by POSITION by the
field solvers (Mie.raw_fields / Multisphere.raw_fields use
``illum_polarization.values[:2]``) but by LABEL by the rest of holopy
(xarray alignment in scattered_field_to_hologram).  An xarray polarisation
whose 'vector' coordinate is not in the order x, y, z silently produces the
field of a different polarisation, and a hologram that is consistent with
neither.

Run from the checkout root.  Exit 1 when the violation is present.
"""
import sys, os
sys.path.insert(0, os.getcwd())
import warnings
import numpy as np
import xarray as xr
warnings.filterwarnings('ignore')
from holopy.scattering import Sphere, Mie, Multisphere, calc_field, calc_holo
from holopy.core.metadata import detector_grid

det = detector_grid(shape=(4, 4), spacing=0.3)
s = Sphere(n=1.59, r=0.5, center=(0.4, 0.5, 3.0))
# E_y = 0.8, E_x = 0.6, written with the labels in the order y, x, z
pol_labelled = xr.DataArray([0.8, 0.6, 0.0], dims='vector',
                            coords={'vector': ['y', 'x', 'z']})
same_pol = (0.6, 0.8)       # the same physical polarisation (x, y)
swapped_pol = (0.8, 0.6)    # a different polarisation

bad = False
for theory in (Mie(), Multisphere()):
    name = type(theory).__name__
    fa = calc_field(det, s, 1.33, 0.66, pol_labelled, theory=theory)
    fb = calc_field(det, s, 1.33, 0.66, same_pol, theory=theory)
    fc = calc_field(det, s, 1.33, 0.66, swapped_pol, theory=theory)
    fa = fa.sel(vector=['x', 'y', 'z']).transpose(*fb.dims)
    scale = np.abs(fb.values).max()
    d_same = np.abs(fa.values - fb.values).max() / scale
    d_swap = np.abs(fa.values - fc.values).max() / scale
    print(f'{name}: field(labelled Ex=.6,Ey=.8) vs field((.6,.8)) = {d_same:.3e}; '
          f'vs field((.8,.6)) = {d_swap:.3e}')
    ha = calc_holo(det, s, 1.33, 0.66, pol_labelled, theory=theory)
    hb = calc_holo(det, s, 1.33, 0.66, same_pol, theory=theory)
    hc = calc_holo(det, s, 1.33, 0.66, swapped_pol, theory=theory)
    h_same = np.abs(ha.values - hb.values).max()
    h_swap = np.abs(ha.values - hc.values).max()
    print(f'{name}: holo(labelled) vs holo((.6,.8)) = {h_same:.3e}; '
          f'vs holo((.8,.6)) = {h_swap:.3e}')
    if d_same > 1e-6:
        bad = True

if bad:
    print('VIOLATION: the scattered field is computed for the polarisation '
          'obtained by reading the labelled vector positionally (labels '
          'ignored); the hologram mixes both interpretations.')
    sys.exit(1)
print('no violation')
sys.exit(0)
