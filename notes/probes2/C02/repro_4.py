"""C02 finding 4 (minor, precision slip): mieangfuncs.asm_mie_far /
asm_mie_fullradial evaluate the series prefactor (2n+1)/(n(n+1)) in SINGLE
precision, so the Lorenz-Mie amplitude scattering matrix is only good to
~1e-7 relative although everything else is double precision (the pure-Python
series in mielensfunctions is good to 1e-13 for the same sphere).

Run from the checkout root.  Exit 1 when the slip is present.
"""
import sys, os
sys.path.insert(0, os.getcwd())
import numpy as np
from holopy.scattering.theory.mie_f import miescatlib, mieangfuncs
from holopy.scattering.theory.mielensfunctions import calculate_pil_taul

bad = False
for x, m in [(2.0, 1.2), (10., 1.5), (50., 1.33), (300., 1.2)]:
    ns = miescatlib.nstop(x)
    c = miescatlib.scatcoeffs(m, x, ns, 1e-2, 1e-16)
    n = np.arange(1, ns + 1)
    pre64 = (2 * n + 1) / (n * (n + 1))
    n32 = n.astype(np.float32)
    pre32 = ((np.float32(2) * n32 + np.float32(1)) /
             (n32 * (n32 + np.float32(1)))).astype(np.float64)
    for theta in (1.0, np.pi):
        S = mieangfuncs.asm_mie_far(c, theta)
        pi, tau = calculate_pil_taul(theta, ns)
        pi, tau = pi[0], tau[0]
        s1_64 = np.sum(pre64 * (c[0] * pi + c[1] * tau))
        s1_32 = np.sum(pre32 * (c[0] * pi + c[1] * tau))
        e64 = abs(S[1, 1] - s1_64) / abs(s1_64)
        e32 = abs(S[1, 1] - s1_32) / abs(s1_64)
        print(f'x={x:<6} theta={theta:.3f}: |S1 - double-precision sum|/|S1| = {e64:.2e}; '
              f'|S1 - sum with float32 prefactor|/|S1| = {e32:.2e}')
        if e64 > 1e-10 and e32 < 1e-13:
            bad = True
if bad:
    print('SLIP PRESENT: the compiled sum reproduces the float32-prefactor sum '
          'to rounding and differs from the double-precision sum by ~1e-8..1e-7')
    sys.exit(1)
print('no violation')
sys.exit(0)
