"""C02 finding 1: Multisphere silently rounds the sphere's relative refractive
index to SINGLE precision (scsmfo_min.for, mie1: ``ri=cmplx(sn,sk)``).

Run from the checkout root:  /venv/bin/python /tmp/probe2_out/C02/repro_1.py
Exit status 1 when the violation is present, 0 otherwise.
"""
import sys, os
sys.path.insert(0, os.getcwd())
import warnings
import numpy as np
warnings.filterwarnings('ignore')
import holopy
from holopy.scattering import Sphere, Mie, Multisphere, calc_scat_matrix
from holopy.core.metadata import detector_points

print('holopy from', holopy.__file__)
wl, nmed = 0.66, 1.0
k = 2 * np.pi * nmed / wl
thetas = np.linspace(0, np.pi, 19)
det = detector_points(theta=thetas, phi=0 * thetas)
# tight tolerances so that the expansion-order truncation plays no role
MS = Multisphere(qeps1=1e-14, qeps2=1e-14)


def asm(m, x, theory):
    s = Sphere(n=m * nmed, r=x / k, center=(0, 0, 0))
    return calc_scat_matrix(det, s, nmed, wl, theory=theory).values


def f32(m):
    m32 = complex(np.complex64(m))
    return m32 if m32.imag else m32.real


violated = False
cases = [
    # (x, m, comment)
    (2.0, 1.2, 'generic, m not representable in float32'),
    (10.0, 2.1, 'generic, m not representable in float32'),
    (5.0, 1.59 + 0.01j, 'generic absorbing'),
    (2.0, 1.5, 'control: m exactly representable in float32'),
    (5.0, 1.5 + 0.5j, 'control: m exactly representable in float32'),
    # sharp (high-Q) Mie resonances of an m = 2.6 sphere: the 3e-8 relative
    # perturbation of m moves the sphere off the resonance
    (8.275400184, 2.6, 'b_17 resonance'),
    (14.065364987, 2.6, 'a_22 resonance'),
    (13.236638620, 2.6, 'b_21 resonance'),
]
for x, m, comment in cases:
    mie = asm(m, x, Mie())
    mie32 = asm(f32(m), x, Mie())
    ms = asm(m, x, MS)
    scale = np.abs(mie).max()
    d_true = np.abs(ms - mie).max() / scale
    d_f32 = np.abs(ms - mie32).max() / scale
    print(f'x={x:<13} m={m!s:<13} |MS - Mie(m)| = {d_true:.2e}   '
          f'|MS - Mie(float32(m))| = {d_f32:.2e}   [{comment}]')
    if f32(m) != m and d_true > 1e-7 and d_true > 5 * d_f32:
        violated = True

if violated:
    print('VIOLATION: Multisphere reproduces Mie evaluated at float32(m), '
          'not at m; on sharp resonances the one-sphere cluster disagrees with '
          'Lorenz-Mie by several per cent to tens of per cent.')
    sys.exit(1)
print('no violation')
sys.exit(0)
