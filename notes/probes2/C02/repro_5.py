"""C02 finding 5 (low interest, crash): calc_scat_matrix documents array-valued
illum_wavelen ("result will add a dimension and have all wavelengths") but
fails with an unrelated AttributeError for any multi-wavelength input, because
prep_schema is called with illum_polarization=False and then does
``illumination in illum_polarization.dims`` on the bool.

Run from the checkout root.  Exit 1 when the defect is present.
"""
import sys, os
sys.path.insert(0, os.getcwd())
import warnings
import numpy as np
import xarray as xr
warnings.filterwarnings('ignore')
from holopy.scattering import Sphere, Mie, Multisphere, calc_scat_matrix, calc_field
from holopy.core.metadata import detector_points

det = detector_points(theta=np.array([0., 1., 3.]), phi=np.array([0., 1., 2.]))
s = Sphere(n=1.59, r=0.5, center=(1, 1, 5))
labelled = xr.DataArray([0.66, 0.52], dims='illumination',
                        coords={'illumination': ['red', 'green']})
bad = False
for wl in ([0.66, 0.52], labelled):
    for theory in (Mie(), Multisphere()):
        try:
            sm = calc_scat_matrix(det, s, 1.33, wl, theory=theory)
            print(type(theory).__name__, 'ok', sm.dims)
        except AttributeError as e:
            print(type(theory).__name__, type(wl).__name__, '-> AttributeError:', e)
            bad = True
# the same inputs are accepted by calc_field
det_r = detector_points(r=5., theta=np.array([0., 1., 3.]), phi=np.array([0., 1., 2.]))
f = calc_field(det_r, s, 1.33, [0.66, 0.52], (1, 0), theory=Mie())
print('calc_field with the same wavelengths works, dims', f.dims)
sys.exit(1 if bad else 0)
