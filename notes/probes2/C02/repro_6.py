"""C02 finding 6 (low interest): for a one-sphere cluster the automatic theory
choice (_choose_mie_vs_multisphere -> Mie) is one that calc_scat_matrix cannot
use (Mie.raw_scat_matrs refuses a Spheres object and calc_scat_matrix, unlike
calc_field, has no superposition fall-back), so
calc_scat_matrix(detector, Spheres([sphere])) fails with theory='auto' whereas
it works with theory=Multisphere() and calc_field works with 'auto'.

Run from the checkout root.  Exit 1 when the defect is present.
"""
import sys, os
sys.path.insert(0, os.getcwd())
import warnings
import numpy as np
warnings.filterwarnings('ignore')
from holopy.scattering import Sphere, Spheres, Mie, Multisphere, calc_scat_matrix, calc_field
from holopy.core.metadata import detector_points

det = detector_points(r=5., theta=np.array([0., 1., 3.]), phi=np.array([0., 1., 2.]))
cluster = Spheres([Sphere(n=1.59, r=0.5, center=(1, 2, 3))])
bad = False
f = calc_field(det, cluster, 1.33, 0.66, (1, 0))
print("calc_field(..., theory='auto') on the one-sphere cluster: ok")
sm = calc_scat_matrix(det, cluster, 1.33, 0.66, theory=Multisphere())
print('calc_scat_matrix(..., theory=Multisphere()): ok')
try:
    calc_scat_matrix(det, cluster, 1.33, 0.66)
    print("calc_scat_matrix(..., theory='auto'): ok")
except Exception as e:
    print("calc_scat_matrix(..., theory='auto') ->", type(e).__name__, ':', str(e).splitlines()[0])
    bad = True
sys.exit(1 if bad else 0)
