"""C04 / Tmatrix, integer-typed lengths: Tmatrix._parse_args computes the equal-volume radius as
(rz*rxy**2)**(1/3.) without converting to float.  When the lengths are numpy integers (e.g. an
int64 array of sizes expressed in a small unit) rz*rxy**2 wraps around silently, the size
parameter handed to the Fortran code is wrong, and a wrong hologram comes back without any
warning.  The same inputs as Python ints or floats give the right answer.
Run from the checkout root:  /venv/bin/python /tmp/probe2_out/C04/repro_4.py
"""
import sys, os; sys.path.insert(0, os.getcwd())
import warnings; warnings.filterwarnings('ignore')
import numpy as np
import holopy
from holopy.scattering import Spheroid, Tmatrix, calc_holo
from holopy.core import detector_grid
print('holopy from', holopy.__file__)

def holo(cast, s):
    c = (lambda v: v * s) if cast is float else (lambda v: cast(round(v * s)))
    sc = Spheroid(n=1.59, r=(c(0.3), c(0.5)), rotation=(0.1, 0.5, 0.3), center=(c(0.2), c(0.3), c(5)))
    det = detector_grid(shape=[5, 4], spacing=[c(0.1), c(0.2)])
    th = Tmatrix()
    args = th._parse_args(sc, np.array([[1.], [0.3], [0.2]]), 2 * np.pi * 1.33 / c(0.66), 1.33)
    return calc_holo(det, sc, 1.33, c(0.66), (1, 0), theory=th).values, args[0] / args[2]

ref, x0 = holo(float, 1.0)
bad = False
for cast, s in [(float, 1e7), (int, 1e7), (np.int64, 1e3), (np.int64, 1e6), (np.int64, 1e7)]:
    h, x = holo(cast, s)
    d = np.abs(h - ref).max()
    print('%-8s unit = 1e-%d um : axi/lambda = %.6f (float reference %.6f)   max |dI| = %.3g' % (
        cast.__name__, int(np.log10(s)), x, x0, d))
    bad = bad or d > 1e-6
print('VIOLATION PRESENT' if bad else 'no violation')
sys.exit(1 if bad else 0)
