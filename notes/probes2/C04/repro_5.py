"""Side finding (not a C04 clause, found while randomising C04 inputs): with theory=Tmatrix()
a negative Euler angle beta in Spheroid/Cylinder.rotation, or a detector azimuth phi outside
[0, 2 pi] given through detector_points(r, theta, phi), makes the Fortran routine execute STOP:
the whole Python interpreter terminates silently, with exit status 0 and no traceback.
Run from the checkout root:  /venv/bin/python /tmp/probe2_out/C04/repro_5.py
"""
import sys, os, subprocess, textwrap
code = textwrap.dedent('''
    import sys, os; sys.path.insert(0, os.getcwd())
    import warnings; warnings.filterwarnings('ignore')
    import numpy as np
    from holopy.scattering import Spheroid, Tmatrix, calc_field
    from holopy.core import detector_grid, detector_points
    which = sys.argv[1]
    rot = (0.2, -0.4, 0.5) if which == 'beta' else (0.2, 0.4, 0.5)
    sc = Spheroid(n=1.5, r=(0.45, 0.63), rotation=rot, center=(4.6, 3.4, 12.0))
    if which == 'phi':
        det = detector_points(r=np.array([10., 20]), theta=np.array([.1, .2]), phi=np.array([0.5, 1.0]) + 2 * np.pi)
    else:
        det = detector_grid(shape=[4, 5], spacing=[0.1, 0.15])
    out = calc_field(det, sc, 1.38, 0.508, (1, 0), theory=Tmatrix())
    print('RESULT', out.values.ravel()[:2])
''')
bad = False
for which in ('ok', 'beta', 'phi'):
    p = subprocess.run([sys.executable, '-c', code, which], capture_output=True, text=True)
    got = 'RESULT' in p.stdout
    print('%-5s: exit status %d, produced a result: %s, stderr: %r' % (which, p.returncode, got, p.stderr.strip()[-200:]))
    if which != 'ok' and not got and p.returncode == 0:
        bad = True
print('SILENT INTERPRETER EXIT PRESENT' if bad else 'not present')
sys.exit(1 if bad else 0)
