"""C04 / Tmatrix: the hologram of a tilted cylinder (or spheroid) is NOT invariant
under a common rescaling of all lengths: the pixel that lies exactly under the
particle changes by ~1e-3 while every other pixel agrees to ~1e-9.

Cause: Tmatrix.raw_fields builds the field from the wrong amplitude-matrix element
(uses -S12 where S21 is needed), so the forward (theta = 0) field depends on the
azimuth phi, which at theta = 0 is set only by floating-point rounding of
(pixel - centre) and therefore by the unit system.
Run from the checkout root:  /venv/bin/python /tmp/probe2_out/C04/repro_1.py
"""
import sys, os; sys.path.insert(0, os.getcwd())
import warnings; warnings.filterwarnings('ignore')
import numpy as np
import holopy
from holopy.scattering import Cylinder, Tmatrix, calc_holo, calc_field
from holopy.core import detector_grid, detector_points
print('holopy from', holopy.__file__)

def holo(s):
    sc = Cylinder(n=1.8, d=0.3 * s, h=1.0 * s, rotation=(0, 1.1, 2.0),
                  center=(0.3 * s, 0.7 * s, 5 * s))
    det = detector_grid(shape=[8, 8], spacing=0.1 * s)      # pixel (3, 7) is under the particle
    return calc_holo(det, sc, 1.33, 0.66 * s, (1, 0), theory=Tmatrix()).values.squeeze()

ref = holo(1.0)
worst_axis, worst_other = 0.0, 0.0
for s in [1e-9, 1e-6, 1e-3, 3.0, 7.0, 10.0, 1e3, 1e6, 1e9]:
    d = np.abs(holo(s) - ref)
    on_axis = d[3, 7]
    d[3, 7] = 0
    print('scale %8.0e : |dI| at on-axis pixel = %.3e   max |dI| elsewhere = %.3e' % (s, on_axis, d.max()))
    worst_axis = max(worst_axis, on_axis); worst_other = max(worst_other, d.max())

# the underlying discontinuity: forward-scattered field as a function of azimuth
sc = Cylinder(n=1.8, d=0.3, h=1.0, rotation=(0, 1.1, 2.0), center=(0, 0, 5))
phis = np.linspace(0, 2 * np.pi, 9)[:-1]
f = calc_field(detector_points(r=np.full(8, 5.0), theta=np.zeros(8), phi=phis), sc, 1.33, 0.66, (1, 0), theory=Tmatrix())
ex = f.sel(vector='x').values
print('E_x at theta=0 for phi = 0, 45, ..., 315 deg (must all be equal):')
print(np.round(ex, 5))
spread = np.abs(ex - ex[0]).max() / np.abs(ex).max()
print('relative spread of forward field over phi: %.3e' % spread)
bad = worst_axis > 1e-6 and worst_other < 1e-7 and spread > 1e-4
print('VIOLATION PRESENT' if bad else 'no violation')
sys.exit(1 if bad else 0)
