"""Tmatrix returns its amplitude scattering matrices in a different convention from every
other theory (incident basis fixed in the lab, 2x2 block transposed), so for the SAME
homogeneous sphere
  (a) calc_scat_matrix(theory=Tmatrix()) depends on phi and has non-zero S3, S4 whereas
      theory=Mie() gives diag(S2, S1);
  (b) calc_field(theory=Tmatrix()) differs from the far-field Mie field by ~1-6 % away
      from the phi = 0 meridian (E_phi is built from S2 instead of S1);
  (c) Lens(theory=Tmatrix()) gives a completely different hologram from Lens(theory=Mie()).
A corrected conversion (class FixedTmatrix below, not part of the library) agrees with
Mie to 1e-7 in all three, which pins down the faulty expressions.
Run from the checkout root:  /venv/bin/python /tmp/probe2_out/C04/repro_3.py
"""
import sys, os; sys.path.insert(0, os.getcwd())
import warnings; warnings.filterwarnings('ignore')
import numpy as np
import holopy
from holopy.scattering import Sphere, Mie, Tmatrix, calc_field, calc_holo, calc_scat_matrix
from holopy.scattering.theory import Lens
from holopy.scattering.theory.scatteringtheory import ScatteringTheory
from holopy.scattering.theory.tmatrix_f.S import ampld
from holopy.core import detector_grid, detector_points
print('holopy from', holopy.__file__)
np.set_printoptions(precision=4, suppress=True, linewidth=150)

class FixedTmatrix(Tmatrix):
    """what raw_scat_matrs should return: [[S2, S3], [S4, S1]] in the scattering-plane basis"""
    def raw_scat_matrs(self, scatterer, pos, medium_wavevec, medium_index):
        args = self._parse_args(scatterer, pos, medium_wavevec, medium_index)
        s11, s12, s21, s22 = [s * (-2j * np.pi / args[2]) for s in ampld(*args)]
        c, s = np.cos(pos[2]), np.sin(pos[2])
        return np.array([[s11 * c + s12 * s, s11 * s - s12 * c],
                         [-(s21 * c + s22 * s), -s21 * s + s22 * c]]).transpose(2, 0, 1)
    raw_fields = ScatteringTheory.raw_fields

sc = Sphere(n=1.59, r=0.4, center=(0.7, 0.9, 4))
dp = detector_points(theta=np.full(3, 0.6), phi=np.array([0, 0.7, np.pi / 2]))
Sm = calc_scat_matrix(dp, sc, 1.33, 0.66, theory=Mie()).values
St = calc_scat_matrix(dp, sc, 1.33, 0.66, theory=Tmatrix()).values
Sf = calc_scat_matrix(dp, sc, 1.33, 0.66, theory=FixedTmatrix()).values
print('(a) scattering matrix of a sphere at theta=0.6, phi=0.7:\n  Mie\n', Sm[1], '\n  Tmatrix\n', St[1])
da = np.abs(St - Sm).max() / np.abs(Sm).max(); dfa = np.abs(Sf - Sm).max() / np.abs(Sm).max()
print('    rel. difference Tmatrix-Mie %.3g   (corrected conversion: %.3g)' % (da, dfa))

det = detector_grid(shape=[6, 6], spacing=0.3)
fm = calc_field(det, sc, 1.33, 0.66, (1, 0), theory=Mie(False, False)).values
ft = calc_field(det, sc, 1.33, 0.66, (1, 0), theory=Tmatrix()).values
ff = calc_field(det, sc, 1.33, 0.66, (1, 0), theory=FixedTmatrix()).values
db = np.abs(ft - fm).max() / np.abs(fm).max(); dfb = np.abs(ff - fm).max() / np.abs(fm).max()
print('(b) field: rel. difference Tmatrix vs far-field Mie %.3g   (corrected conversion: %.3g)' % (db, dfb))

hm = calc_holo(det, sc, 1.33, 0.66, (1, 0), theory=Lens(0.8, Mie(), 60, 60)).values
ht = calc_holo(det, sc, 1.33, 0.66, (1, 0), theory=Lens(0.8, Tmatrix(), 60, 60)).values
hf = calc_holo(det, sc, 1.33, 0.66, (1, 0), theory=Lens(0.8, FixedTmatrix(), 60, 60)).values
dc = np.abs(ht - hm).max(); dfc = np.abs(hf - hm).max()
print('(c) hologram: max |Lens(Tmatrix) - Lens(Mie)| = %.3g (hologram contrast %.3g)   (corrected conversion: %.3g)' % (
    dc, np.abs(hm - 1).max(), dfc))
bad = da > 1e-3 or db > 1e-3 or dc > 1e-3
print('VIOLATION PRESENT' if bad else 'no violation')
sys.exit(1 if bad else 0)
