"""C04 / Multisphere: the hologram of a two-sphere cluster is NOT invariant under a
common rescaling of all lengths: the pixel exactly under the cluster centre changes by
up to 4e-2 (other pixels agree to 1e-13).

Cause: the off-diagonal elements S3, S4 of the amplitude scattering matrix coming out
of SCSMFO (asmfr / uts_scsmfo.asm) have the opposite sign to the Bohren-Huffman
convention assumed by mieangfuncs.calc_scat_field, so the field in the exact forward
direction depends on the azimuth (cos 4 phi), and the azimuth of the on-axis pixel is
decided by rounding noise, i.e. by the units.
Run from the checkout root:  /venv/bin/python /tmp/probe2_out/C04/repro_2.py
"""
import sys, os; sys.path.insert(0, os.getcwd())
import warnings; warnings.filterwarnings('ignore')
import numpy as np
import holopy
from holopy.scattering import Sphere, Spheres, Multisphere, calc_holo, calc_field
from holopy.scattering.theory.mie_f import mieangfuncs
from holopy.core import detector_grid, detector_points
print('holopy from', holopy.__file__)
sp, i, j = 0.11, 7, 3
cx, cy = i * sp, j * sp

def holo(s):
    sc = Spheres([Sphere(n=1.59, r=0.5 * s, center=((cx - 0.5) * s, (cy - 0.1) * s, 3 * s)),
                  Sphere(n=1.7, r=0.4 * s, center=((cx + 0.5) * s, (cy + 0.1) * s, 3.3 * s))])
    det = detector_grid(shape=[8, 8], spacing=sp * s)
    return calc_holo(det, sc, 1.33, 0.66 * s, (1, 0), theory=Multisphere()).values.squeeze()

ref = holo(1.0)
worst_axis, worst_other = 0.0, 0.0
for s in [1e-9, 1e-6, 1e-3, 0.1, 3.0, 10.0, 1e3, 1e6]:
    d = np.abs(holo(s) - ref)
    on_axis = d[i, j]; d[i, j] = 0
    print('scale %8.0e : |dI| at on-axis pixel = %.3e   max |dI| elsewhere = %.3e' % (s, on_axis, d.max()))
    worst_axis = max(worst_axis, on_axis); worst_other = max(worst_other, d.max())

# forward field versus azimuth
sc = Spheres([Sphere(n=1.59, r=0.5, center=(-0.5, -0.1, 3)), Sphere(n=1.7, r=0.4, center=(0.5, 0.1, 3.3))])
phis = np.linspace(0, 2 * np.pi, 9)[:-1]
f = calc_field(detector_points(r=np.full(8, 3.15), theta=np.zeros(8), phi=phis), sc, 1.33, 0.66, (1, 0), theory=Multisphere())
ex = f.sel(vector='x').values
print('E_x at theta=0 for phi = 0, 45, ..., 315 deg (must all be equal):'); print(np.round(ex, 5))
spread = np.abs(ex - ex[0]).max() / np.abs(ex).max()
print('relative spread over phi: %.3e' % spread)

# same thing from the far-field matrices, and with S3, S4 negated
k = 2 * np.pi * 1.33 / 0.66
pos = np.array([np.full(8, 60.), np.zeros(8), phis])
S = np.array(Multisphere().raw_scat_matrs(sc, pos, k, 1.33))
for label, sign in (('as returned', 1), ('S3,S4 negated', -1)):
    out = []
    for n, (kr, t, p) in enumerate(pos.T):
        es = mieangfuncs.calc_scat_field(kr, p, S[n] * np.array([[1, sign], [sign, 1]]), [1, 0])
        out.append(mieangfuncs.fieldstocart(es, t, p))
    out = np.array(out)
    print('far-field forward E (%s): spread over phi of Ex %.2e, of Ey %.2e' % (
        label, np.abs(out[:, 0] - out[0, 0]).max(), np.abs(out[:, 1] - out[0, 1]).max()))
bad = worst_axis > 1e-6 and worst_other < 1e-9 and spread > 1e-4
print('VIOLATION PRESENT' if bad else 'no violation')
sys.exit(1 if bad else 0)
