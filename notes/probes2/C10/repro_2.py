"""C10 repro 2: Tmatrix places a tilted spheroid/cylinder with its axis mirrored in z
(equivalently: turned by 180 degrees about the optical axis) with respect to holopy's own
laboratory frame, i.e. the frame in which scatterer centres, Spheroid.indicators / in_domain and
holopy.core.math.rotation_matrix are expressed.  The field therefore does NOT 'mirror with the
geometry': it is the field of the z-mirrored particle.

Reference: the particle is weakly scattering (n=1.35 in 1.33), so its field is the sum of the
fields of small independent volume elements (Rayleigh-Gans).  The volume elements are taken from
the library's own description of where the spheroid is: Spheroid.in_domain() in lab coordinates,
each element computed with Mie at its lab position.  The upright particle (beta=0) gives the
baseline error of that reference (~6%).
Run from the checkout root.  Exit status 1 when the defect is present.
"""
import sys, os; sys.path.insert(0, os.getcwd())
import warnings; warnings.simplefilter('ignore')
import numpy as np
import holopy
from holopy.scattering import Sphere, Spheres, Spheroid, Tmatrix, Mie, Multisphere, calc_field, calc_holo
from holopy.core import detector_grid
from holopy.core.math import rotation_matrix

print('holopy from', holopy.__file__)
wl, nm, n = 0.66, 1.33, 1.35
N, sp = 16, 0.3
det = detector_grid(shape=(N, N), spacing=sp)
c = np.array([(N - 1) * sp / 2, (N - 1) * sp / 2, 6.0])
r = (0.2, 0.6)
h = 0.06
rs = (3 * h ** 3 / (4 * np.pi)) ** (1 / 3)
mie = Mie(False, False)

def voxel_reference(spd):
    pts = spd._voxel_coords(h)
    P = pts[spd.in_domain(pts) > 0]          # lab-frame points the library says are inside
    tot = 0
    for p in P:
        tot = tot + calc_field(det, Sphere(n=n, r=rs, center=p), nm, wl, (1, 0), theory=mie).values
    return tot

def rel(a, b):
    return np.abs(a - b).max() / np.abs(b).max()

bad = False
for beta, gamma in [(0.0, 0.0), (0.7, 0.4), (1.2, 2.0)]:
    spd = Spheroid(n=n, r=r, rotation=(0, beta, gamma), center=c)
    axis = rotation_matrix(0, beta, gamma) @ np.array([0, 0, 1.0])
    ref = voxel_reference(spd)
    f = calc_field(det, spd, nm, wl, (1, 0), theory=Tmatrix()).values
    fz = calc_field(det, Spheroid(n=n, r=r, rotation=(0, np.pi - beta, gamma), center=c),
                    nm, wl, (1, 0), theory=Tmatrix()).values
    e, ez = rel(f, ref), rel(fz, ref)
    print('beta=%.1f gamma=%.1f lab axis=%s : Tmatrix(rotation) vs reference %.3f ; '
          'Tmatrix(axis mirrored in z) vs reference %.3f' % (beta, gamma, np.round(axis, 2), e, ez))
    if beta > 0 and e > 2 * ez and e > 0.12:
        bad = True

# second, independent witness: a two-sphere chain along the same lab axis (Multisphere, which
# does convert lab z to the propagation direction) is anti-correlated in its odd part.
N2, sp2 = 48, 0.12
det2 = detector_grid(shape=(N2, N2), spacing=sp2)
c2 = np.array([(N2 - 1) * sp2 / 2, (N2 - 1) * sp2 / 2, 8.0])
rot = (0, 0.7, 0.0)
u = rotation_matrix(*rot) @ np.array([0, 0, 1.0])
ht = calc_holo(det2, Spheroid(n=1.45, r=(0.25, 0.7), rotation=rot, center=c2), nm, wl, (1, 0),
               theory=Tmatrix()).values.squeeze()
def dimer(u):
    return Spheres([Sphere(n=1.45, r=0.3, center=c2 + 0.35 * u), Sphere(n=1.45, r=0.3, center=c2 - 0.35 * u)])
hm = calc_holo(det2, dimer(u), nm, wl, (1, 0), theory=Multisphere()).values.squeeze()
hf = calc_holo(det2, dimer(u * [1, 1, -1]), nm, wl, (1, 0), theory=Multisphere()).values.squeeze()
odd = lambda a: a - a[::-1, :]
corr = lambda a, b: (a * b).sum() / np.sqrt((a * a).sum() * (b * b).sum())
c_same, c_flip = corr(odd(ht), odd(hm)), corr(odd(ht), odd(hf))
print('x-odd part of hologram, spheroid tilted towards +x (lab axis %s):' % np.round(u, 2))
print('   correlation with 2-sphere chain along the same lab axis     : %+.3f' % c_same)
print('   correlation with 2-sphere chain along the z-mirrored axis   : %+.3f' % c_flip)
if c_same < 0 < c_flip:
    bad = True
print('VIOLATION PRESENT' if bad else 'no violation')
sys.exit(1 if bad else 0)
