"""C10 repro 1: Tmatrix simulates a Cylinder that is (3/2)**(2/3) = 1.31x too large in every
dimension (volume 2.25x), because the equal-volume-sphere radius handed to the Fortran code is
(3/2) * (rz*rxy**2)**(1/3) instead of (3/2 * rz*rxy**2)**(1/3).

Check used: in the Rayleigh-Gans limit (tiny, nearly index-matched particle) the forward
scattering amplitude is proportional to the particle volume and independent of shape, so a
cylinder and the sphere of equal volume must give the same S(theta=0).  The same check on a
Spheroid (which passes) validates the method.
Run from the checkout root.  Exit status 1 when the defect is present.
"""
import sys, os; sys.path.insert(0, os.getcwd())
import warnings; warnings.simplefilter('ignore')
import numpy as np
import holopy
from holopy.scattering import Sphere, Spheroid, Cylinder, Tmatrix, Mie, calc_scat_matrix
from holopy.core import detector_points

print('holopy from', holopy.__file__)
wl, nm = 0.66, 1.33
det = detector_points(theta=np.array([0.0]), phi=np.array([0.0]), r=np.array([100.0]))
bad = False
for aspect in (0.5, 1.0, 2.0):               # h/d
    d = 0.02; h = aspect * d
    cyl = Cylinder(n=1.35, d=d, h=h, center=(0, 0, 0))
    vol = np.pi * (d / 2) ** 2 * h
    sph = Sphere(n=1.35, r=(3 * vol / (4 * np.pi)) ** (1 / 3), center=(0, 0, 0))
    s_cyl = calc_scat_matrix(det, cyl, nm, wl, theory=Tmatrix()).values[0, 0, 0]
    s_sph = calc_scat_matrix(det, sph, nm, wl, theory=Mie()).values[0, 0, 0]
    ratio = abs(s_cyl / s_sph)
    print('cylinder h/d=%.1f : |S_cyl(0)| / |S_equal-volume sphere(0)| = %.4f (expected 1.00, '
          '2.25 = (3/2)**2 if the radius is inflated)' % (aspect, ratio))
    if abs(ratio - 1) > 0.1:
        bad = True
    # control: spheroid with the same volume
    a = (3 * vol / (4 * np.pi) / aspect) ** (1 / 3)
    spd = Spheroid(n=1.35, r=(a, a * aspect), center=(0, 0, 0))
    s_spd = calc_scat_matrix(det, spd, nm, wl, theory=Tmatrix()).values[0, 0, 0]
    print('   control spheroid c/a=%.1f : ratio = %.4f' % (aspect, abs(s_spd / s_sph)))

# what the theory actually passes to the Fortran code
cyl = Cylinder(n=1.5, d=1.0, h=1.0, center=(0, 0, 0))
pos = np.array([[10.0], [0.1], [0.0]])
axi = Tmatrix()._parse_args(cyl, pos, 2 * np.pi * nm / wl, nm)[0]
true_rev = (3 / 2 * 0.5 * 0.5 ** 2) ** (1 / 3)
print('Cylinder(d=1,h=1): AXI passed = %.5f, equal-volume radius = %.5f, ratio %.4f (1.5**(2/3)=%.4f)'
      % (axi, true_rev, axi / true_rev, 1.5 ** (2 / 3)))
if abs(axi / true_rev - 1) > 1e-6:
    bad = True
print('VIOLATION PRESENT' if bad else 'no violation')
sys.exit(1 if bad else 0)
