"""C10 repro 3: silently wrong field on the half-row of pixels at azimuth phi = pi when the
particle's azimuth (rotation[2]) is exactly pi.

Reversing the axis direction of a spheroid/cylinder, (beta, gamma) -> (pi - beta, gamma + pi), must
leave the result unchanged.  With gamma = 0 -> gamma' = pi and the particle centred on a pixel row
(so that the pixels on the -x side have phi = pi exactly) the hologram changes by O(1) on those
pixels, and it is discontinuous in gamma (gamma = pi versus pi - 1e-9).

Cause: AMPL in tmatrix_f/ampld.lp.f resolves the quadrant of the particle-frame azimuth
PHIP1 = DATAN(SPP1/CPP1) with tests on the sign of SP1 = sin(phi - alpha).  Every phi except
exactly pi is nudged by EPS = 1e-7, so SP1 == 0 happens precisely for phi = alpha = pi; then no
test fires and PHIP1 stays 0 where it should be pi (when CPP1 < 0).
Run from the checkout root.  Exit status 1 when the defect is present.
"""
import sys, os; sys.path.insert(0, os.getcwd())
import warnings; warnings.simplefilter('ignore')
import numpy as np
import holopy
from holopy.scattering import Spheroid, Cylinder, Tmatrix, calc_holo
from holopy.core import detector_grid

print('holopy from', holopy.__file__)
wl, nm = 0.66, 1.33
det = detector_grid(shape=(21, 21), spacing=0.1)
c = (1.0, 1.0, 2.0)          # exactly on pixel (10, 10)
T = Tmatrix()
np.set_printoptions(precision=3, linewidth=200, suppress=True)
bad = False
for name, mk in [('Spheroid', lambda rot: Spheroid(n=1.5, r=(0.3, 0.6), rotation=rot, center=c)),
                 ('Cylinder', lambda rot: Cylinder(n=1.5, d=0.4, h=0.7, rotation=rot, center=c))]:
    beta = 0.6
    h0 = calc_holo(det, mk((0, beta, 0.0)), nm, wl, (1, 0), theory=T).values.squeeze()
    h1 = calc_holo(det, mk((0, np.pi - beta, np.pi)), nm, wl, (1, 0), theory=T).values.squeeze()
    h2 = calc_holo(det, mk((0, np.pi - beta, np.pi - 1e-9)), nm, wl, (1, 0), theory=T).values.squeeze()
    d = np.abs(h1 - h0)
    print(name, ': axis (beta,0) vs reversed axis (pi-beta, pi): max |diff| = %.3g on pixels %s'
          % (d.max(), np.argwhere(d > 1e-4).tolist()))
    print('   row y=10, original      :', h0[:, 10])
    print('   row y=10, reversed axis :', h1[:, 10])
    print('   reversed axis with gamma = pi-1e-9 instead of pi: max |diff| to original = %.3g'
          % np.abs(h2 - h0).max())
    if d.max() > 1e-3:
        bad = True

# the lens wrapper is hit on ALL pixels whenever its azimuthal quadrature grid contains phi = pi
# exactly: true for almost every even quad_npts_phi (2..48, 52..80, 84..98, 102.. ; the default
# 100 escapes only through a rounding accident of linspace)
from holopy.scattering.theory.lens import Lens
from holopy.scattering import calc_field
detl = detector_grid(shape=(6, 6), spacing=0.3)
L = Lens(0.8, Tmatrix(), quad_npts_theta=60, quad_npts_phi=60)
fl = [calc_field(detl, Spheroid(n=1.5, r=(0.3, 0.6), rotation=(0, 1.0, g), center=(1.1, 1.3, 3)),
                 nm, wl, (1, 0), theory=L).values for g in (np.pi, np.pi - 1e-9)]
jump = np.abs(fl[0] - fl[1]).max() / np.abs(fl[1]).max()
print('Lens(0.8, Tmatrix(), 60, 60): field for gamma = pi vs gamma = pi-1e-9 differs by %.3g (relative, all pixels)' % jump)
if jump > 1e-4:
    bad = True
print('VIOLATION PRESENT' if bad else 'no violation')
sys.exit(1 if bad else 0)
