"""MieLens.raw_fields (and AberratedMieLens) overwrites the azimuth row of the
caller's `positions` array in place (phi -= pol_angle; phi %= 2 pi), so a second
call with the same array returns a different (wrong) field.  Lens.raw_fields and
Mie.raw_fields leave their argument untouched.  Run from the checkout root."""
import sys, os; sys.path.insert(0, os.getcwd())
import warnings; warnings.filterwarnings('ignore')
import numpy as np
np.NaN = np.nan
import xarray as xr
import holopy as hp
from holopy.scattering import Sphere
from holopy.scattering.theory import Mie, MieLens, Lens
print('holopy from', hp.__file__)

pol = xr.DataArray([0.6, 0.8, 0], dims='vector', coords={'vector': ['x', 'y', 'z']})
s = Sphere(n=1.59, r=0.5)
k = 2 * np.pi * 1.33 / 0.66
rng = np.random.default_rng(0)
pos0 = np.array([rng.uniform(0, 60, 6), rng.uniform(0, 2 * np.pi, 6), np.full(6, 40.)])

bad = False
for name, th in [('MieLens', MieLens(0.7, {'interpolate_integrals': False})),
                 ('Lens(Mie)', Lens(0.7, Mie()))]:
    pos = pos0.copy()
    f1 = th.raw_fields(pos, s, k, 1.33, pol)
    changed = np.abs(pos - pos0).max()
    f2 = th.raw_fields(pos, s, k, 1.33, pol)
    d = np.abs(f2 - f1).max() / np.abs(f1).max()
    print('%-10s max change of caller positions: %.3g ; rel. change of 2nd call: %.3g'
          % (name, changed, d))
    if name == 'MieLens' and (changed > 0 or d > 1e-12):
        bad = True
print('VIOLATION' if bad else 'ok')
sys.exit(1 if bad else 0)
