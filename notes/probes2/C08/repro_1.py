"""AberratedMieLens with >= 3 aberration coefficients: the phase is a LEGENDRE
series in (cos(theta)-1), not the documented power series
sum_k c_k (cos(theta)-1)^(k+2).  Run from the checkout root."""
import sys, os; sys.path.insert(0, os.getcwd())
import warnings; warnings.filterwarnings('ignore')
import numpy as np
np.NaN = np.nan
import holopy as hp
from holopy.core import detector_grid
from holopy.scattering import calc_field, Sphere
from holopy.scattering.theory import MieLens, AberratedMieLens
from holopy.scattering.theory import mielensfunctions as mlf
print('holopy from', hp.__file__)

ACC = {'interpolate_integrals': False}
bad = False

# (1) calculator level: documented wavefront for coefficients (c3, c5, c7) is
#     c3*x^2 + c5*x^3 + c7*x^4 with x = cos(theta) - 1
coeffs = [0.0, 0.0, 100.0]
calc = mlf.AberratedMieLensCalculator(
    spherical_aberration=coeffs, particle_kz=10., index_ratio=1.2,
    size_parameter=5., lens_angle=0.3, **ACC)
x = calc._quad_pts - 1
documented = sum(c * x**(k + 2) for k, c in enumerate(coeffs))
observed = calc._calculate_aberrated_phase()
print('max |x|^4 * c7 (documented phase, rad): %.3e' % np.abs(documented).max())
print('max observed phase (rad):               %.3e' % np.abs(observed).max())
print('observed == c7 * x^2 * (3x^2-1)/2 (Legendre P2):',
      np.allclose(observed, 100. * x**2 * (3 * x**2 - 1) / 2))
if not np.allclose(observed, documented, rtol=1e-9, atol=1e-12):
    bad = True

# (2) public API: a pure 7th-order aberration at a small lens angle is
#     negligible (phase < 4e-4 rad), so the field must be ~ the unaberrated
#     one.  Instead it equals the field of a 3rd-order aberration of -c7/2.
det = detector_grid(shape=(8, 8), spacing=0.2)
s = Sphere(n=1.59, r=0.5, center=(0.8, 0.8, 5))
kw = dict(medium_index=1.33, illum_wavelen=0.66, illum_polarization=(1, 0))
f0 = calc_field(det, s, theory=MieLens(0.3, ACC), **kw).values
f7 = calc_field(det, s, theory=AberratedMieLens([0, 0, 100.], 0.3, ACC), **kw).values
f3 = calc_field(det, s, theory=AberratedMieLens([-50., 0, 150.], 0.3, ACC), **kw).values
f3b = calc_field(det, s, theory=AberratedMieLens([-50.], 0.3, ACC), **kw).values
rel = lambda a, b: np.abs(a - b).max() / np.abs(b).max()
print('rel diff  [0,0,100] vs unaberrated        : %.3e (expected < ~1e-3)' % rel(f7, f0))
print('rel diff  [0,0,100] vs 3rd-order [-50]     : %.3e' % rel(f7, f3b))
if rel(f7, f0) > 5e-3:
    bad = True

# (3) two coefficients are unaffected (P0 = 1, P1 = x):
calc2 = mlf.AberratedMieLensCalculator(
    spherical_aberration=[3., 7.], particle_kz=10., index_ratio=1.2,
    size_parameter=5., lens_angle=0.9, **ACC)
x2 = calc2._quad_pts - 1
print('two coefficients follow the power series:',
      np.allclose(calc2._calculate_aberrated_phase(), 3 * x2**2 + 7 * x2**3))

print('VIOLATION' if bad else 'ok')
sys.exit(1 if bad else 0)
