"""MieLens / AberratedMieLens use a mutable default argument
(calculator_accuracy_kwargs={}) that is stored on the instance: every theory
object built with the default shares ONE dict, so tuning the accuracy of one
object silently changes every other (and every future) default-constructed
object.  Run from the checkout root."""
import sys, os; sys.path.insert(0, os.getcwd())
import warnings; warnings.filterwarnings('ignore')
import numpy as np
np.NaN = np.nan
import holopy as hp
from holopy.core import detector_grid
from holopy.scattering import calc_field, Sphere
from holopy.scattering.theory import MieLens, AberratedMieLens
print('holopy from', hp.__file__)

det = detector_grid(shape=(8, 8), spacing=0.2)
s = Sphere(n=1.59, r=0.5, center=(0.8, 0.8, 15))
kw = dict(medium_index=1.33, illum_wavelen=0.66, illum_polarization=(1, 0))

a = MieLens(lens_angle=0.9)
b = MieLens(lens_angle=0.9)
a.calculator_accuracy_kwargs['interpolate_integrals'] = False   # sandbox workaround, on `a` only
print('b sees the key set on a:', b.calculator_accuracy_kwargs)
ref = calc_field(det, s, theory=b, **kw).values

coarse = MieLens(lens_angle=0.9)
coarse.calculator_accuracy_kwargs['quad_npts'] = 8      # a deliberately coarse object
fresh = MieLens(lens_angle=0.9)                         # a brand-new default object
print('fresh default object kwargs:', fresh.calculator_accuracy_kwargs)
now = calc_field(det, s, theory=fresh, **kw).values
again_b = calc_field(det, s, theory=b, **kw).values
d1 = np.abs(now - ref).max() / np.abs(ref).max()
d2 = np.abs(again_b - ref).max() / np.abs(ref).max()
print('rel. change of a fresh default MieLens : %.3g' % d1)
print('rel. change of the untouched object b  : %.3g' % d2)
print('AberratedMieLens default is shared too :',
      AberratedMieLens(0.).calculator_accuracy_kwargs is AberratedMieLens(0.).calculator_accuracy_kwargs)
bad = (fresh.calculator_accuracy_kwargs != {}) or d1 > 1e-9 or d2 > 1e-9
# clean up the shared state
coarse.calculator_accuracy_kwargs.clear()
print('VIOLATION' if bad else 'ok')
sys.exit(1 if bad else 0)
