"""C15 / equality clause: obj == load(save(obj)) fails although every argument
the caller passed is a list or a scalar, because the constructors' own
defaults are tuples (rotation=(0, 0, 0), translation=(0, 0, 0)) and
HoloPyObject.__eq__ compares _dict's, where (0, 0, 0) != [0, 0, 0]."""
import sys, os; sys.path.insert(0, os.getcwd())
import io, warnings
import numpy as np
np.NaN = np.nan
warnings.simplefilter('ignore')
import holopy as hp
from holopy.scattering import (Sphere, Spheres, Ellipsoid, Spheroid, Cylinder,
                               Capsule, Bisphere, JanusSphere_Uniform,
                               JanusSphere_Tapered, RigidCluster, Scatterers)
print('holopy from', hp.__file__)

def roundtrip(obj):
    b = io.BytesIO(); hp.save(b, obj); text = b.getvalue(); b.seek(0)
    new = hp.load(b)
    b2 = io.BytesIO(); hp.save(b2, new)
    return new, text == b2.getvalue()

cases = {
    'Ellipsoid': Ellipsoid(n=1.5, r=[.5, .6, .7], center=[1, 2, 3]),
    'Spheroid': Spheroid(n=1.5, r=[.5, .6], center=[1, 2, 3]),
    'Cylinder': Cylinder(n=1.5, h=1., d=.5, center=[1, 2, 3]),
    'Capsule': Capsule(n=1.5, h=1., d=.5, center=[1, 2, 3]),
    'Bisphere': Bisphere(n=1.5, h=1., d=.5, center=[1, 2, 3]),
    'JanusSphere_Uniform': JanusSphere_Uniform(n=[1.5, 1.3], r=[.5, .55], center=[1, 2, 3]),
    'JanusSphere_Tapered': JanusSphere_Tapered(n=[1.5, 1.3], r=[.5, .55], center=[1, 2, 3]),
    'RigidCluster': RigidCluster(Spheres([Sphere(n=1.5, r=.5, center=[0, 0, 0]),
                                          Sphere(n=1.5, r=.5, center=[2, 0, 0])])),
    'Scatterers[Sphere, Ellipsoid]': Scatterers([Sphere(n=1.5, r=.5, center=[0, 0, 0]),
                                                 Ellipsoid(n=1.5, r=[.5, .6, .7], center=[3, 0, 0])]),
    # control: same classes with the rotation given explicitly as a list
    'control Ellipsoid(rotation=[0,0,0])': Ellipsoid(n=1.5, r=[.5, .6, .7], center=[1, 2, 3], rotation=[0, 0, 0]),
}
bad = 0
for name, obj in cases.items():
    new, same_text = roundtrip(obj)
    eq = (obj == new)
    print('%-38s obj == reloaded: %-5s  text identical: %s' % (name, eq, same_text))
    if not eq:
        bad += 1
        diff = {k: (obj._dict[k], new._dict.get(k)) for k in obj._dict if repr(obj._dict[k]) != repr(new._dict.get(k))}
        print('      differing _dict entries:', {k: v for k, v in diff.items() if k != 'scatterers' and k != 'spheres'})
print('violations:', bad)
sys.exit(1 if bad else 0)
