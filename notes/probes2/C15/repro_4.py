"""C15-adjacent (HDF5 form of FitResult): the name of result.data is replaced
by 'data' on save -> load; everything else (model, strategy, intervals, time,
values, optics attrs) is preserved."""
import sys, os; sys.path.insert(0, os.getcwd())
import tempfile, warnings
import numpy as np
np.NaN = np.nan
warnings.simplefilter('ignore')
import holopy as hp
from holopy.core.metadata import detector_grid
from holopy.scattering import Sphere, calc_holo
from holopy.inference import AlphaModel, NmpfitStrategy, FitResult
from holopy.inference.result import UncertainValue
from holopy.inference import prior
print('holopy from', hp.__file__)
det = detector_grid(8, .1, name='run17_frame0042')
holo = calc_holo(det, Sphere(n=1.59, r=.5, center=[.4, .4, 5]), 1.33, .66, (1, 0))
model = AlphaModel(Sphere(n=prior.Uniform(1.5, 1.7), r=.5, center=[.4, .4, 5]), noise_sd=.1)
res = FitResult(holo, model, NmpfitStrategy(), 1.5, {'intervals': [UncertainValue(1.6, .01, name='n')]})
fn = os.path.join(tempfile.mkdtemp(), 'res.h5')
hp.save(fn, res)
back = hp.load(fn)
print('data.name before: %r   after: %r' % (res.data.name, back.data.name))
print('model equal:', res.model == back.model, ' strategy equal:', res.strategy == back.strategy,
      ' intervals equal:', res.intervals == back.intervals, ' time equal:', res.time == back.time,
      ' values equal:', np.array_equal(res.data.values, back.data.values))
bad = res.data.name != back.data.name
sys.exit(1 if bad else 0)
