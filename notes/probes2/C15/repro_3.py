"""C15 / library-made objects: the UncertainValue objects that SamplingResult
builds (result.intervals) carry numpy.str_ names (taken from
samples.parameter.values); their text form cannot be read back."""
import sys, os; sys.path.insert(0, os.getcwd())
import io, warnings
import numpy as np
np.NaN = np.nan
warnings.simplefilter('ignore')
import xarray as xr
import holopy as hp
from holopy.core.metadata import detector_grid
from holopy.scattering import Sphere, calc_holo
from holopy.inference import AlphaModel, EmceeStrategy, SamplingResult, NmpfitStrategy
from holopy.inference import prior
print('holopy from', hp.__file__)

det = detector_grid(8, .1)
holo = calc_holo(det, Sphere(n=1.59, r=.5, center=[.4, .4, 5]), 1.33, .66, (1, 0))
model = AlphaModel(Sphere(n=prior.Uniform(1.5, 1.7), r=prior.Uniform(.4, .6),
                          center=[.4, .4, prior.Uniform(3, 8)]), noise_sd=.1)
names = model._parameter_names
rs = np.random.RandomState(0)
# same layout as holopy.inference.emcee.emcee_samples_DataArray / emcee_lnprobs_DataArray
samples = xr.DataArray(rs.rand(4, 6, len(names)), dims=['walker', 'chain', 'parameter'],
                       coords={'parameter': names})
lnprobs = xr.DataArray(rs.rand(4, 6), dims=['walker', 'chain'])
res = SamplingResult(holo, model, EmceeStrategy(nwalkers=4, nsamples=6), 1.0,
                     {'samples': samples, 'lnprobs': lnprobs})
iv = res.intervals
print('names of result.intervals:', [(v.name, type(v.name).__name__) for v in iv])
b = io.BytesIO(); hp.save(b, iv); b.seek(0)
print(b.getvalue().decode()[:400], '...')
try:
    back = hp.load(b)
    ok = back == iv
    print('reloaded, equal:', ok)
except Exception as e:
    ok = False
    print('hp.load failed:', type(e).__name__, str(e).replace('\n', ' ')[:200])
# control: the intervals of a FitResult (plain str names) survive
from holopy.inference.result import UncertainValue
ctrl = [UncertainValue(v.guess, v.plus, v.minus, str(v.name)) for v in iv]
b = io.BytesIO(); hp.save(b, ctrl); b.seek(0)
print('control with str names reloads equal:', hp.load(b) == ctrl)
sys.exit(0 if ok else 1)
