"""C15 / file target: a failed hp.save(filename, obj) destroys the previous
contents of the file (it is opened with 'wb' before yaml.dump is attempted and
never closed), and hp.load of the now empty file silently returns None."""
import sys, os; sys.path.insert(0, os.getcwd())
import tempfile, warnings
import numpy as np
np.NaN = np.nan
warnings.simplefilter('ignore')
from concurrent.futures import ThreadPoolExecutor
import holopy as hp
from holopy.inference import EmceeStrategy
print('holopy from', hp.__file__)

fn = os.path.join(tempfile.mkdtemp(), 'strategy.yaml')
good = EmceeStrategy(nwalkers=10, seed=1)
hp.save(fn, good)
print('after first save  : %d bytes, load == original: %s' % (os.path.getsize(fn), hp.load(fn) == good))

# ``parallel`` may be any object with a .map method (see FitResult.__init__,
# which special-cases it); such pools cannot be written as yaml.
pool = ThreadPoolExecutor(1)
try:
    hp.save(fn, EmceeStrategy(nwalkers=20, parallel=pool))
    print('second save succeeded (unexpected)')
except Exception as e:
    print('second save raised:', type(e).__name__, e)
pool.shutdown()
size = os.path.getsize(fn)
loaded = hp.load(fn)
print('after failed save : %d bytes, hp.load returns %r' % (size, loaded))
violated = not (loaded == good)
print('VIOLATION: the previously saved object was destroyed by the failed save'
      if violated else 'file intact')
sys.exit(1 if violated else 0)
