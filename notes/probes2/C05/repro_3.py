"""repro_3: Lens(theory=Tmatrix()) silently returns wrong fields, for every
polarisation, even for a plain sphere.

Lens.raw_fields integrates theory.raw_scat_matrs over the pupil assuming the
Bohren-Huffman scattering-plane convention used by Mie and Multisphere.
Tmatrix.raw_scat_matrs returns the amplitude matrix in another frame (the
already known "laboratory frame, transposed" problem, which Tmatrix.raw_fields
patches up with its `postfactor`), and Lens bypasses both that patch and the
"[1, 0] polarisation only" guard.  Lens(Tmatrix) therefore accepts any
polarisation and produces fields that disagree with Lens(Mie) / MieLens by
O(1) and that are not covariant under rotation about the optical axis.
Run from the checkout root.  Exit code 1 when the defect is present.
"""
import sys, os
sys.path.insert(0, os.getcwd())
import warnings
warnings.filterwarnings('ignore')
import numpy as np
import holopy
from holopy.scattering import calc_field, calc_holo, Sphere, Mie, Tmatrix
from holopy.scattering.theory import Lens
from holopy.core.metadata import detector_points

print('holopy from', holopy.__file__)
wl, nm = 0.66, 1.33
rng = np.random.default_rng(1)
px = rng.uniform(-3, 3, 30)
py = rng.uniform(-3, 3, 30)
det = detector_points(x=px, y=py, z=0.0)
sphere = Sphere(n=1.59, r=0.5, center=(0.0, 0.0, 5.0))


def relerr(a, b):
    return np.abs(a - b).max() / np.abs(a).max()


bad = False
for pa in [0.0, 0.7]:
    pol = (np.cos(pa), np.sin(pa))
    f_mie = calc_field(det, sphere, nm, wl, pol, theory=Lens(0.8, Mie(), 60, 60)).values
    f_tm = calc_field(det, sphere, nm, wl, pol, theory=Lens(0.8, Tmatrix(), 60, 60)).values
    e = relerr(f_mie, f_tm)
    print('pol angle %.1f: Lens(Tmatrix) vs Lens(Mie) for a sphere: %.2e' % (pa, e))
    if e > 1e-3:
        bad = True

# rotation covariance (sphere on the axis: rotate detector points and polarisation)
a = 0.9
c, s = np.cos(a), np.sin(a)
det_r = detector_points(x=c * px - s * py, y=s * px + c * py, z=0.0)
h0 = calc_holo(det, sphere, nm, wl, (1.0, 0.0), theory=Lens(0.8, Tmatrix(), 60, 60)).values
h1 = calc_holo(det_r, sphere, nm, wl, (c, s), theory=Lens(0.8, Tmatrix(), 60, 60)).values
print('Lens(Tmatrix), hologram after rotating points and polarisation by 0.9 rad: %.2e'
      % relerr(h0, h1))
if relerr(h0, h1) > 1e-3:
    bad = True
sys.exit(1 if bad else 0)
