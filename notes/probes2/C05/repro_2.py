"""repro_2: detector points given in spherical coordinates ignore the position
of the scatterer; with a composite computed by superposition every component
is treated as if it sat at the origin of the (r, theta, phi) system.

ImageFormation._transform_to_desired_coordinates never uses `origin` in its
spherical branch.  For a single scatterer this means "(r, theta, phi) are
relative to the scatterer centre".  For Spheres + Mie (superposition) the
same points are then re-used for every sphere, so the relative positions of
the spheres are lost: the result differs from the equivalent Cartesian
detector points (and from Multisphere, which handles it correctly), and it
does not change at all when one sphere of the pair is moved in the plane.
Run from the checkout root.  Exit code 1 when the defect is present.
"""
import sys, os
sys.path.insert(0, os.getcwd())
import warnings
warnings.filterwarnings('ignore')
import numpy as np
import holopy
from holopy.scattering import calc_field, calc_holo, Sphere, Spheres, Mie, Multisphere
from holopy.core.metadata import detector_points

print('holopy from', holopy.__file__)
wl, nm = 0.66, 1.33
rng = np.random.default_rng(5)
N = 12
r = rng.uniform(5, 10, N)
th = rng.uniform(0.05, 1.0, N)
ph = rng.uniform(0, 2 * np.pi, N)
x = r * np.sin(th) * np.cos(ph)
y = r * np.sin(th) * np.sin(ph)
z = r * np.cos(th)
pol = (np.cos(0.4), np.sin(0.4))


def relerr(a, b):
    return np.abs(a - b).max() / np.abs(a).max()


def cluster(shift2=(0, 0, 0)):
    # centroid at the origin for shift2 = 0
    return Spheres([Sphere(n=1.59, r=0.4, center=(0.5, 0.0, 0.2)),
                    Sphere(n=1.45, r=0.3, center=np.array([-0.5, 0.0, -0.2]) + shift2)])


d_sph = detector_points(r=r, theta=th, phi=ph)
# same points in Cartesian coordinates (holopy's z axis points from the
# particle towards the source, theta is measured from the forward direction)
d_cart = detector_points(x=x, y=y, z=-z)

bad = False
for theory in [Multisphere(), Mie()]:
    a = calc_field(d_sph, cluster(), nm, wl, pol, theory=theory).values
    b = calc_field(d_cart, cluster(), nm, wl, pol, theory=theory).values
    e = relerr(b, a)
    print('%-12s spherical vs equivalent Cartesian points: %.1e' % (type(theory).__name__, e))
    if e > 1e-6:
        bad = True

# moving one sphere of the pair by 0.7 um leaves the Mie/spherical result unchanged
h0 = calc_holo(d_sph, cluster(), nm, wl, pol, theory=Mie()).values
h1 = calc_holo(d_sph, cluster((0.0, 0.7, 0.0)), nm, wl, pol, theory=Mie()).values
c0 = calc_holo(d_cart, cluster(), nm, wl, pol, theory=Mie()).values
c1 = calc_holo(d_cart, cluster((0.0, 0.7, 0.0)), nm, wl, pol, theory=Mie()).values
print('Mie, spherical points: change of the hologram when sphere 2 is moved by 0.7 um: %.1e'
      % relerr(h0, h1))
print('Mie, Cartesian points: same change                                            : %.1e'
      % relerr(c0, c1))
if relerr(h0, h1) < 1e-12 and relerr(c0, c1) > 1e-3:
    bad = True

if bad:
    print('VIOLATION: superposition with spherical detector points ignores component positions')
    sys.exit(1)
print('no violation')
sys.exit(0)
