"""repro_4: Multisphere(compute_escat_radial=True) computes a wrong radial field
component: uts_scsmfo.for:ms_radial_fields skips all m = 0 terms.

A sphere displaced sideways from the cluster centre (its partner is an
index-matched 10 nm speck, so the cluster field is that of the one sphere and
the exact answer is the single-sphere Mie field).  Straight below the cluster
centre (theta = 0) only the m = 0 harmonics have a radial component, and
Multisphere returns exactly zero there while the exact radial (= z) component
is 10% of the field.  Over a set of points the z component of the field is
*further* from the truth with compute_escat_radial=True than with False.
Run from the checkout root.  Exit code 1 when the defect is present.
"""
import sys, os
sys.path.insert(0, os.getcwd())
import warnings
warnings.filterwarnings('ignore')
import numpy as np
import holopy
from holopy.scattering import calc_field, Sphere, Spheres, Mie, Multisphere
from holopy.core.metadata import detector_points

print('holopy from', holopy.__file__)
wl, nm = 0.66, 1.33
cen = np.array([0.0, 0.0, 5.0])
dv = np.array([1.0, 0.0, 0.0])
s1 = Sphere(n=1.5, r=0.3, center=cen - dv / 2)
s2 = Sphere(n=1.33000001, r=0.01, center=cen + dv / 2)
cluster = Spheres([s1, s2])
pol = (1.0, 0.0)

# 1. the point on the axis through the cluster centre: radial direction = z
det0 = detector_points(x=np.array([0.0]), y=np.array([0.0]), z=0.0)
exact = calc_field(det0, s1, nm, wl, pol, theory=Mie()).values[0]
ms_rad = calc_field(det0, cluster, nm, wl, pol,
                    theory=Multisphere(compute_escat_radial=True)).values[0]
print('on-axis point, E_z (radial w.r.t. the cluster centre):')
print('   exact (Mie, single sphere)            |E_z| = %.3e   (|E| = %.3e)'
      % (abs(exact[2]), np.linalg.norm(exact)))
print('   Multisphere(compute_escat_radial=True) |E_z| = %.3e' % abs(ms_rad[2]))

# 2. a set of points
rng = np.random.default_rng(3)
X = rng.uniform(-3, 3, 40)
Y = rng.uniform(-3, 3, 40)
det = detector_points(x=X, y=Y, z=0.0)
ex = calc_field(det, s1, nm, wl, pol, theory=Mie()).values
on = calc_field(det, cluster, nm, wl, pol, theory=Multisphere(compute_escat_radial=True)).values
off = calc_field(det, cluster, nm, wl, pol, theory=Multisphere(compute_escat_radial=False)).values
err = lambda f: np.abs(f[:, 2] - ex[:, 2]).max() / np.abs(ex[:, 2]).max()
print('max error of E_z relative to max|E_z|: radial on %.2f, radial off %.2f' % (err(on), err(off)))

bad = abs(ms_rad[2]) < 1e-3 * abs(exact[2])
sys.exit(1 if bad else 0)
