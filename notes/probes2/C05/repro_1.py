"""repro_1: Multisphere fields carry the wrong sign on the off-diagonal
amplitude-matrix elements (S3, S4).

Two identical, extremely weak spheres (n=1.34 in n_med=1.33, r=50 nm) 1 um
apart: multiple scattering is utterly negligible, so the exact field is the sum
of the two single-sphere Mie fields.  Multisphere's field components
transverse to the direction from the cluster centre (the only ones it computes
by default) nevertheless differ from that sum by several per cent, and the difference
drops by three orders of magnitude when the sign of S3/S4 is flipped before
mieangfuncs.calc_scat_field is applied.
Run from the checkout root.  Exit code 1 when the defect is present.
"""
import sys, os
sys.path.insert(0, os.getcwd())
import warnings
warnings.filterwarnings('ignore')
import numpy as np
import holopy
from holopy.scattering import calc_field, Sphere, Spheres, Mie, Multisphere
from holopy.core.metadata import detector_points
from holopy.core.math import transform_cartesian_to_spherical
from holopy.scattering.theory.mie_f import uts_scsmfo, mieangfuncs

print('holopy from', holopy.__file__)
wl, nm = 0.66, 1.33
k = 2 * np.pi * nm / wl
rng = np.random.default_rng(0)
X = rng.uniform(-4, 4, 50)
Y = rng.uniform(-4, 4, 50)
det = detector_points(x=X, y=Y, z=0.0)
cen = np.array([0.0, 0.0, 6.0])
dv = np.array([0.0, 1.0, 0.0])
s1 = Sphere(n=1.34, r=0.05, center=cen - dv / 2)
s2 = Sphere(n=1.34, r=0.05, center=cen + dv / 2)
cluster = Spheres([s1, s2])


def relerr(a, b):
    return np.abs(a - b).max() / np.abs(a).max()


# spherical unit vectors about the cluster centre, in the frame used for the
# returned field components (z measured from the detector towards the particle)
kr, th, ph = transform_cartesian_to_spherical(
    [k * (X - cen[0]), k * (Y - cen[1]), k * (cen[2] - 0 * X)])
thh = np.stack([np.cos(th) * np.cos(ph), np.cos(th) * np.sin(ph), -np.sin(th)], 1)
phh = np.stack([-np.sin(ph), np.cos(ph), 0 * ph], 1)


def transverse(f):
    return np.stack([(f * thh).sum(1), (f * phh).sum(1)], 1)


bad = False
for pol in [(1.0, 0.0), (0.6, 0.8)]:
    theory = Multisphere(qeps1=1e-10, qeps2=1e-14)
    exact = calc_field(det, cluster, nm, wl, pol, theory=Mie()).values  # superposition
    ms = calc_field(det, cluster, nm, wl, pol, theory=theory).values
    # interaction check: Multisphere single-sphere fields agree with Mie
    single = (calc_field(det, s1, nm, wl, pol, theory=Multisphere(compute_escat_radial=True)).values +
              calc_field(det, s2, nm, wl, pol, theory=Multisphere(compute_escat_radial=True)).values)
    print('pol', pol)
    print('  sum of Multisphere single-sphere fields vs Mie superposition: %.1e'
          % relerr(exact, single))
    e_lib = relerr(transverse(exact), transverse(ms))
    print('  Multisphere(cluster), transverse (theta,phi) part vs exact   : %.1e' % e_lib)
    print('     per Cartesian component (x, y):',
          ['%.1e' % relerr(exact[:, i], ms[:, i]) for i in range(2)],
          '(also contains the radial part dropped by default)')
    # same calculation with the library's own Fortran routines, S3/S4 sign flipped
    amn, lmax = theory._scsmfo_setup(cluster, k, nm)
    out = np.zeros((len(X), 3), complex)
    for i in range(len(X)):
        a1, a2, a3, a4 = uts_scsmfo.asmfr(amn, lmax, th[i], ph[i], kr[i])
        asm = np.array([[a2, -a3], [-a4, a1]]) * -0.5   # library: [[a2, a3],[a4, a1]] * -0.5
        es = mieangfuncs.calc_scat_field(kr[i], ph[i], asm, np.array(pol))
        out[i] = mieangfuncs.fieldstocart(es, th[i], ph[i])
    out *= np.exp(-1j * k * cen[2])
    e_fix = relerr(transverse(exact), transverse(out))
    print('  same, with S3 and S4 negated                                  : %.1e' % e_fix)
    if e_lib > 1e-2 and e_fix < e_lib / 100:
        bad = True

if bad:
    print('VIOLATION: Multisphere field differs from the exact (non-interacting) '
          'result by >1%; negating S3/S4 removes the difference')
    sys.exit(1)
print('no violation')
sys.exit(0)
