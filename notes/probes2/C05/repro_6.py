"""repro_6 (borderline: silent breakdown of a default numerical setting):
Lens(lens_angle, theory) with its default 100 x 100 pupil quadrature returns
garbage, without any warning, for detector points further than roughly
quad_npts_phi / (k sin(lens_angle)) from the particle (about 9 um for 660 nm
light in water and lens_angle = 1.0), i.e. inside an ordinary 256 x 256 pixel,
0.1 um/pixel hologram.  Because the azimuthal quadrature nodes are fixed in
the laboratory frame, the under-resolved result is not covariant under
rotation about the optical axis and disagrees with MieLens by many times the
fringe amplitude.
Run from the checkout root.  Exit code 1 when the breakdown is present.
"""
import sys, os
sys.path.insert(0, os.getcwd())
import warnings
warnings.filterwarnings('ignore')
import numpy as np
import holopy
from holopy.scattering import calc_holo, Sphere, Mie, MieLens
from holopy.scattering.theory import Lens
from holopy.core.metadata import detector_points

print('holopy from', holopy.__file__)
wl, nm = 0.66, 1.33
sc = Sphere(n=1.59, r=0.5, center=(0, 0, 10.0))
mielens = MieLens(1.0, {'interpolate_integrals': False})
lens = Lens(1.0, Mie())          # default quadrature
bad = False
for rho in [5.0, 10.0, 15.0]:
    phis = np.linspace(0, 2 * np.pi, 37)[:-1] + 0.013
    x, y = rho * np.cos(phis), rho * np.sin(phis)
    a = 0.4
    xr_, yr_ = rho * np.cos(phis + a), rho * np.sin(phis + a)
    ref = calc_holo(detector_points(x=x, y=y, z=0.0), sc, nm, wl, (1, 0), theory=mielens).values
    h0 = calc_holo(detector_points(x=x, y=y, z=0.0), sc, nm, wl, (1, 0), theory=lens).values
    h1 = calc_holo(detector_points(x=xr_, y=yr_, z=0.0), sc, nm, wl,
                   (np.cos(a), np.sin(a)), theory=lens).values
    amp = np.abs(ref - 1).max()
    e_ref = np.abs(h0 - ref).max() / amp
    e_rot = np.abs(h0 - h1).max() / amp
    print('rho = %4.1f um: |Lens - MieLens| / fringe amplitude = %.1e ; '
          'change under a 0.4 rad rotation of points+polarisation = %.1e' % (rho, e_ref, e_rot))
    if e_rot > 1e-2:
        bad = True
sys.exit(1 if bad else 0)
