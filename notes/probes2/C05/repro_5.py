"""repro_5 (minor, metadata): calc_scat_matrix drops the x, y, z coordinates of
Cartesian detector points, while calc_field / calc_holo / calc_intensity keep
them.  The result of a shifted/rotated set of points can therefore not be
related back to the points it was computed for.
Run from the checkout root.  Exit code 1 when the defect is present.
"""
import sys, os
sys.path.insert(0, os.getcwd())
import warnings
warnings.filterwarnings('ignore')
import numpy as np
import holopy
from holopy.scattering import calc_scat_matrix, calc_field, Sphere
from holopy.core.metadata import detector_points

print('holopy from', holopy.__file__)
det = detector_points(x=np.array([5.3, 4.0, 7.0]), y=np.array([-2.0, -2.5, -5.0]), z=0.0)
sc = Sphere(n=1.59, r=0.5, center=(5, -3, 5.0))
f = calc_field(det, sc, 1.33, 0.66, (1, 0))
s = calc_scat_matrix(det, sc, 1.33, 0.66)
print('calc_field       coords:', list(f.coords))
print('calc_scat_matrix coords:', list(s.coords))
bad = not all(c in s.coords for c in 'xyz')
sys.exit(1 if bad else 0)
