"""C06 repro 3: the generic composite `Scatterers` (the only container that can nest, and
the class whose get_component_list the superposition code calls) cannot be used in any
calc_* function: AttributeError 'Scatterers' object has no attribute 'center'."""
import sys, os; sys.path.insert(0, os.getcwd())
import warnings; warnings.filterwarnings('ignore')
import numpy as np
import holopy
from holopy.scattering import Sphere, Spheres, Mie, calc_field
from holopy.scattering.scatterer import Scatterers
from holopy.core.metadata import detector_grid
det = detector_grid((4, 5), 0.1)
sph = [Sphere(n=1.5 + 0.01 * i, r=0.3 + 0.05 * i, center=(i * 0.7, -0.3 * i, 5 + i)) for i in range(4)]
ref = sum(calc_field(det, s, 1.33, .66, (1, 0), theory=Mie()) for s in sph)
bad = 0
for name, A in [('flat Scatterers', Scatterers(sph)), ('nested', Scatterers([Spheres(sph[:2]), Scatterers(sph[2:])]))]:
    try:
        f = calc_field(det, A, 1.33, .66, (1, 0), theory=Mie())
        print(name, 'max diff to sum of members', float(abs(f - ref).max()))
    except Exception as e:
        print(name, 'raised', type(e).__name__, e); bad = 1
sys.exit(bad)
