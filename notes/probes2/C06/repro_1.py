"""C06 repro 1: a per-channel (labelled) scatterer property that lacks the label of one
channel is not rejected; the whole labelled array is passed on, so that channel is
silently computed for a *layered* sphere whose layers are the other channels' values."""
import sys, os; sys.path.insert(0, os.getcwd())
import warnings; warnings.filterwarnings('ignore')
import numpy as np, xarray as xr
import holopy
from holopy.scattering import Sphere, Mie, calc_field
from holopy.core.metadata import detector_grid

ch = ['red', 'green', 'blue']
det = detector_grid((4, 4), 0.1, extra_dims={'illumination': ch})
det1 = detector_grid((4, 4), 0.1)
wl = {'red': .66, 'green': .52, 'blue': .45}
lab = lambda v: xr.DataArray(v, dims='illumination', coords={'illumination': ['red', 'green']})  # no 'blue'
S = Sphere(n=lab([1.58, 1.60]), r=lab([0.4, 0.5]), center=(0.2, 0.2, 5.))
try:
    f = calc_field(det, S, 1.33, wl, (1, 0), theory=Mie())
except Exception as e:
    print('raised (good):', type(e).__name__, e)
    sys.exit(0)
blue = f.sel(illumination='blue')
layered = calc_field(det1, Sphere(n=[1.58, 1.60], r=[0.4, 0.5], center=(0.2, 0.2, 5.)), 1.33, .45, (1, 0), theory=Mie())
diff = float(abs(blue - layered).max())
print('no error raised; result has channels', list(f.illumination.values))
print("max |blue channel - field of TWO-LAYER sphere n=[1.58,1.60], r=[0.4,0.5]| =", diff)
# the dictionary form of the same mistake is at least not silent:
try:
    calc_field(det, Sphere(n={'red': 1.58, 'green': 1.6}, r=0.5, center=(0.2, 0.2, 5.)), 1.33, wl, (1, 0), theory=Mie())
    print('dict form: no error')
except Exception as e:
    print('dict form raises', type(e).__name__)
sys.exit(1 if diff < 1e-12 else 0)
