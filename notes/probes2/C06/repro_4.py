"""C06 repro 4 (crashes on multi-channel inputs, minor):
 a) LeastSquaresScipyStrategy cannot fit multi-channel data (2-D residual vector)
 b) detector_grid with one row and extra_dims
 c) dictionary optics on a detector that carries a scalar coordinate
 d) hp.fit(data, Sphere(n={...per channel...})) convenience path"""
import sys, os; sys.path.insert(0, os.getcwd())
import warnings; warnings.filterwarnings('ignore')
import numpy as np, xarray as xr
np.NaN = np.nan
import holopy as hp
from holopy.scattering import Sphere, Mie, calc_holo, calc_field
from holopy.core.metadata import detector_grid, update_metadata
from holopy.inference import prior, AlphaModel, LeastSquaresScipyStrategy, NmpfitStrategy
ch = ['red', 'green']; wl = {'red': 0.66, 'green': 0.52}
det = detector_grid((10, 9), (0.11, 0.13), extra_dims={'illumination': ch})
S0 = Sphere(n=1.58, r=0.5, center=(0.5, 0.5, 5.))
data = update_metadata(calc_holo(det, S0, 1.33, wl, (1, 0), theory=Mie()), noise_sd={'red': .1, 'green': .05})
bad = 0
def attempt(label, f):
    global bad
    try: print(label, 'ok:', f())
    except Exception as e: print(label, 'RAISED', type(e).__name__, str(e)[:120]); bad = 1
m = AlphaModel(Sphere(n=prior.Uniform(1.5, 1.7, guess=1.6), r=prior.Uniform(.3, .7, guess=.52), center=(0.5, 0.5, 5.)), theory=Mie())
attempt('a) scipy lsq multi-channel fit', lambda: hp.fit(data, m, strategy=LeastSquaresScipyStrategy()).parameters)
attempt('   (nmpfit for comparison)', lambda: hp.fit(data, m, strategy=NmpfitStrategy()).parameters)
attempt('b) detector_grid((1, 5), extra_dims)', lambda: detector_grid((1, 5), 0.1, extra_dims={'illumination': ch}).dims)
attempt('c) dict wavelengths on det.isel(z=0)', lambda: calc_field(det.isel(z=0), S0, 1.33, wl, (1, 0), theory=Mie()).dims)
attempt('d) hp.fit(data, Sphere(n=dict))', lambda: hp.fit(data, Sphere(n={'red': 1.57, 'green': 1.6}, r=.5, center=(.5, .5, 5.)), parameters=['n']).parameters)
sys.exit(bad)
