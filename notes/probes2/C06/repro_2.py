"""C06 repro 2: per-channel noise given as a plain sequence (Model(noise_sd=[...]) or
data.attrs) is broadcast against the trailing 'z' axis of the residuals, not against
'illumination': residuals get shape (nch, nx, ny, nch) and the likelihood is wrong,
silently.  (dict on the model is the known crash; labelled array / dict on the data work.)"""
import sys, os; sys.path.insert(0, os.getcwd())
import warnings; warnings.filterwarnings('ignore')
import numpy as np, xarray as xr
np.NaN = np.nan
import holopy
from holopy.scattering import Sphere, Mie, calc_holo
from holopy.core.metadata import detector_grid, update_metadata
from holopy.inference import prior, AlphaModel

rng = np.random.default_rng(3)
ch = ['red', 'green']
det = detector_grid((6, 5), (0.11, 0.13), extra_dims={'illumination': ch})
wl = {'red': 0.66, 'green': 0.52}; pol = {'red': (1, 0), 'green': (1, 1)}
noise = {'red': 0.1, 'green': 0.05}
center = (0.3, 0.2, 5.)
true = calc_holo(det, Sphere(n=1.58, r=0.5, center=center), 1.33, wl, pol, theory=Mie())
data = true + xr.DataArray(rng.normal(size=true.shape) * 0.05, dims=true.dims, coords=true.coords)
data.attrs = dict(true.attrs)
S = Sphere(n=prior.Uniform(1.5, 1.7, guess=1.6), r=prior.Uniform(0.3, 0.7, guess=0.52), center=center)

ref = 0
for c in ch:   # stacked single-channel reference
    d1 = data.sel(illumination=c); d1.attrs = {}
    m1 = AlphaModel(S, theory=Mie(), illum_wavelen=wl[c], illum_polarization=pol[c], noise_sd=noise[c], medium_index=1.33)
    ref += m1.lnlike(m1.initial_guess, d1)
lab = AlphaModel(S, theory=Mie(), noise_sd=xr.DataArray([0.1, 0.05], dims='illumination', coords={'illumination': ch}))
m = AlphaModel(S, theory=Mie(), noise_sd=[noise[c] for c in ch])
p = m.ensure_parameters_are_listlike(m.initial_guess)
res = m._residuals(p, data, m._find_noise(p, data))
ll = m.lnlike(m.initial_guess, data)
print('sum of single-channel lnlike :', ref)
print('labelled-array noise lnlike  :', lab.lnlike(lab.initial_guess, data))
print('plain-list noise lnlike      :', ll, ' residual shape', res.shape, '(data shape', data.shape, ')')
sys.exit(1 if (res.shape != data.shape or abs(ll - ref) > 1e-6) else 0)
