import sys, os; sys.path.insert(0, os.getcwd())
import warnings; warnings.filterwarnings('ignore')
import numpy as np
np.NaN = np.nan
import xarray as xr
# sandbox workaround: installed xarray's Dataset.update returns None
_orig_update = xr.Dataset.update
def _upd(self, other):
    r = _orig_update(self, other)
    return self if r is None else r
xr.Dataset.update = _upd
