# Uniform-spacing check in fourier.get_spacing uses np.allclose with the default
# absolute tolerance 1e-8, so it is unit dependent: the same (clearly non-uniform)
# pixel grid is rejected in micrometres and silently accepted in metres.
import sys, os; sys.path.insert(0, os.path.dirname(os.path.abspath(__file__))); sys.path.insert(0, os.getcwd())
from _common import *
import holopy as hp
from holopy.core.metadata import data_grid
from holopy.core.process import fft
from holopy import propagate

stretch = np.cumsum([0, 1, 1, 1.03, 1.05, 1.07, 1.09, 1.09])   # pixel positions, in pixels: spacing grows by 9 %
# (0.1 um pixels, as in holopy's own example images, whose coordinates are in metres)
img = np.random.default_rng(0).normal(size=(8, 8))

def run(unit):
    g = data_grid(img, spacing=0.1 * unit, medium_index=1.33, illum_wavelen=0.66 * unit)
    g = g.assign_coords(x=stretch * 0.1 * unit)
    out = {}
    for name, f in [('fft', lambda: fft(g)), ('propagate', lambda: propagate(g, 5 * unit))]:
        try:
            f(); out[name] = 'accepted silently'
        except ValueError as e:
            out[name] = 'rejected: %s' % e
    return out

um, m = run(1.0), run(1e-6)
print('x spacings (pixels):', np.diff(stretch))
print('lengths in micrometres:', um)
print('lengths in metres     :', m)
bad = (um != m)
print('VIOLATION: behaviour depends on the unit of length' if bad else 'ok')
sys.exit(1 if bad else 0)
