# propagate(data, 0, ...) takes an early `return data` before anything else happens:
# medium_index / illum_wavelen overrides are ignored, missing optics are not reported,
# the very same object is handed back, and dims/z label differ from every other distance.
import sys, os; sys.path.insert(0, os.path.dirname(os.path.abspath(__file__))); sys.path.insert(0, os.getcwd())
from _common import *
from holopy.core.metadata import data_grid
from holopy import propagate
from holopy.scattering.errors import MissingParameter

img = np.random.default_rng(0).normal(size=(6, 5))
g = data_grid(img, spacing=0.1, medium_index=1.33, illum_wavelen=0.66, z=7.0)
r0 = propagate(g, 0, medium_index=1.5, illum_wavelen=0.405)
re = propagate(g, 1e-9, medium_index=1.5, illum_wavelen=0.405)
rl = propagate(g, [0], medium_index=1.5, illum_wavelen=0.405)
print('d=0    : medium_index=%s illum_wavelen=%s dims=%s z=%s same object=%s' % (r0.medium_index, r0.illum_wavelen, r0.dims, r0.z.values, r0 is g))
print('d=1e-9 : medium_index=%s illum_wavelen=%s dims=%s z=%s' % (re.medium_index, re.illum_wavelen, re.dims, re.z.values))
print('d=[0]  : medium_index=%s illum_wavelen=%s dims=%s z=%s' % (rl.medium_index, rl.illum_wavelen, rl.dims, rl.z.values))
nometa = data_grid(img, spacing=0.1)
def raises(d):
    try: propagate(nometa, d); return False
    except MissingParameter: return True
print('image without optics: d=0 raises MissingParameter: %s ; d=[0]: %s ; d=1: %s' % (raises(0), raises([0]), raises(1)))
bad = (r0.medium_index != 1.5) or (r0.illum_wavelen != 0.405) or (r0 is g)
print('VIOLATION: overrides silently ignored / input aliased for d == 0' if bad else 'ok')
sys.exit(1 if bad else 0)
