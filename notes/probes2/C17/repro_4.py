# A single channel selected from a two-colour hologram keeps the two-wavelength
# illum_wavelen attribute; propagate broadcasts against it and returns TWO channels,
# the 'green' one being the red image propagated at the green wavelength.
import sys, os; sys.path.insert(0, os.path.dirname(os.path.abspath(__file__))); sys.path.insert(0, os.getcwd())
from _common import *
from holopy.core.metadata import data_grid
from holopy import propagate

a = np.random.default_rng(0).normal(size=(6, 5, 2))
holo = data_grid(a, spacing=0.3, medium_index=1.33,
                 illum_wavelen={'red': 0.66, 'green': 0.45},
                 extra_dims={'illumination': ['red', 'green']})
red = holo.sel(illumination='red')
out = propagate(red, 2.0)
print('input dims', red.dims, 'shape', red.shape)
print('output dims', out.dims, 'shape', out.shape, 'illumination =', out.coords['illumination'].values)
single = propagate(data_grid(a[..., 0], spacing=0.3, medium_index=1.33, illum_wavelen=0.66), 2.0)
bad = 'illumination' in out.dims
if bad:
    for c in out.illumination.values:
        print('  channel %-5s differs from the true red propagation by %.3g' % (c, abs(out.sel(illumination=c).transpose('x', 'y', 'z').values - single.values).max()))
print('VIOLATION: output grew a spurious, mislabelled channel' if bad else 'ok')
sys.exit(1 if bad else 0)
