# fft(data, shift=False) returns the spectrum in numpy's unshifted order but labels
# the m/n coordinates with the *shifted* (monotonic, centred) frequency axis.
import sys, os; sys.path.insert(0, os.path.dirname(os.path.abspath(__file__))); sys.path.insert(0, os.getcwd())
from _common import *
from holopy.core.metadata import data_grid
from holopy.core.process import fft

N, s, k = 16, 0.1, 3                       # a single plane wave with +3 cycles across the image in x
xx = np.arange(N)[:, None] * s
img = np.exp(2j * np.pi * (k / (N * s)) * xx) * np.ones((1, N))
g = data_grid(img, spacing=s)
true_f = k / (N * s)
res = {}
for shift in (True, False):
    F = fft(g, shift=shift).squeeze('z')
    i = int(abs(F).sum('n').argmax('m'))
    res[shift] = float(F.m[i])
    print('shift=%-5s peak at index %2d, labelled m = %+.4f   (true frequency %+.4f)' % (shift, i, res[shift], true_f))
# with shift=True the label is within one bin of the truth (the residual offset is the known ft_coord grid issue)
binw = 1 / (N * s)
bad = abs(res[False] - true_f) > 1.5 * binw and abs(res[True] - true_f) <= 1.5 * binw
print('VIOLATION: shift=False spectrum carries the shifted frequency labels' if bad else 'ok')
sys.exit(1 if bad else 0)
