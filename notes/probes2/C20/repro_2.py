# Spheres keeps the caller's list object: add() on one collection silently
# changes the caller's list and every other collection built from it
# (their overlaps / largest_overlap change without being touched, and no warning).
import sys, os; sys.path.insert(0, os.getcwd())
import warnings
import holopy
from holopy.scattering.scatterer import Sphere, Spheres
from holopy.scattering.errors import OverlapWarning
print(holopy.__file__)
a = Sphere(n=1.5, r=0.5, center=(0, 0, 0))
b = Sphere(n=1.5, r=0.5, center=(3, 0, 0))
members = [a, b]
with warnings.catch_warnings(record=True) as w:
    warnings.simplefilter('always')
    A = Spheres(members)
    B = Spheres(members)
    before = (list(members), B.overlaps, B.largest_overlap())
    A.add(Sphere(n=1.5, r=0.5, center=(0.2, 0, 0)))     # only A is modified by the caller
    after = (list(members), B.overlaps, B.largest_overlap())
    nwarn = len([x for x in w if issubclass(x.category, OverlapWarning)])
print("caller's list length before/after A.add():", len(before[0]), len(after[0]))
print("B.overlaps before/after:", before[1], after[1])
print("B.largest_overlap before/after:", before[2], after[2])
print("A.scatterers is members:", A.scatterers is members, " B.scatterers is A.scatterers:", B.scatterers is A.scatterers)
print("OverlapWarnings issued:", nwarn)
viol = len(after[0]) != len(before[0]) or after[1] != before[1]
print("VIOLATION" if viol else "ok")
sys.exit(1 if viol else 0)
