# Capsule: contains() says the hemispherical caps are inside, index_at()/voxelate()
# give them the BACKGROUND index (indicator domains 2 and 3 have no entry in n).
import sys, os; sys.path.insert(0, os.getcwd())
import numpy as np
import holopy
from holopy.scattering.scatterer import Capsule
print(holopy.__file__)
c = Capsule(n=1.5, h=1.0, d=0.5, center=(0, 0, 0))
grid = c._voxel_coords(0.05)                 # the grid voxelate() itself uses
inside = c.contains(grid)
dom = c.in_domain(grid)
idx = c.index_at(grid, background=1.33)
vox = c.voxelate(0.05)
print("domains present:", dict(zip(*np.unique(dom, return_counts=True))))
print("voxels reported inside by contains():", int(inside.sum()))
print("voxels given the particle index by index_at():", int((idx == 1.5).sum()))
print("voxels inside but with background index:", int((inside & (idx != 1.5)).sum()))
print("voxelate() values:", dict(zip(*np.unique(vox, return_counts=True))))
# a point on the axis inside the upper cap: |z| in (h/2, h/2+d/2)
p = np.array([[[[0.0, 0.0, 0.6]]]])
print("axis point z=0.6: contains", c.contains(p).ravel(), "index_at", c.index_at(p, 1.33).ravel())
viol = bool((inside & (idx != 1.5)).any())
print("VIOLATION" if viol else "ok")
sys.exit(1 if viol else 0)
