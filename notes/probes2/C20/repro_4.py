# Low interest (crashes with unhelpful messages): CSG operands that are themselves CSG
# objects, or a LayeredSphere with >1 layer, die on num_domains instead of being
# handled / rejected with InvalidScatterer.
import sys, os; sys.path.insert(0, os.getcwd())
import holopy
from holopy.scattering.scatterer import Sphere, LayeredSphere
from holopy.scattering.scatterer.csg import Union, Difference
from holopy.scattering.errors import InvalidScatterer
print(holopy.__file__)
a = Sphere(n=1.5, r=0.5, center=(0, 0, 0)); b = Sphere(n=1.5, r=0.4, center=(0.6, 0, 0))
c = Sphere(n=1.5, r=0.3, center=(0, 0.5, 0))
viol = False
try:
    d = Difference(Union(a, b), c)
    print("nested CSG ok:", d.contains([[0, 0, 0]]))
except InvalidScatterer as e:
    print("nested CSG rejected cleanly")
except Exception as e:
    print("nested CSG:", repr(e)); viol = True
try:
    Union(LayeredSphere(n=[1.5, 1.6], t=[0.2, 0.2], center=(0, 0, 0)), b)
    print("layered accepted")
except InvalidScatterer:
    print("2-layer LayeredSphere operand rejected cleanly")
except Exception as e:
    print("2-layer LayeredSphere operand:", repr(e)); viol = True
sys.exit(1 if viol else 0)
