# (adjacent to C20: the consumer of largest_overlap) LimitOverlaps is honoured by
# Model.lnprior but silently ignored by both least-squares strategies: the fit
# returns a cluster for which the model's own lnprior is -inf.
import sys, os; sys.path.insert(0, os.getcwd())
import warnings
import numpy as np
np.NaN = np.nan                      # sandbox numpy 2.x workaround for nmpfit
warnings.simplefilter('ignore')
import holopy
from holopy.scattering.scatterer import Sphere, Spheres
from holopy.scattering import calc_holo
from holopy.core.metadata import detector_grid
from holopy.inference import LimitOverlaps, prior, NmpfitStrategy, LeastSquaresScipyStrategy
from holopy.inference.model import ExactModel
print(holopy.__file__)
det = detector_grid(20, 0.2)
true = Spheres([Sphere(n=1.59, r=0.5, center=(2, 2, 8)),
                Sphere(n=1.59, r=0.5, center=(2.9, 2, 8))], warn=False)   # overlap 0.1
data = calc_holo(det, true, 1.33, 0.66, (1, 0))
guess = Spheres([Sphere(n=1.59, r=0.5, center=(2, 2, 8)),
                 Sphere(n=1.59, r=0.5,
                        center=(prior.Uniform(2, 4, guess=3.05), 2, 8))], warn=False)
model = ExactModel(guess, calc_holo, noise_sd=0.01, medium_index=1.33,
                   illum_wavelen=0.66, illum_polarization=(1, 0),
                   constraints=LimitOverlaps(0.0))       # no overlap allowed at all
print("lnprior at guess (no overlap):", model.lnprior(model.initial_guess))
print("lnprior at x=2.9 (overlap 0.1):", model.lnprior({'1:center.0': 2.9}))
viol = False
for strat in (LeastSquaresScipyStrategy(), NmpfitStrategy()):
    res = strat.fit(model, data)
    lp = model.lnprior(res.parameters)
    print(type(strat).__name__, "fitted x =", res.parameters['1:center.0'],
          "largest_overlap =", res.scatterer.largest_overlap(), "lnprior(result) =", lp)
    if lp == -np.inf:
        viol = True
print("VIOLATION (constraint ignored by fit)" if viol else "ok")
sys.exit(1 if viol else 0)
