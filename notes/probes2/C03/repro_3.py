"""C03 repro 3: Multisphere, one-sphere cluster, size parameter x = k*r equal
to a multiple of pi (e.g. r=0.5, wl=0.665, n_medium=1.33 -> x = 2 pi) reports
cross sections that are wrong by tens of percent; Mie gives the right ones.

Run from the checkout root:  /venv/bin/python /tmp/probe2_out/C03/repro_3.py
"""
import sys, os; sys.path.insert(0, os.getcwd())
import numpy as np
import holopy
from holopy.scattering import calc_cross_sections, Sphere, Spheres, Mie, Multisphere

print('holopy from', holopy.__file__)
bad = False
cases = [  # n, r, n_medium, wavelength
    (1.59, 0.5, 1.33, 0.665),   # x = 2 pi
    (1.59, 0.2, 1.5, 0.6),      # x = pi (1 ulp away)
    (1.59, 0.5, 1.0, 0.5),      # x = 2 pi
    (2.0, 1.0, 1.0, 1.0),       # x = 2 pi
    (1.5 + 0.1j, 1.0, 1.0, 1.0),
]
for n, r, nmed, wl in cases:
    s = Sphere(n=n, r=r, center=(0, 0, 0))
    mie = calc_cross_sections(s, nmed, wl, (1, 0), theory=Mie()).values
    ms = calc_cross_sections(Spheres([s]), nmed, wl, (1, 0), theory=Multisphere()).values
    s2 = Sphere(n=n, r=r * (1 + 1e-6), center=(0, 0, 0))
    ms2 = calc_cross_sections(s2, nmed, wl, (1, 0), theory=Multisphere()).values
    x = 2 * np.pi * nmed * r / wl
    print('n=%s r=%g nmed=%g wl=%g  x/pi=%.17g' % (n, r, nmed, wl, x / np.pi))
    print('   Mie                      :', mie)
    print('   Multisphere              :', ms)
    print('   Multisphere, r*(1+1e-6)  :', ms2)
    err = abs(ms[2] / mie[2] - 1)
    print('   relative error of C_ext: %.3g, of g: %.3g' % (err, abs(ms[3] - mie[3])))
    if err > 1e-3:
        bad = True
print('VIOLATION' if bad else 'ok')
sys.exit(1 if bad else 0)
