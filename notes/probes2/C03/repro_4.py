"""C03 repro 4: Multisphere rounds the relative refractive index to single
precision (scsmfo_min.for, mie1: ri=cmplx(sn,sk)).  For nearly index-matched
spheres the one-sphere cluster then disagrees with Mie by 1e-3 .. 1e-1, and
agrees to ~1e-11 with Mie evaluated at float32(m).

Run from the checkout root:  /venv/bin/python /tmp/probe2_out/C03/repro_4.py
"""
import sys, os; sys.path.insert(0, os.getcwd())
import numpy as np
import holopy
from holopy.scattering import Sphere, Mie, Multisphere
from holopy.core.metadata import to_vector

print('holopy from', holopy.__file__)
pol = to_vector((1, 0))
th = Multisphere(qeps1=1e-12)   # take series truncation out of the picture
mie = Mie()
bad = False
for nmed, n in [(1.33, 1.3301), (1.33, 1.33001), (1.0, 1.00001), (1.0, 1.000001)]:
    k = 2 * np.pi * nmed / 0.66
    s = Sphere(n=n, r=0.5, center=(0, 0, 0))
    ref = mie.raw_cross_sections(s, k, nmed, pol)
    m32 = float(np.float32(n / nmed))
    ref32 = mie.raw_cross_sections(Sphere(n=m32 * nmed, r=0.5, center=(0, 0, 0)), k, nmed, pol)
    ms = th.raw_cross_sections(s, k, nmed, pol)
    e = ms[2] / ref[2] - 1
    e32 = ms[2] / ref32[2] - 1
    print('n=%.6f in n_med=%.2f: C_ext Mie=%.6e Multisphere=%.6e  rel.diff=%.3g ; '
          'vs Mie at float32(m): %.3g' % (n, nmed, ref[2], ms[2], e, e32))
    if abs(e) > 1e-4 and abs(e32) < 1e-7:
        bad = True
print('VIOLATION' if bad else 'ok')
sys.exit(1 if bad else 0)
