"""C03 repro 5: Multisphere truncates the single-sphere expansion at the first
order whose extinction term is below qeps1 (scsmfo_min.for, mie1), although a
narrow resonance sits in a LATER order.  Default settings, high-index sphere,
x ~ 8..9 (far below the nod=32 limit): one-sphere cluster is off by >1 %.

Run from the checkout root:  /venv/bin/python /tmp/probe2_out/C03/repro_5.py
"""
import sys, os; sys.path.insert(0, os.getcwd())
import numpy as np
import holopy
from holopy.scattering import Sphere, Mie, Multisphere
from holopy.scattering.theory.mie_f import miescatlib
from holopy.core.metadata import to_vector

print('holopy from', holopy.__file__)
pol = to_vector((1, 0))
bad = False
for x, m in [(8.058560642521558, 3.233968444830752), (9.14561397778516, 2.975625762799263)]:
    s = Sphere(n=m, r=x, center=(0, 0, 0))        # k = 1, n_medium = 1
    ref = Mie().raw_cross_sections(s, 1.0, 1.0, pol)
    th = Multisphere()
    amn, lmax = th._scsmfo_setup(s, 1.0, 1.0)
    csca = float(th._calc_cscat(s, 1.0, 1.0, pol, amn=amn, lmax=lmax))
    cext = float(th._calc_cext(s, 1.0, 1.0, pol, amn=amn, lmax=lmax))
    th8 = Multisphere(qeps1=1e-8)
    amn8, lmax8 = th8._scsmfo_setup(s, 1.0, 1.0)
    csca8 = float(th8._calc_cscat(s, 1.0, 1.0, pol, amn=amn8, lmax=lmax8))
    ab = miescatlib.scatcoeffs(m, x, miescatlib.nstop(x))
    n = np.arange(1, ab.shape[1] + 1)
    t = (2 * n + 1) * np.real(ab[0] + ab[1])
    frac = t / np.cumsum(t)
    first_small = int(n[np.argmax(frac < 1e-5)])
    print('x=%.4f m=%.4f' % (x, m))
    print('   per-order share of Q_ext, orders %d..%d: %s'
          % (first_small - 1, first_small + 2, np.array2string(frac[first_small - 2:first_small + 2], precision=3)))
    print('   C_sca Mie=%.6f  Multisphere(default qeps1=1e-5)=%.6f (rel %.3g)  Multisphere(qeps1=1e-8)=%.6f (rel %.3g)'
          % (ref[0], csca, csca / ref[0] - 1, csca8, csca8 / ref[0] - 1))
    if abs(csca / ref[0] - 1) > 1e-3 or abs(cext / ref[2] - 1) > 1e-3:
        bad = True
print('VIOLATION' if bad else 'ok')
sys.exit(1 if bad else 0)
