"""C03 repro 2: layered sphere returns silently wrong cross sections when
m_l * k * r_(l-1) or m_l * k * r_l is a multiple of pi (round-number inputs).

Run from the checkout root:  /venv/bin/python /tmp/probe2_out/C03/repro_2.py
"""
import sys, os; sys.path.insert(0, os.getcwd())
import numpy as np
import holopy
from holopy.scattering import calc_cross_sections, Sphere
from holopy.scattering.theory.mie_f.mie_specfuncs import log_der_13
from scipy.special import spherical_jn, spherical_yn

print('holopy from', holopy.__file__)
bad = False

def cs(n, r, nmed, wl):
    return calc_cross_sections(Sphere(n=n, r=r), nmed, wl, (1, 0)).values

# (a) a shell whose index equals the medium is invisible: the coated sphere
#     must report the numbers of the bare core.
nmed, wl = 1.33, 0.665
bare = cs(1.59, 0.5, nmed, wl)
coated = cs([1.59, 1.33], [0.5, 0.665], nmed, wl)           # z1 = 2*pi*1.33*0.5/0.665 = 2 pi
# same physical comparison at a wavelength changed by 1 ppm (arguments no longer k*pi)
bare_eps = cs(1.59, 0.5, nmed, wl * (1 + 1e-6))
coated_eps = cs([1.59, 1.33], [0.5, 0.665], nmed, wl * (1 + 1e-6))
print('(a) bare core                :', bare)
print('    core + index-matched shell:', coated)
print('    wl*(1+1e-6): bare         :', bare_eps)
print('    wl*(1+1e-6): core + shell :', coated_eps)
rel = abs(coated[2] / bare[2] - 1)
print('    relative error of C_ext: %.3g' % rel)
if rel > 1e-6:
    bad = True

# (b) continuity: a 1e-6 relative change of the radii must not move C_ext by percents
for n, r, nm, w in [([1.45, 1.5], [0.2, 0.4], 1.33, 0.6),
                    ([1.5, 2.0], [0.5, 1.0], 1.0, 1.0)]:
    a = cs(n, r, nm, w)
    b = cs(n, [ri * (1 + 1e-6) for ri in r], nm, w)
    jump = abs(a[2] / b[2] - 1)
    print('(b) n=%s r=%s nmed=%g wl=%g: C_ext=%.6f, radii*(1+1e-6): C_ext=%.6f, jump %.3g'
          % (n, r, nm, w, a[2], b[2], jump))
    if jump > 1e-4:
        bad = True

# (c) the helper at fault: D3_n(z) = xi_n'(z)/xi_n(z) from log_der_13 at z = pi
z, nmax = np.pi, 4
nn = np.arange(nmax + 1)
h = spherical_jn(nn, z) + 1j * spherical_yn(nn, z)
hp = spherical_jn(nn, z, True) + 1j * spherical_yn(nn, z, True)
d3_exact = (h + z * hp) / (z * h)
d3_lib = log_der_13(z, nmax)[1]
print('(c) D3_n(pi) library:', np.round(d3_lib, 5))
print('    D3_n(pi) exact  :', np.round(d3_exact, 5))
if np.abs(d3_lib - d3_exact).max() > 1e-6:
    bad = True

print('VIOLATION' if bad else 'ok')
sys.exit(1 if bad else 0)
