"""C03 repro 1: Multisphere results for a cluster of >= 3 spheres of different
sizes depend on the ORDER in which the spheres are listed (up to ~10 % here),
and violate energy conservation (C_abs/C_ext = -9 % for real indices, incident
polarisation along x).  Clusters of equal spheres, and dimers, are order
independent to all digits.

Run from the checkout root:  /venv/bin/python /tmp/probe2_out/C03/repro_1.py
"""
import sys, os; sys.path.insert(0, os.getcwd())
import itertools
import numpy as np
import holopy
from holopy.scattering import calc_cross_sections, Sphere, Spheres, Multisphere
from holopy.core.metadata import to_vector

print('holopy from', holopy.__file__)
nmed, wl = 1.33, 0.66
k = 2 * np.pi * nmed / wl
pol = to_vector((1, 0))
th = Multisphere()


def sca_ext(spheres):
    """C_sca (coefficient sum) and C_ext (optical theorem) exactly as
    Multisphere.raw_cross_sections computes them (skips the slow dblquad for g)."""
    sc = Spheres(spheres)
    amn, lmax = th._scsmfo_setup(sc, k, nmed)
    csca = float(th._calc_cscat(sc, k, nmed, pol, amn=amn, lmax=lmax))
    cext = float(th._calc_cext(sc, k, nmed, pol, amn=amn, lmax=lmax))
    return csca, cext


def study(label, spheres):
    print(label)
    rows = []
    for perm in itertools.permutations(range(len(spheres))):
        csca, cext = sca_ext([spheres[j] for j in perm])
        rows.append((csca, cext))
        print('   order %s  r=%s  C_sca=%.6f  C_ext=%.6f  C_abs/C_ext=%+.2e'
              % (perm, [spheres[j].r for j in perm], csca, cext, (cext - csca) / cext))
    rows = np.array(rows)
    spread = (rows.max(0) - rows.min(0)) / rows.mean(0)
    worst_abs = np.abs((rows[:, 1] - rows[:, 0]) / rows[:, 1]).max()
    print('   spread over orderings: C_sca %.2e, C_ext %.2e ; worst |C_abs|/C_ext %.2e'
          % (spread[0], spread[1], worst_abs))
    return spread.max(), worst_abs


bad = False
# control 1: three equal spheres -> identical for all orderings
s, a = study('control: three equal spheres (n=1.59, r=0.4)',
             [Sphere(n=1.59, r=0.4, center=c) for c in [(0, 0, 0), (0.9, 0.1, 0.05), (0.3, -0.95, 0.5)]])
if s > 1e-9:
    bad = True
# control 2: a dimer of very different spheres -> identical for both orderings
s, a = study('control: dimer r=0.45 / r=0.15',
             [Sphere(n=1.59, r=0.45, center=(0, 0, 0)), Sphere(n=1.59, r=0.15, center=(0.5, 0.3, 0.2))])
if s > 1e-9:
    bad = True
# case A: polystyrene-like trimer, three different radii, non-touching, real index
s, a = study('case A: n=1.59, r = 0.45 / 0.30 / 0.15',
             [Sphere(n=1.59, r=0.45, center=(0, 0, 0)),
              Sphere(n=1.59, r=0.30, center=(0.9, 0.1, 0.05)),
              Sphere(n=1.59, r=0.15, center=(0.3, -0.95, 0.5))])
if s > 1e-4:
    bad = True
# case B: compact trimer (standalone rebuild of the solver with the vctran loops fixed
#         gives C_sca = 2.662804, C_ext = 2.662788 for every ordering)
sphB = [Sphere(n=1.91, r=0.14, center=(0, 0, 0)),
        Sphere(n=1.78, r=0.15, center=(0.09, 0.13, 0.33)),
        Sphere(n=1.71, r=0.45, center=(-0.05, 0.11, 1.03))]
s, a = study('case B: r = 0.14 / 0.15 / 0.45, n = 1.91 / 1.78 / 1.71 (all real)', sphB)
if s > 1e-4 or a > 1e-3:
    bad = True
# the same through the public entry point, two orderings
c1 = calc_cross_sections(Spheres(sphB), nmed, wl, (1, 0), theory=Multisphere()).values
c2 = calc_cross_sections(Spheres(sphB[::-1]), nmed, wl, (1, 0), theory=Multisphere()).values
print('calc_cross_sections, listed order   :', c1)
print('calc_cross_sections, reversed order :', c2)
if abs(c1[2] / c2[2] - 1) > 1e-4:
    bad = True
print('VIOLATION' if bad else 'ok')
sys.exit(1 if bad else 0)
