"""C01 repro 2: for point detectors given in spherical coordinates (r, theta,
phi) the position of the scatterer is ignored when the field is evaluated
(ImageFormation._transform_to_desired_coordinates never subtracts `origin` in
its spherical branch), although the same points given in Cartesian form are
taken relative to the scatterer, and although the phase factor exp(-i k z_c)
of the scatterer's z is still applied.  Consequences: the hologram on the very
same physical pixels depends on how their coordinates are written; moving the
particle sideways changes nothing; every sphere of a Spheres collection
computed by Mie superposition is put at the same place."""
import sys, os; sys.path.insert(0, os.getcwd())
import warnings; warnings.simplefilter('ignore')
import numpy as np
import holopy
from holopy.scattering import calc_holo, calc_field, Sphere, Spheres, Mie
from holopy.core.metadata import detector_points
print('holopy from', holopy.__file__)
kw = dict(medium_index=1.33, illum_wavelen=0.66, illum_polarization=(1, 0))

r = np.array([10., 12., 15.]); th = np.array([0.3, 0.5, 0.2]); ph = np.array([0.1, 1.0, 4.0])
d_sph = detector_points(r=r, theta=th, phi=ph)
# same physical points in Cartesian form (convention of holopy's own
# test_detector_points: theta is measured from the direction pointing away from
# the detector's +z, i.e. z_detector = -r cos(theta))
d_car = detector_points(x=r*np.sin(th)*np.cos(ph), y=r*np.sin(th)*np.sin(ph), z=-r*np.cos(th))

bad = False
for c in [(0, 0, 0), (1.0, 2.0, 0.0), (1.0, 2.0, 3.0)]:
    s = Sphere(n=1.59, r=0.5, center=c)
    hs = calc_holo(d_sph, s, **kw).values; hc = calc_holo(d_car, s, **kw).values
    print('center', c, ' holo(spherical pts) =', np.round(hs, 5), ' holo(cartesian pts) =', np.round(hc, 5))
    if c != (0, 0, 0) and not np.allclose(hs, hc, atol=1e-6): bad = True

f0 = calc_field(d_sph, Sphere(n=1.59, r=0.5, center=(0, 0, 0)), **kw).values
f1 = calc_field(d_sph, Sphere(n=1.59, r=0.5, center=(3.0, -2.0, 0)), **kw).values
print('field unchanged when the sphere is moved by (3,-2,0):', bool(np.array_equal(f0, f1)))
if np.array_equal(f0, f1): bad = True

a = Sphere(n=1.59, r=0.5, center=(0, 0, 0)); b = Sphere(n=1.59, r=0.5, center=(4.0, 0, 0))
fs = calc_field(d_sph, Spheres([a, b]), theory=Mie(), **kw).values
print('Spheres([a, b at x=4]) by Mie superposition == 2 * field of a alone:', bool(np.allclose(fs, 2*f0)))
if np.allclose(fs, 2*f0): bad = True
print('VIOLATION' if bad else 'ok')
sys.exit(1 if bad else 0)
