"""C01 repro 3 (field-level, adjacent to C01): Tmatrix.raw_fields combines the
amplitude matrix returned by the Fortran code with the azimuthal rotation in
the wrong order (S^T . P instead of S . P^T), so the scattered field -- hence
calc_field / calc_intensity / calc_holo -- of ANY scatterer computed with
theory=Tmatrix (the default for Spheroid and Cylinder) is wrong at every pixel
whose azimuth about the particle is not 0 or pi.  Shown on a Sphere, which
Tmatrix accepts and for which Mie's far field is the exact reference."""
import sys, os; sys.path.insert(0, os.getcwd())
import warnings; warnings.simplefilter('ignore')
import numpy as np
import holopy
from holopy.scattering import calc_holo, calc_field, Sphere, Mie, Tmatrix
from holopy.scattering.theory.mie_f import mieangfuncs
from holopy.core.metadata import detector_grid, detector_points, to_vector
print('holopy from', holopy.__file__)
kw = dict(medium_index=1.33, illum_wavelen=0.66, illum_polarization=(1, 0))
s = Sphere(n=1.59, r=0.3, center=(3.2, 3.2, 5.0))
det = detector_grid([64, 64], 0.1)
far = Mie(compute_escat_radial=False, full_radial_dependence=False)   # same far-field form as Tmatrix
h_mie = calc_holo(det, s, theory=far, **kw); h_tm = calc_holo(det, s, theory=Tmatrix(), **kw)
d = abs(h_mie - h_tm)
print('hologram of a sphere, Tmatrix vs far-field Mie: max |diff| = %.4f  (fringe amplitude %.4f)'
      % (float(d.max()), float(h_mie.max() - h_mie.min())))
row = d.sel(y=3.2, method='nearest'); print('   along the row phi=0/pi through the particle: max |diff| = %.2e' % float(row.max()))
col = d.sel(x=3.2, method='nearest'); print('   along the column phi=+-pi/2             : max |diff| = %.2e' % float(col.max()))

# field level, random directions, and the corrected combination
k = 2*np.pi*1.33/0.66; rng = np.random.default_rng(0); N = 50
pos = np.array([rng.uniform(20, 100, N), rng.uniform(0, np.pi, N), rng.uniform(0, 2*np.pi, N)])
s0 = Sphere(n=1.59, r=0.3, center=(0, 0, 0)); pol = to_vector((1, 0))
fm = np.array(far.raw_fields(pos, s0, k, 1.33, pol))
ft = Tmatrix().raw_fields(pos, s0, k, 1.33, pol)
t = Tmatrix().raw_scat_matrs(s0, pos, k, 1.33)      # = S^T for each direction
fc = np.zeros((N, 3), complex)
for i, (kr, th, ph) in enumerate(pos.T):
    S = t[i].T
    P_T = np.array([[np.cos(ph), -np.sin(ph)], [np.sin(ph), np.cos(ph)]])
    fc[i] = mieangfuncs.fieldstocart(mieangfuncs.calc_scat_field(kr, ph, S @ P_T, [1, 0]), th, ph)
e_lib = np.abs(ft - fm).max()/np.abs(fm).max(); e_fix = np.abs(fc.T - fm).max()/np.abs(fm).max()
print('random directions: library Tmatrix field vs Mie, max relative error = %.3g' % e_lib)
print('                   S . P^T (corrected order)  vs Mie, max relative error = %.3g' % e_fix)
violated = e_lib > 1e-3 and e_fix < 1e-5
print('VIOLATION' if violated else 'ok')
sys.exit(1 if violated else 0)
