"""C01 repro 1: a labelled polarisation whose 'vector' coordinate is not in the
order x, y, z is used BY POSITION for the scattered field (values[:2]) but BY
LABEL for the reference wave, so hologram != |scaling*field(pol) + pol|^2 for
any single polarisation.  Run from the checkout root."""
import sys, os; sys.path.insert(0, os.getcwd())
import warnings; warnings.simplefilter('ignore')
import numpy as np, xarray as xr
import holopy
from holopy.scattering import calc_holo, calc_field, Sphere
from holopy.core.metadata import detector_grid
print('holopy from', holopy.__file__)

det = detector_grid([5, 4], [0.1, 0.13])
s = Sphere(n=1.59, r=0.5, center=(0.3, 0.2, 5))
kw = dict(medium_index=1.33, illum_wavelen=0.66)

# the same physical vector (x=1, y=0, z=0) written with two label orders
p_xyz = xr.DataArray([1.0, 0.0, 0.0], dims='vector', coords={'vector': ['x', 'y', 'z']})
p_yxz = xr.DataArray([0.0, 1.0, 0.0], dims='vector', coords={'vector': ['y', 'x', 'z']})
assert float(p_yxz.sel(vector='x')) == 1.0 and float(p_yxz.sel(vector='y')) == 0.0

h_tuple = calc_holo(det, s, illum_polarization=(1, 0), **kw)
h_xyz = calc_holo(det, s, illum_polarization=p_xyz, **kw)
h_yxz = calc_holo(det, s, illum_polarization=p_yxz, **kw)
h_ypol = calc_holo(det, s, illum_polarization=(0, 1), **kw)
f_xyz = calc_field(det, s, illum_polarization=p_xyz, **kw)
f_yxz = calc_field(det, s, illum_polarization=p_yxz, **kw)
f_ypol = calc_field(det, s, illum_polarization=(0, 1), **kw)

d_ok = float(abs(h_xyz - h_tuple).max())
d_bad = float(abs(h_yxz - h_tuple).max())
d_y = float(abs(h_yxz - h_ypol).max())
print('x-polarised, labels (x,y,z) vs tuple (1,0): max |dholo| =', d_ok)
print('x-polarised, labels (y,x,z) vs tuple (1,0): max |dholo| =', d_bad)
print('                       ... vs tuple (0,1): max |dholo| =', d_y)
print('field for labels (y,x,z) equals the field for y-polarised light:',
      bool(np.allclose(f_yxz.values, f_ypol.values)),
      '; equals the field for x-polarised light:', bool(np.allclose(f_yxz.values, f_xyz.values)))
print('metadata on the result says polarisation =',
      dict(zip(h_yxz.illum_polarization.vector.values.tolist(), h_yxz.illum_polarization.values.tolist())))
violated = d_bad > 1e-9
print('VIOLATION' if violated else 'ok')
sys.exit(1 if violated else 0)
