"""C18 / Accumulator: mean() hands out the internal running-mean buffer. A later push()
updates it IN PLACE, so a mean obtained earlier changes behind the caller's back, and a caller
editing the returned mean corrupts the accumulator (mean and std no longer equal batch values)."""
import sys, os; sys.path.insert(0, os.getcwd())
import numpy as np
import holopy
from holopy.core.io.io import Accumulator

rng = np.random.default_rng(0)
xs = [rng.uniform(0, 10, (3, 4)) for _ in range(4)]
violation = False

acc = Accumulator()
acc.push(xs[0]); acc.push(xs[1])
m2 = acc.mean()
m2_snapshot = m2.copy()
acc.push(xs[2])
if not np.array_equal(m2, m2_snapshot):
    print('VIOLATION: mean of first 2 pushes was modified in place by the 3rd push; max change',
          abs(m2 - m2_snapshot).max(), '; `m2 is acc.mean()` ->', m2 is acc.mean())
    violation = True

# caller-side edit of the returned mean (e.g. normalising it in place) corrupts later results
acc = Accumulator()
acc.push(xs[0]); acc.push(xs[1])
m = acc.mean(); m /= m.mean()          # harmless-looking in-place use of the result
acc.push(xs[2]); acc.push(xs[3])
err_m = abs(acc.mean() - np.mean(xs, 0)).max(); err_s = abs(acc.std() - np.std(xs, 0)).max()
print('after caller edited returned mean: |mean-batch| =', err_m, ' |std-batch| =', err_s)
if err_m > 1e-9 or err_s > 1e-9:
    print('VIOLATION: accumulator state corrupted through the object returned by mean()')
    violation = True
sys.exit(1 if violation else 0)
