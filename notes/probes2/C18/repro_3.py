"""C18 / subimage: docstring says `center` "should have the same number of elements as the arr
has dimensions" and the code asserts len(shape) in (2, arr.ndim).  For a standard holopy image
(dims z, x, y) a centre/shape given per dimension in the array's own dim order is applied
positionally to x and y (entry 0 -> x, entry 1 -> y), i.e. the z entry crops x and the x entry
crops y: a silently wrong (here empty / mis-sized) crop."""
import sys, os; sys.path.insert(0, os.getcwd())
import warnings; warnings.simplefilter('ignore')
import numpy as np
import holopy
from holopy.core.metadata import data_grid
from holopy.core.process import subimage

im = data_grid(np.arange(200.).reshape(10, 20), spacing=1.0)      # dims ('z','x','y'), shape (1,10,20)
ref = subimage(im, (5, 12), (4, 6))                                # x 3..6, y 9..14
print('dims', im.dims, ' reference crop', ref.shape, ref.x.values, ref.y.values)
violation = False
# centre given per dimension, in arr.dims order (z, x, y)
s = subimage(im, (0, 5, 12), (4, 6))
print('center=(0,5,12), shape=(4,6)  ->', s.shape, 'x', s.x.values, 'y', s.y.values)
if s.shape != ref.shape or not np.array_equal(s.values, ref.values):
    print('VIOLATION: z entry of the centre was used for x, x entry for y'); violation = True
# shape given per dimension (explicitly allowed by the assert)
s = subimage(im, (5, 12), (1, 4, 6))
print('center=(5,12),  shape=(1,4,6) ->', s.shape, 'x', s.x.values, 'y', s.y.values)
if s.shape != ref.shape or not np.array_equal(s.values, ref.values):
    print('VIOLATION: z entry of the shape was used for x, x entry for y'); violation = True
sys.exit(1 if violation else 0)
