"""C18 / bg_correct: images of equal shape and spacing but different coordinate origin
(e.g. a subimage()-cropped hologram and a pre-cropped background) pass the consistency
check and are then divided label-wise by xarray -> result silently SHRINKS (or is empty)
and pairs the wrong pixels, instead of (raw-df)/(bg-df) pixelwise or a BadImage error."""
import sys, os; sys.path.insert(0, os.getcwd())
import warnings; warnings.simplefilter('ignore')
import numpy as np
import holopy
from holopy.core.metadata import data_grid
from holopy.core.process import subimage, bg_correct
from holopy.core.errors import BadImage

rng = np.random.default_rng(0)
full_raw = data_grid(rng.uniform(1, 2, (20, 20)), spacing=0.5)
full_bg = data_grid(rng.uniform(1, 2, (20, 20)), spacing=0.5)

raw = subimage(full_raw, (6, 6), 8)                 # x, y = 1.0 .. 4.5
bg_crop = full_bg.values[0, 2:10, 2:10]             # the same 8x8 region of the background ...
bg = data_grid(bg_crop, spacing=0.5)                # ... wrapped as an image (origin 0): x, y = 0 .. 3.5
expected = raw.values / bg.values                   # pixelwise quotient

violation = False
try:
    out = bg_correct(raw, bg)
    print('raw shape', raw.shape, 'bg shape', bg.shape, '-> result shape', out.shape)
    if out.shape != raw.shape:
        print('VIOLATION: result is not pixelwise (raw-df)/(bg-df); silently shrunk to the coordinate overlap')
        print('  result[0,0] =', float(out.values[0, 0, 0]),
              ' = raw[0,0]/bg[2,2] =', float(raw.values[0, 0, 0] / bg.values[0, 2, 2]),
              ' (pixelwise value raw[0,0]/bg[0,0] would be', float(expected[0, 0, 0]), ')')
        violation = True
    elif not np.allclose(out.values, expected):
        print('VIOLATION: wrong values'); violation = True
except BadImage as e:
    print('refused with BadImage (acceptable):', e)

# same thing with only the z coordinate differing -> empty result
bgz = data_grid(bg_crop, spacing=0.5, z=1.0)
bgz = bgz.assign_coords(x=raw.x.values, y=raw.y.values)
try:
    out = bg_correct(raw, bgz)
    print('z-mismatch -> result shape', out.shape)
    if out.size == 0:
        print('VIOLATION: empty result returned silently'); violation = True
except BadImage as e:
    print('refused with BadImage (acceptable):', e)
sys.exit(1 if violation else 0)
