"""Low-priority siblings of the already known overflow at 1e200:
(a) origin-adjacent points (|x| < ~1e-162) underflow in x*x + y*y + z*z, so the
    distance from the origin comes back as 0 and the polar angle as 0 or pi;
(b) integer coordinate arrays overflow silently in x**2 (int32 at ~46341)."""
import sys, os; sys.path.insert(0, os.getcwd())
import warnings
import numpy as np
from holopy.core.math import find_transformation_function as F
warnings.simplefilter('ignore')
bad = 0
p = np.array([[1.], [1.], [1.]]) * 1e-170
s = F('cartesian', 'spherical')(p).ravel()
c = F('cartesian', 'cylindrical')(p).ravel()
print('(a) cart->sph of (1,1,1)*1e-170:', s, ' expected r=1.73e-170, theta=0.9553')
print('    cart->cyl                   :', c, ' expected rho=1.41e-170')
bad += (s[0] == 0) or abs(s[1] - 0.9553166) > 1e-6 or c[0] == 0
q = np.array([[50000], [50000], [50000]], dtype=np.int32)
c = F('cartesian', 'cylindrical')(q).ravel()
s = F('cartesian', 'spherical')(q).ravel()
print('(b) int32 (50000,50000,50000): cart->cyl', c, ' expected rho=70710.7')
print('                               cart->sph', s, ' expected r=86602.5')
bad += not np.isclose(c[0], 50000 * np.sqrt(2)) or not np.isclose(s[0], 50000 * np.sqrt(3))
print('VIOLATION' if bad else 'ok')
sys.exit(1 if bad else 0)
