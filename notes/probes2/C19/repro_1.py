"""RigidCluster inside a Model: the rotation and translation parameters are
silently ignored, because RigidCluster.from_parameters returns a plain Spheres
and the model keeps that Spheres as its '_dummy_scatterer'."""
import sys, os; sys.path.insert(0, os.getcwd())
import warnings
import numpy as np
warnings.simplefilter('ignore')
import holopy
from holopy.core.math import rotation_matrix
from holopy.scattering import Sphere, Spheres
from holopy.scattering.scatterer import RigidCluster
from holopy.inference import prior, ExactModel

print('holopy from', holopy.__file__)


def centers(s):
    return np.array([np.array(m.center, dtype=float) for m in s.scatterers])


base = Spheres([Sphere(n=1.5, r=.3, center=(0, 0, 0)),
                Sphere(n=1.6, r=.4, center=(1, 0, 0)),
                Sphere(n=1.7, r=.2, center=(0, 2, 0))], warn=False)
rot = (0.3, -1.2, 2.5)
tr = (5., 6., 7.)
c0 = centers(base)
expected = c0.mean(0) + (rotation_matrix(*rot) @ (c0 - c0.mean(0)).T).T + tr

# 1. the plain object is right
rc_fixed = RigidCluster(base, rotation=rot, translation=tr)
print('plain RigidCluster max |centre error|   :',
      np.abs(centers(rc_fixed) - expected).max())

# 2. the same cluster with rotation / translation as fit parameters
rc = RigidCluster(
    base,
    rotation=tuple(prior.Uniform(-4, 4, g) for g in rot),
    translation=tuple(prior.Uniform(0, 10, g) for g in tr))
model = ExactModel(rc)
pars = {k: p.guess for k, p in model.parameters.items()}
print('model parameters:', pars)
built = model.scatterer_from_parameters(pars)
print('model._dummy_scatterer is a', type(model._dummy_scatterer).__name__)
print('scatterer built by the model:\n', built)
err = np.abs(centers(built) - expected).max()
print('model-built cluster   max |centre error|:', err)

pars2 = dict(pars)
pars2.update({'rotation.0': 1.0, 'rotation.1': 0.5, 'rotation.2': -0.7,
              'translation.0': 1., 'translation.1': 2., 'translation.2': 9.})
built2 = model.scatterer_from_parameters(pars2)
ignored = np.array_equal(centers(built), centers(built2))
print('changing all six rotation/translation parameters changes the '
      'scatterer:', not ignored)

# 3. a RigidCluster with FIXED rotation/translation and one unrelated prior:
#    the fixed rotation/translation are dropped as well
base3 = Spheres([Sphere(n=prior.Uniform(1.4, 1.7, 1.5), r=.3, center=(0, 0, 0)),
                 Sphere(n=1.6, r=.4, center=(1, 0, 0)),
                 Sphere(n=1.7, r=.2, center=(0, 2, 0))], warn=False)
model3 = ExactModel(RigidCluster(base3, rotation=rot, translation=tr))
built3 = model3.scatterer_from_parameters({'0:n': 1.5})
err3 = np.abs(centers(built3) - expected).max()
print('fixed rotation/translation, model-built max |centre error|:', err3)

bad = err > 1e-9 or ignored or err3 > 1e-9
print('VIOLATION' if bad else 'ok')
sys.exit(1 if bad else 0)
