"""Euler angles of a Spheroid: the geometry described by Spheroid.indicators
(rotation_matrix applied in the lab frame, the same frame in which centres are
given) and the geometry for which Tmatrix computes the field disagree by a
mirror in z: Tmatrix passes beta unchanged to a solver whose z axis is the
propagation direction, which is -z of the lab frame."""
import sys, os; sys.path.insert(0, os.getcwd())
import warnings
import numpy as np
warnings.simplefilter('ignore')
import holopy as hp
from holopy.scattering import Sphere, Spheres, Spheroid, calc_holo, Tmatrix, Mie
from holopy.core.math import rotation_matrix

print('holopy from', hp.__file__)
det = hp.detector_grid(50, .2)
kw = dict(medium_index=1.33, illum_wavelen=.66, illum_polarization=(1, 0))
c = np.array([5., 5., 7.])
a, cc = 0.15, 0.6      # semi-axes of a thin, weakly scattering prolate spheroid


def chain(axis, n=9):
    # string of small spheres along `axis` through c, radii following the
    # spheroid profile; fields superposed with Mie (single scattering)
    ts = (np.arange(n) + .5) / n * 2 * cc - cc
    return Spheres([Sphere(n=1.36, r=a * np.sqrt(1 - (t / cc)**2),
                           center=c + t * axis) for t in ts], warn=False)


bad = 0
for rot in [(0, np.pi / 3, 0), (0, np.pi / 4, np.pi / 2), (0.4, 1.0, 2.0),
            (0, 2.2, 5.0)]:
    sp = Spheroid(n=1.36, r=(a, cc), rotation=rot, center=c)
    axis = rotation_matrix(*rot) @ np.array([0, 0, 1.])
    mirrored = axis * np.array([1, 1, -1])
    # the scatterer's own indicator function places the long axis along `axis`
    tip, mtip = c + 0.9 * cc * axis, c + 0.9 * cc * mirrored
    ind = sp.in_domain(np.array([tip, mtip]).reshape(1, 1, 2, 3)).ravel()
    ht = calc_holo(det, sp, theory=Tmatrix(), **kw).values.ravel() - 1
    h_nom = calc_holo(det, chain(axis), theory=Mie(), **kw).values.ravel() - 1
    h_mir = calc_holo(det, chain(mirrored), theory=Mie(), **kw).values.ravel() - 1
    c_nom = np.corrcoef(ht, h_nom)[0, 1]
    c_mir = np.corrcoef(ht, h_mir)[0, 1]
    print('rotation', np.round(rot, 3), 'long axis (rotation_matrix)',
          np.round(axis, 3))
    print('   indicator contains tip along axis / along z-mirrored axis:',
          bool(ind[0]), bool(ind[1]))
    print('   corr(Tmatrix hologram, spheres along axis)           = %.4f'
          % c_nom)
    print('   corr(Tmatrix hologram, spheres along z-mirrored axis) = %.4f'
          % c_mir)
    if ind[0] and not ind[1] and c_mir > c_nom + 0.02:
        bad += 1
print('VIOLATION in %d of 4 orientations' % bad if bad else 'ok')
sys.exit(1 if bad else 0)
