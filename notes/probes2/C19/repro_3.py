"""Tmatrix with a negative (or > 2*pi / > pi) Euler angle: the Fortran routine
executes STOP and the whole Python interpreter terminates silently with exit
status 0.  rotation_matrix / Spheroid.indicators accept the same angles."""
import sys, os; sys.path.insert(0, os.getcwd())
import subprocess, textwrap
import numpy as np
from holopy.core.math import rotation_matrix

child = textwrap.dedent('''
    import sys, os; sys.path.insert(0, os.getcwd())
    import warnings; warnings.simplefilter('ignore')
    import numpy as np, holopy as hp
    from holopy.scattering import Spheroid, calc_holo, Tmatrix
    det = hp.detector_grid(6, .2)
    rot = eval(sys.argv[1])
    s = Spheroid(n=1.36, r=(.15, .6), rotation=rot, center=(1, 1, 7))
    # the scatterer itself is fine with these angles
    s.in_domain(np.zeros((1, 1, 1, 3)))
    print('before calc_holo', flush=True)
    h = calc_holo(det, s, theory=Tmatrix(), medium_index=1.33,
                  illum_wavelen=.66, illum_polarization=(1, 0))
    print('after calc_holo, std = %.3e' % float(h.values.std()), flush=True)
''')
bad = 0
# pairs of angle triples giving the SAME rotation matrix
for ok, neg in [((0, 1.0, 2 * np.pi - 1.0), (0, 1.0, -1.0)),
                ((np.pi, 1.0, 1.0 + np.pi), (0, -1.0, 1.0)),
                ((0, 1.0, 1.0), (0, 1.0, 1.0 + 2 * np.pi))]:
    same = np.allclose(rotation_matrix(*ok), rotation_matrix(*neg))
    for rot in (ok, neg):
        p = subprocess.run([sys.executable, '-c', child, repr(tuple(float(r) for r in rot))],
                           capture_output=True, text=True)
        finished = 'after calc_holo' in p.stdout
        print('rotation', np.round(rot, 3), '| same matrix as partner:', same,
              '| exit status', p.returncode, '| finished:', finished,
              '| stdout:', p.stdout.strip().replace('\n', ' / '),
              '| stderr:', p.stderr.strip()[-80:])
        if not finished and p.returncode == 0:
            bad += 1
print('VIOLATION: interpreter silently terminated %d times' % bad if bad else 'ok')
sys.exit(1 if bad else 0)
