"""A single point given as three scalars converts between Cartesian and
spherical (and spherical<->cylindrical, cylindrical->spherical) but not between
Cartesian and cylindrical: np.full(rho.size, z) turns the scalar z into a
length-1 array next to 0-d rho and phi."""
import sys, os; sys.path.insert(0, os.getcwd())
import itertools
import numpy as np
from holopy.core.math import find_transformation_function as F

pt = {'cartesian': [1.0, 0.5, 3.0], 'spherical': [2.0, 0.7, 0.3],
      'cylindrical': [1.5, 0.3, 3.0]}
bad = 0
for a, b in itertools.permutations(pt, 2):
    try:
        out = F(a, b)(pt[a])
        ok = out.shape == (3,) and out.dtype == float
        print('%-11s -> %-11s' % (a, b), out, '' if ok else '<-- wrong shape/dtype')
        bad += not ok
    except Exception as e:
        print('%-11s -> %-11s' % (a, b), 'RAISES', type(e).__name__, str(e)[:70])
        bad += 1
print('VIOLATION: %d of 6 conversions fail for a scalar point' % bad if bad else 'ok')
sys.exit(1 if bad else 0)
