"""The azimuth is normalised to [0, 2*pi] only by the two conversions that
start from Cartesian coordinates.  spherical<->cylindrical (and the identity
'conversion') hand the caller's azimuth through, so the result is outside
[0, 2*pi] and differs by 2*pi from the same conversion composed through
Cartesian coordinates.  Downstream, such an azimuth reaches the Tmatrix
Fortran code, which STOPs the interpreter for phi < 0."""
import sys, os; sys.path.insert(0, os.getcwd())
import numpy as np
from holopy.core.math import find_transformation_function as F

bad = 0
cyl = np.array([[1.0, 2.0], [-np.pi / 2, 7.0], [0.5, -1.0]])
direct = F('cylindrical', 'spherical')(cyl)
via = F('cartesian', 'spherical')(F('cylindrical', 'cartesian')(cyl))
print('cyl->sph direct azimuth :', direct[2])
print('cyl->cart->sph azimuth  :', via[2])
bad += not ((direct[2] >= 0) & (direct[2] <= 2 * np.pi)).all()
sph = np.array([[1.0, 2.0], [0.4, 2.0], [-np.pi / 2, 7.0]])
direct = F('spherical', 'cylindrical')(sph)
via = F('cartesian', 'cylindrical')(F('spherical', 'cartesian')(sph))
print('sph->cyl direct azimuth :', direct[1])
print('sph->cart->cyl azimuth  :', via[1])
bad += not ((direct[1] >= 0) & (direct[1] <= 2 * np.pi)).all()
print('VIOLATION: azimuth outside [0, 2*pi] returned' if bad else 'ok')
sys.exit(1 if bad else 0)
