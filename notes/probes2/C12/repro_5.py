"""C12 repro 5 (low confidence, no documented oracle): LimitOverlaps compares the
largest pair overlap with the diameter of the smallest sphere of the WHOLE
cluster, even when that sphere is not part of any overlapping pair.  A cluster
whose only overlap is 5% of the diameter of the two spheres involved passes
LimitOverlaps(0.1); adding a far-away, non-overlapping small sphere makes the
same configuration "violate the constraint" (lnprior -> -inf).
Run from the checkout root.  Exit 1 when the behaviour is present.
"""
import sys, os; sys.path.insert(0, os.getcwd())
import warnings; warnings.filterwarnings('ignore')
import numpy as np
from holopy.scattering import Sphere, Spheres
from holopy.inference import prior, AlphaModel, LimitOverlaps

def cluster(extra):
    sph = [Sphere(n=1.5, r=prior.Uniform(.5, 1.5), center=(0, 0, 10)),
           Sphere(n=1.5, r=1., center=(1.9, 0, 10))] + extra
    return Spheres(sph, warn=False)

m2 = AlphaModel(cluster([]), constraints=LimitOverlaps(.1))
m3 = AlphaModel(cluster([Sphere(n=1.5, r=.05, center=(30, 30, 10))]),
                constraints=LimitOverlaps(.1))
a, b = m2.lnprior([1.]), m3.lnprior([1.])
print('two r=1 spheres overlapping by 0.1 (5% of their diameter), fraction=0.1: lnprior =', a)
print('same + non-overlapping r=0.05 sphere 40 units away:               lnprior =', b)
bad = np.isfinite(a) and not np.isfinite(b)
print('BEHAVIOUR PRESENT' if bad else 'ok')
sys.exit(1 if bad else 0)
