"""C12 repro 4: the default `constraints=[]` list is shared by all models.

Model.__init__(..., constraints=[]) stores ensure_listlike(constraints), i.e.
the default list object itself.  Adding a constraint to one model's
`constraints` list changes the log-prior of every other model (existing or
created later) that was built with the default.
Run from the checkout root.  Exit 1 when the violation is present.
"""
import sys, os; sys.path.insert(0, os.getcwd())
import warnings; warnings.filterwarnings('ignore')
import numpy as np
from holopy.scattering import Sphere, Spheres
from holopy.inference import prior, AlphaModel, ExactModel, LimitOverlaps

cl = Spheres([Sphere(n=1.5, r=prior.Uniform(.1, 1), center=(0, 0, 5)),
              Sphere(n=1.5, r=.3, center=(0, 0, 6))], warn=False)
m1 = AlphaModel(cl)
m2 = AlphaModel(cl)
before = m2.lnprior([.9])
m1.constraints.append(LimitOverlaps(.1))       # only m1 is touched
after = m2.lnprior([.9])
m3 = AlphaModel(cl)
print('m2.lnprior before:', before, ' after adding a constraint to m1:', after)
print('constraints of a brand-new model:', m3.constraints)
bad = before != after or len(m3.constraints) > 0
m1.constraints.clear()
print('VIOLATION' if bad else 'ok')
sys.exit(1 if bad else 0)
