"""C12 repro 1: pixel subsetting of data that is already a flattened subset.

make_subset_data (and therefore Model.lnposterior(..., pixels=k) and
LnpostWrapper(model, data, new_pixels=k)) on a flattened subset does not return
k pixels: it returns an array of the ORIGINAL length in which the unselected
pixels are NaN, so the log-posterior is NaN although lnprior and the likelihood
of any k-pixel subset are finite.
Run from the checkout root.  Exit 1 when the violation is present.
"""
import sys, os; sys.path.insert(0, os.getcwd())
import warnings; warnings.filterwarnings('ignore')
import numpy as np
from holopy.scattering import Sphere, calc_holo
from holopy.core.metadata import (detector_grid, update_metadata,
                                  copy_metadata, make_subset_data)
from holopy.core.utils import LnpostWrapper
from holopy.inference import prior, AlphaModel

rng = np.random.default_rng(0)
det = update_metadata(detector_grid((6, 7), .1), 1.33, .66, (1, 0), .05)
truth = Sphere(n=1.5, r=.3, center=(.3, .2, 4))
holo = calc_holo(det, truth, scaling=.8)
data = copy_metadata(det, holo + rng.normal(0, .05, holo.shape))

sub = make_subset_data(data, pixels=20, seed=1)      # legitimate flattened subset
subsub = make_subset_data(sub, pixels=5, seed=2)     # ask for 5 of those 20
print('requested 5 pixels of a 20-pixel subset -> size', subsub.size,
      ', NaN entries:', int(np.isnan(subsub.values).sum()))

model = AlphaModel(Sphere(n=prior.Uniform(1.4, 1.7), r=.3, center=(.3, .2, 4)),
                   alpha=.8)
pars = [1.5]
lnprior = model.lnprior(pars)
full = model.lnposterior(pars, sub)
np.random.seed(3)
part = model.lnposterior(pars, sub, pixels=5)
wrapped = LnpostWrapper(model, sub, new_pixels=5).evaluate(pars)
print('lnprior', lnprior, '| lnposterior on the 20-pixel subset', full)
print('lnposterior(pars, subset, pixels=5) =', part)
print('LnpostWrapper(model, subset, new_pixels=5).evaluate =', wrapped)

# oracle: 5 randomly chosen pixels of the subset, done by hand
sel = np.random.RandomState(3).choice(20, 5, replace=False)
hand = sub.isel(flat=sel)
hand.attrs = sub.attrs
expected = model.lnposterior(pars, hand)
print('expected (same kind of 5-pixel subset built by hand):', expected)

bad = (subsub.size != 5 or np.isnan(subsub.values).any()
       or not np.isfinite(part) or not np.isfinite(wrapped))
print('VIOLATION' if bad else 'ok')
sys.exit(1 if bad else 0)
