"""C12 repro 3: a NaN parameter value gets the in-support prior density.

Uniform.lnprob / Uniform.prob test `p < lower or p > upper`; both comparisons
are False for NaN, so NaN is treated as being inside the support.  Model.lnprior
is then finite, the hologram IS computed (the short-circuit of _lnposterior is
not taken) and, with the Mie code, lnposterior even comes back as a finite
number.  (Gaussian/BoundedGaussian give nan / nan for the same input.)
Run from the checkout root.  Exit 1 when the violation is present.
"""
import sys, os; sys.path.insert(0, os.getcwd())
import warnings; warnings.filterwarnings('ignore')
import numpy as np
from holopy.scattering import Sphere, calc_holo
from holopy.core.metadata import detector_grid, update_metadata, copy_metadata
from holopy.inference import prior, ExactModel

u = prior.Uniform(0, 1)
print('Uniform(0,1).lnprob(nan) =', u.lnprob(np.nan), ' prob(nan) =', u.prob(np.nan))
print('BoundedGaussian(.5,.1,0,1).lnprob(nan) =', prior.BoundedGaussian(.5, .1, 0, 1).lnprob(np.nan))

det = update_metadata(detector_grid((4, 4), .1), 1.33, .66, (1, 0), .05)
data = copy_metadata(det, det + 1.)
calls = [0]


def counting(detector, scatterer, **kw):
    calls[0] += 1
    return calc_holo(detector, scatterer, **kw)


# Mie(False, False): far-field form, avoids pages of Fortran diagnostics
from holopy.scattering import Mie
model = ExactModel(Sphere(n=1.5, r=.3, center=(prior.Uniform(0, 1), .2, 4)),
                   counting, theory=Mie(False, False))
lp = model.lnprior([np.nan])
lpost = model.lnposterior([np.nan], data)
print('lnprior([nan]) =', lp, '| lnposterior([nan]) =', lpost,
      '| hologram computations:', calls[0])
bad = np.isfinite(lp) or calls[0] > 0
print('VIOLATION' if bad else 'ok')
sys.exit(1 if bad else 0)
