"""C12 repro 2: ExactModel's custom calculation function is not part of the
model's serialised state / equality.

ExactModel(scatterer, calc_func=f) keeps f only as an instance attribute;
Model._iteritems (used by yaml dumping, repr and ==) does not list it and
Model.from_yaml rebuilds the model with cls(**kwargs) without it.  After
hp.save / hp.load (the same yaml path FitResult uses to store its model) the
model silently computes its forward hologram - and hence lnlike/lnposterior -
with the default calc_holo instead of f.  Two ExactModels that differ only in
calc_func also compare equal.
Run from the checkout root.  Exit 1 when the violation is present.
"""
import sys, os; sys.path.insert(0, os.getcwd())
import warnings; warnings.filterwarnings('ignore')
import tempfile
import numpy as np
import yaml
import holopy as hp
from holopy.scattering import Sphere, calc_holo
from holopy.core.metadata import detector_grid, update_metadata, copy_metadata
from holopy.inference import prior, ExactModel


def half_holo(detector, scatterer, **kw):
    # a module level (hence yaml/pickle-able) custom forward function
    return 0.5 * calc_holo(detector, scatterer, **kw)


det = update_metadata(detector_grid((6, 7), .1), 1.33, .66, (1, 0), .05)
data = copy_metadata(det, 0.5 * calc_holo(det, Sphere(n=1.5, r=.3, center=(.3, .2, 4))))
s = Sphere(n=prior.Uniform(1.4, 1.7), r=.3, center=(.3, .2, prior.Uniform(1, 10)))
model = ExactModel(s, half_holo)
default = ExactModel(s, calc_holo)
pars = [1.5, 4.]

before = model.lnposterior(pars, data)
path = os.path.join(tempfile.mkdtemp(), 'model.yaml')
hp.save(path, model)
loaded = hp.load(path)
after = loaded.lnposterior(pars, data)
after2 = yaml.load(yaml.dump(model), Loader=yaml.FullLoader).lnposterior(pars, data)

print('calc_func in repr(model):', 'half_holo' in repr(model))
print('model == ExactModel(same scatterer, calc_holo):', model == default)
print('lnposterior before save :', before)
print('lnposterior after load  :', after, '(yaml.dump/load:', after2, ')')
print('lnposterior of the default-calc_holo model:', default.lnposterior(pars, data))
print('loaded.calc_func is calc_holo:', loaded.calc_func is calc_holo)
fwd_same = np.allclose(model.forward(pars, data), loaded.forward(pars, data))
print('forward holograms agree after round trip:', fwd_same)
bad = (not np.isclose(before, after)) or (model == default) or not fwd_same
print('VIOLATION' if bad else 'ok')
sys.exit(1 if bad else 0)
