"""C07 repro 1: make_subset_data applied to an already sub-sampled (flat) image.

Expected: a subset of `pixels` distinct pixels of the input, with their values and
coordinates, and `original_dims` still describing the axes of the original image.
Observed: the result has as many entries as the *input* subset, all the pixels that
were not selected are NaN, and `original_dims` is overwritten by {'flat': ...}.
Downstream: Model.lnposterior(..., pixels=N) on subset data is NaN, and
NmpfitStrategy(npixels=N).fit on subset data silently returns the initial guess.
"""
import sys, os; sys.path.insert(0, os.getcwd())
import warnings; warnings.filterwarnings('ignore')
import numpy as np
np.NaN = np.nan   # sandbox numpy 2 workaround for nmpfit, not related to the defect
import holopy
from holopy.core.metadata import detector_grid, make_subset_data

print('holopy from', holopy.__file__)
img = detector_grid((5, 7), (0.1, 0.23), name='img')
img.values[:] = np.arange(1, 36).reshape(1, 5, 7)

first = make_subset_data(img, pixels=20, seed=1)
second, sel = make_subset_data(first, pixels=5, seed=2, return_selection=True)

bad = False
print('first subset : size', first.size, ' original_dims keys', sorted(first.original_dims))
print('second subset: size', second.size, '(asked for 5)  original_dims keys',
      sorted(second.original_dims))
print('second values:', second.values)
print('values that were selected:', first.values[sel])
if second.size != 5:
    print('VIOLATION: subset of 5 pixels has', second.size, 'entries')
    bad = True
if np.isnan(second.values).any():
    print('VIOLATION: %d NaN values in the subset' % np.isnan(second.values).sum())
    bad = True
if sorted(second.original_dims) != sorted(first.original_dims):
    print('VIOLATION: original axes forgotten:', sorted(second.original_dims))
    bad = True

# downstream consequence (silent): likelihood on a subset of a subset
from holopy.scattering import calc_holo, Sphere
from holopy.inference import AlphaModel, prior, NmpfitStrategy
sph = Sphere(n=1.59, r=0.5, center=(2.0, 2.0, 7))
holo = calc_holo(detector_grid(40, 0.1), sph, 1.33, 0.66, (1, 0), scaling=0.8)
sub = make_subset_data(holo, pixels=400, seed=1)
par_sph = Sphere(n=1.59, r=prior.Uniform(0.3, 0.7, guess=0.52),
                 center=(2.0, 2.0, prior.Uniform(5, 9, guess=7.2)))
model = AlphaModel(par_sph, alpha=prior.Uniform(0.5, 1, guess=0.8), noise_sd=0.05)
pars = {'r': 0.5, 'center.2': 7, 'alpha': 0.8}
lp_full = model.lnposterior(pars, holo, pixels=100)
lp_sub = model.lnposterior(pars, sub, pixels=100)
print('lnposterior(pixels=100) on full image:', lp_full, ' on 400-pixel subset:', lp_sub)
if not np.isfinite(lp_sub):
    print('VIOLATION: lnposterior on a subset of a subset is', lp_sub)
    bad = True
fit_full = NmpfitStrategy(npixels=100, seed=3).fit(model, holo).parameters
fit_sub = NmpfitStrategy(npixels=100, seed=3).fit(model, sub).parameters
print('nmpfit(npixels=100) on full image :', fit_full)
print('nmpfit(npixels=100) on 400 subset :', fit_sub, '(= initial guess, no error raised)')
if abs(fit_sub['r'] - 0.5) > 1e-3:
    bad = True
sys.exit(1 if bad else 0)
