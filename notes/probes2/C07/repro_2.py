"""C07 repro 2: calc_scat_matrix on explicit detector points drops the x, y, z
coordinates of the points (grid and subset results keep them; calc_field /
calc_holo / calc_intensity on the same points keep them).
"""
import sys, os; sys.path.insert(0, os.getcwd())
import warnings; warnings.filterwarnings('ignore')
import numpy as np
import holopy
from holopy.core.metadata import detector_grid, detector_points, make_subset_data, flat
from holopy.scattering import calc_scat_matrix, calc_field, Sphere, Mie

print('holopy from', holopy.__file__)
sph = Sphere(n=1.59, r=0.5, center=(2.1, 1.3, 7))
grid = detector_grid((3, 4), (0.3, 0.2))
f = flat(grid)
pts = detector_points(x=f.x.values, y=f.y.values, z=f.z.values)
sub = make_subset_data(grid, pixels=5, seed=1)

m_grid = calc_scat_matrix(grid, sph, 1.33, 0.66, theory=Mie)
m_sub = calc_scat_matrix(sub, sph, 1.33, 0.66, theory=Mie)
m_pts = calc_scat_matrix(pts, sph, 1.33, 0.66, theory=Mie)
f_pts = calc_field(pts, sph, 1.33, 0.66, (1, 0), theory=Mie)
print('grid   result coords:', list(m_grid.coords))
print('subset result coords:', list(m_sub.coords))
print('points result coords:', list(m_pts.coords))
print('calc_field on the same points:', list(f_pts.coords))
print('values agree with the grid:',
      np.abs(flat(m_grid).transpose('flat', ...).values - m_pts.values).max())
missing = [k for k in 'xyz' if k not in m_pts.coords]
if missing:
    print('VIOLATION: scattering matrix at explicit points lost coordinates', missing)
    sys.exit(1)
sys.exit(0)
