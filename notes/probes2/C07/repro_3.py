"""C07 repro 3: subimage() pairs the entries of `center` / `shape` with x and y by
position, although it documents `center` as having one entry per dimension of the
array and accepts (and itself builds) a `shape` with one entry per dimension.
For a HoloPy image (dims z, x, y) a per-dimension center or shape therefore crops
the wrong axes and silently returns an empty / wrongly sized image.  A window that
crosses the low edge wraps around (negative slice start) and is returned empty.
"""
import sys, os; sys.path.insert(0, os.getcwd())
import warnings; warnings.filterwarnings('ignore')
import numpy as np
import holopy
from holopy.core.metadata import detector_grid
from holopy.core.process import subimage

print('holopy from', holopy.__file__)
img = detector_grid((12, 15), (0.3, 0.2))
img.values[:] = np.arange(12 * 15).reshape(1, 12, 15)
print('image dims', img.dims, 'shape', img.shape)
ref = subimage(img, (6, 7), (4, 6))
print('reference  center=(6,7) shape=(4,6)       ->', dict(ref.sizes))
bad = False
a = subimage(img, (0, 6, 7), (1, 4, 6))     # one entry per dimension, as documented
print('per-dim    center=(0,6,7) shape=(1,4,6)   ->', dict(a.sizes))
b = subimage(img, (6, 7), (1, 4, 6))        # shape of length arr.ndim passes the assert
print('per-dim    center=(6,7) shape=(1,4,6)     ->', dict(b.sizes))
c = subimage(img, (0, 6, 7), 4)
print('per-dim    center=(0,6,7) shape=4         ->', dict(c.sizes))
for r in (a, b):
    if dict(r.sizes) != dict(ref.sizes):
        bad = True
if dict(c.sizes) != {'z': 1, 'x': 4, 'y': 4}:
    bad = True
d = subimage(img, (1, 7), 4)                # window crosses the low edge
print('low edge   center=(1,7) shape=4           ->', dict(d.sizes), '(no error)')
if d.sizes['x'] == 0:
    bad = True
if bad:
    print('VIOLATION: crop silently returned an empty / wrongly sized region')
sys.exit(1 if bad else 0)
