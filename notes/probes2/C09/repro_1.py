"""C09 repro 1: Multisphere near/finite-distance fields (mieangfuncs.tmatrix_fields) use
S3 and S4 of the cluster amplitude scattering matrix with the wrong sign.

Run from the checkout root:  /venv/bin/python /tmp/probe2_out/C09/repro_1.py
Exit code 1 when the violation is present.

Three independent observations
 (A) exact reference: a sphere displaced from the cluster centroid (the other
     member of the cluster is a negligible 'ghost' sphere) must scatter exactly
     like the single sphere (Mie).  The theta/phi components (w.r.t. the cluster
     centre) of the Multisphere field are off by several percent, and become
     exact (1e-6) when the same expansion coefficients amn are re-evaluated with
     S3, S4 negated.
 (B) within the default-theory rule: two identical weakly scattering spheres
     separated by exactly 30 radii (default = Multisphere) versus the Mie
     superposition (what is used at 30.001 radii): the transverse fields jump
     by ~10 %, although multiple scattering is ~1e-4 there.
 (C) energy conservation of an interacting non-absorbing dimer using only the
     amplitude matrix (calc_scat_matrix): integral |S.E|^2 != C_ext unless
     S3, S4 are negated.
"""
import sys, os; sys.path.insert(0, os.getcwd())
import numpy as np, warnings
warnings.simplefilter('ignore')
import holopy
from holopy.scattering import (Sphere, Spheres, Mie, Multisphere, calc_field,
                               calc_scat_matrix, calc_cross_sections)
from holopy.scattering.interface import determine_default_theory_for
from holopy.core import detector_points
from holopy.scattering.theory.mie_f import uts_scsmfo, mieangfuncs
print('holopy from', holopy.__file__)

n_med, wl = 1.33, 0.66
k = 2 * np.pi * n_med / wl
rng = np.random.default_rng(0)
bad = False


def points_on_sphere(centre, R, N=60):
    th = rng.uniform(0.1, np.pi - 0.1, N)
    ph = rng.uniform(0, 2 * np.pi, N)
    X = R * np.sin(th) * np.cos(ph)
    Y = R * np.sin(th) * np.sin(ph)
    Z = R * np.cos(th)
    # holopy: light propagates towards decreasing lab z
    det = detector_points(x=centre[0] + X, y=centre[1] + Y, z=centre[2] - Z)
    rhat = np.array([X, Y, Z]) / R
    return det, th, ph, rhat


def transverse(f, rhat):
    return f - rhat * (rhat * f).sum(0)


def vals(da):
    return da.transpose('vector', 'point').values


def reevaluate(S, theory, th, ph, R, pol, flip):
    """Evaluate the cluster expansion exactly like tmatrix_fields does
    (asmfr -> -0.5*cshift -> calc_scat_field -> fieldstocart), optionally
    negating S3 and S4."""
    amn, lmax = theory._scsmfo_setup(S, k, n_med)
    pol = np.array(pol, float) / np.linalg.norm(pol)
    out = np.zeros((3, len(th)), complex)
    for i in range(len(th)):
        sa = uts_scsmfo.asmfr(amn, lmax, th[i], ph[i], k * R)
        asm = np.roll(sa, -1).reshape(2, 2) * -0.5   # [[S2,S3],[S4,S1]]
        asm[0, 1] *= flip
        asm[1, 0] *= flip
        es = mieangfuncs.calc_scat_field(k * R, ph[i], asm, pol)
        out[:, i] = mieangfuncs.fieldstocart(es, th[i], ph[i])
    return out * np.exp(-1j * k * S.center[2])


# ---------------------------------------------------------------- (A)
print('\n(A) displaced sphere + negligible ghost sphere  vs  exact single-sphere Mie')
c0 = np.array([3., 4., 8.])
for d, R, pol in [((0.6, 0, 0), 8., (1, 0)), ((0, 0.6, 0), 8., (1, 0)),
                  ((0.4, 0.3, 0.3), 8., (0.6, -0.8)), ((0, 0, 0.6), 8., (1, 0))]:
    d = np.array(d, float)
    s = Sphere(n=1.59, r=0.3, center=c0 + d / 2)
    ghost = Sphere(n=n_med + 1e-9, r=1e-3, center=c0 - d / 2)
    S = Spheres([s, ghost])
    det, th, ph, rhat = points_on_sphere(S.center, R)
    T = Multisphere()
    f_ms = vals(calc_field(det, S, n_med, wl, pol, theory=T))
    f_mie = vals(calc_field(det, s, n_med, wl, pol, theory=Mie()))
    scale = abs(f_mie).max()
    e_lib = abs(transverse(f_ms, rhat) - transverse(f_mie, rhat)).max() / scale
    f_same = reevaluate(S, T, th, ph, R, pol, +1)
    f_flip = reevaluate(S, T, th, ph, R, pol, -1)
    e_same = abs(f_same - f_ms).max() / scale
    e_flip = abs(transverse(f_flip, rhat) - transverse(f_mie, rhat)).max() / scale
    print('  offset %-16s R=%g pol=%-11s: library vs exact %.2e | python re-evaluation == library %.1e'
          ' | with S3,S4 negated vs exact %.2e' % (d / 2, R, pol, e_lib, e_same, e_flip))
    if e_lib > 3e-3 and e_flip < e_lib / 10:
        bad = True

# ---------------------------------------------------------------- (B)
print('\n(B) two real spheres at the 30-radius boundary of the default-theory rule')
r = 0.1
for sep in [30 * r, 30.001 * r]:
    S = Spheres([Sphere(n=1.45, r=r, center=(5 - sep / 2, 5, 10)),
                 Sphere(n=1.45, r=r, center=(5 + sep / 2, 5, 10))])
    T = determine_default_theory_for(S)
    det, th, ph, rhat = points_on_sphere(S.center, 10.)
    f_def = vals(calc_field(det, S, n_med, wl, (1, 0)))
    f_mie = vals(calc_field(det, S, n_med, wl, (1, 0), theory=Mie()))
    scale = abs(f_mie).max()
    e = abs(transverse(f_def, rhat) - transverse(f_mie, rhat)).max() / scale
    msg = '  separation %.4f (%.3f radii): default theory %-11s transverse field vs Mie superposition: %.2e' % (
        sep, sep / r, type(T).__name__, e)
    if isinstance(T, Multisphere):
        f_flip = reevaluate(S, T, th, ph, 10., (1, 0), -1)
        e_flip = abs(transverse(f_flip, rhat) - transverse(f_mie, rhat)).max() / scale
        msg += ' | S3,S4 negated: %.2e' % e_flip
        if e > 1e-2 and e_flip < 1e-3:
            bad = True
    print(msg)

# ---------------------------------------------------------------- (C)
print('\n(C) energy conservation, interacting non-absorbing dimer along x, x-polarised light')
S = Spheres([Sphere(n=1.59, r=0.3, center=(-0.35, 0, 0)), Sphere(n=1.59, r=0.3, center=(0.35, 0, 0))])
T = Multisphere(eps=1e-12, niter=500)
x, w = np.polynomial.legendre.leggauss(80)
nph = 96
TH, PH = np.meshgrid(np.arccos(x), np.arange(nph) * 2 * np.pi / nph, indexing='ij')
W = np.repeat(w[:, None], nph, 1) * 2 * np.pi / nph
sm = calc_scat_matrix(detector_points(theta=TH.ravel(), phi=PH.ravel()), S, n_med, wl, theory=T).values
cs = calc_cross_sections(S, n_med, wl, (1, 0), theory=T).values
for flip in [1, -1]:
    m = sm.copy(); m[:, 0, 1] *= flip; m[:, 1, 0] *= flip
    par, perp = np.cos(PH.ravel()), np.sin(PH.ravel())        # incfield() for pol=(1,0)
    E = m[:, :, 0] * par[:, None] + m[:, :, 1] * perp[:, None]
    csca = ((abs(E) ** 2).sum(1).reshape(TH.shape) * W).sum() / k ** 2
    print('  S3,S4 %-8s: integral|S.E|^2 = %.6f   C_ext(optical theorem) = %.6f   C_sca(sum|amn|^2) = %.6f'
          % ('as is' if flip == 1 else 'negated', csca, cs[2], cs[0]))
    if flip == 1 and abs(csca - cs[2]) > 5e-4 * cs[2]:
        bad_c = True
    if flip == -1 and abs(csca - cs[2]) > 5e-5 * cs[2]:
        bad_c = False
bad = bad or bad_c

print('\nVIOLATION PRESENT' if bad else '\nno violation')
sys.exit(1 if bad else 0)
