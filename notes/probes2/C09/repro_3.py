"""C09 repro 3: inference models (ExactModel / AlphaModel, theory='auto', i.e.
no theory named) do not follow the documented default-theory rule for sphere
clusters: the rule is evaluated on a DUMMY scatterer whose parameters have all
been replaced by 0 (radii 0, centres (0,0,0)), for which
"max_separation <= 30 * max_radius" is 0 <= 0, so Multisphere is chosen for every
uniform cluster whatever the separation.  model.forward() therefore differs
from calc_holo(detector, same_scatterer) (which picks Mie superposition beyond
30 radii) and from naming the documented theory explicitly.

Run from the checkout root; exit code 1 when the violation is present.
"""
import sys, os; sys.path.insert(0, os.getcwd())
import numpy as np, warnings
np.NaN = np.nan          # sandbox numpy 2.x work-around, unrelated to the finding
warnings.simplefilter('ignore')
import holopy
from holopy.scattering import Sphere, Spheres, Mie, Multisphere, calc_holo
from holopy.scattering.interface import determine_default_theory_for
from holopy.inference import ExactModel, AlphaModel
from holopy.core import detector_grid
from holopy.core.metadata import update_metadata
print('holopy from', holopy.__file__)

det = update_metadata(detector_grid(shape=(12, 12), spacing=0.5),
                      medium_index=1.33, illum_wavelen=0.66, illum_polarization=(1, 0))
bad = False
for name, cluster in [
        ('33 radii apart ', Spheres([Sphere(n=1.59, r=0.2, center=(1, 2.5, 8)),
                                     Sphere(n=1.59, r=0.2, center=(4, 2.5, 14))])),
        ('40 radii apart ', Spheres([Sphere(n=1.59, r=0.5, center=(-7, 3, 10)),
                                     Sphere(n=1.59, r=0.5, center=(13, 3, 10))]))]:
    rule = determine_default_theory_for(cluster)
    model = ExactModel(cluster)                      # theory='auto'
    amodel = AlphaModel(cluster, alpha=1.0)
    h_model = model.forward(model.initial_guess, det)
    h_auto = calc_holo(det, cluster)
    h_rule = calc_holo(det, cluster, theory=type(rule)())
    print(name, '| documented rule / calc_holo(auto):', type(rule).__name__,
          '| ExactModel.theory:', type(model.theory).__name__,
          '| AlphaModel.theory:', type(amodel.theory).__name__)
    print('    dummy scatterer the rule was applied to: r =', model._dummy_scatterer.r,
          ' centres =', model._dummy_scatterer.centers.tolist())
    print('    max|model.forward - calc_holo(auto)| = %.3e ; max|calc_holo(auto) - calc_holo(rule theory)| = %.1e'
          ' ; hologram contrast %.3f' % (float(abs(h_model - h_auto).max()), float(abs(h_auto - h_rule).max()),
                                         float(abs(h_auto - 1).max())))
    if type(model.theory) is not type(rule) or float(abs(h_model - h_auto).max()) > 1e-6:
        bad = True
print('VIOLATION PRESENT' if bad else 'no violation')
sys.exit(1 if bad else 0)
