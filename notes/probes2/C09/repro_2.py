"""C09 repro 2: a cluster computed by Mie superposition (the DEFAULT theory for
uniform spheres farther apart than 30 radii, and for layered spheres) on a
detector given in spherical coordinates (r, theta, phi) ignores the positions
of the spheres: every sphere is treated as if it sat at the origin of the
polar coordinates (only the incident phase exp(-i k z_i) is kept), so the
interference between the spheres is lost.  The multi-sphere theory on the
same detector takes the polar coordinates about the cluster centre and agrees
with the equivalent Cartesian detector to 1e-12.  Hence the result changes
qualitatively when the separation crosses the 30-radius rule boundary, and
"theory='auto'" on polar detectors is not the Mie superposition that the same
call returns on Cartesian detectors.

Run from the checkout root; exit code 1 when the violation is present.
"""
import sys, os; sys.path.insert(0, os.getcwd())
import numpy as np, warnings
warnings.simplefilter('ignore')
import holopy
from holopy.scattering import Sphere, Spheres, Mie, Multisphere, calc_field
from holopy.scattering.interface import determine_default_theory_for
from holopy.core import detector_points
print('holopy from', holopy.__file__)

n_med, wl, pol = 1.33, 0.66, (1, 0)
th = np.linspace(0.05, 1.0, 6)
ph = np.linspace(0, 5, 6)
R = 500.
r = 0.2
bad = False
for sep in [29.9 * r, 30.1 * r]:
    S = Spheres([Sphere(n=1.59, r=r, center=(-sep / 2, 0, 0)), Sphere(n=1.59, r=r, center=(sep / 2, 0, 0))])
    c = S.center
    T = determine_default_theory_for(S)
    det_polar = detector_points(theta=th, phi=ph, r=R)
    # the same points in Cartesian coordinates (polar coordinates about the cluster centre,
    # theta measured from the propagation direction, which is -z in the lab frame)
    det_cart = detector_points(x=c[0] + R * np.sin(th) * np.cos(ph), y=c[1] + R * np.sin(th) * np.sin(ph),
                               z=c[2] - R * np.cos(th))
    f_polar = calc_field(det_polar, S, n_med, wl, pol).transpose('vector', 'point').values
    f_cart = calc_field(det_cart, S, n_med, wl, pol).transpose('vector', 'point').values
    one = calc_field(det_polar, S.scatterers[0], n_med, wl, pol, theory=Mie()).transpose('vector', 'point').values
    rel = abs(f_polar - f_cart).max() / abs(f_cart).max()
    print('separation %.2f radii, default theory %s' % (sep / r, type(T).__name__))
    print('   |Ex| polar detector    :', np.round(abs(f_polar[0]) * 1e4, 3))
    print('   |Ex| same points, x/y/z:', np.round(abs(f_cart[0]) * 1e4, 3))
    print('   2*|Ex| of ONE sphere   :', np.round(2 * abs(one[0]) * 1e4, 3))
    print('   relative difference polar vs Cartesian detector: %.2e' % rel)
    if rel > 1e-2:
        bad = True
print('VIOLATION PRESENT' if bad else 'no violation')
sys.exit(1 if bad else 0)
