"""C16 / finding 7 (minor): load_average without refimg returns an image whose NAME is the
name of whichever file happened to be first (for a directory: glob order), and whose
noise_sd is a DataArray that also carries that file name; mean and noise values themselves
are order independent."""
import sys, os; sys.path.insert(0, os.getcwd())
import tempfile, warnings, itertools
import numpy as np
from PIL import Image
from holopy.core.io import load_average
warnings.simplefilter('ignore')
rng = np.random.default_rng(0)
with tempfile.TemporaryDirectory() as d:
    fns = []
    for i in range(3):
        fn = os.path.join(d, 'bg%d.tif' % i); fns.append(fn)
        Image.fromarray((rng.random((4, 5)) * 200 + 20).astype('uint8')).save(fn)
    res = [load_average(list(p), spacing=0.1) for p in itertools.permutations(fns)]
names = sorted({r.name for r in res}); nnames = sorted({r.noise_sd.name for r in res})
print('max spread of mean', max(float(abs(r - res[0]).max()) for r in res),
      'spread of noise_sd', max(abs(float(r.noise_sd) - float(res[0].noise_sd)) for r in res))
print('names of the averaged image over the 6 file orders:', names, '; noise_sd.name:', nnames)
bad = len(names) > 1
print('VIOLATION (name depends on file order)' if bad else 'ok')
sys.exit(1 if bad else 0)
