"""C16 / finding 6: copy_metadata(old, data, do_coords=True) is meant to find, for every
coordinate of `old`, the coordinate of `data` with the same values and rename it.  The
`raise` sits inside the search loop, so only the FIRST coordinate of `data` is ever
compared: the call fails ('does not appear to have a corresponding coordinate') although
a corresponding coordinate exists; with a coordinate-less `data` it returns None."""
import sys, os; sys.path.insert(0, os.getcwd())
import warnings
import numpy as np, xarray as xr
from holopy.core.metadata import data_grid, copy_metadata
warnings.simplefilter('ignore')
old = data_grid(np.zeros((5, 7)), spacing=(0.1, 0.25), name='old', medium_index=1.33)
new = xr.DataArray(np.ones((1, 5, 7)), dims=['a', 'b', 'c'],
                   coords={'a': old.z.values, 'b': old.x.values, 'c': old.y.values})
bad = False
try:
    out = copy_metadata(old, new)
    print('renamed dims:', out.dims)
    bad = out.dims != ('z', 'x', 'y')
except ValueError as e:
    print('ValueError:', str(e).split('<xarray')[0])
    bad = True
print('VIOLATION' if bad else 'ok')
sys.exit(1 if bad else 0)
