"""C16 / finding 2: hp.save(<tif>, stack) with the default ('auto') scaling on an image
with more than one z-slice writes only slice 0 but scales with the min/max of the whole
stack; hp.load then stretches slice 0 to that global range -> values wrong by far more
than the 8-bit quantum, silently."""
import sys, os; sys.path.insert(0, os.getcwd())
import tempfile, warnings
import numpy as np
import holopy as hp
from holopy.core.metadata import data_grid
warnings.simplefilter('ignore')
rng = np.random.default_rng(0)
a = np.empty((2, 5, 7))
a[0] = 0.2 + 0.2 * rng.random((5, 7))     # slice 0 in [0.2, 0.4]
a[1] = rng.random((5, 7)); a[1, 0, 0] = 0.; a[1, 0, 1] = 1.   # slice 1 in [0, 1]
im = data_grid(a, spacing=0.1, z=[0., 1.], name='stack', medium_index=1.33,
               illum_wavelen=0.66, illum_polarization=(1, 0))
with tempfile.TemporaryDirectory() as d:
    fn = os.path.join(d, 'stack.tif')
    hp.save(fn, im)
    new = hp.load(fn)
quantum = (a.max() - a.min()) / 255
err = np.abs(new.values[0] - a[0]).max()
print('saved shape', im.shape, 'loaded shape', new.shape)
print('slice 0 range saved   [%.3f, %.3f]' % (a[0].min(), a[0].max()))
print('slice 0 range loaded  [%.3f, %.3f]' % (float(new.min()), float(new.max())))
print('max error %.4f = %.1f quanta' % (err, err / quantum))
bad = err > 1.01 * quantum
print('VIOLATION' if bad else 'ok')
sys.exit(1 if bad else 0)
