"""C16 / finding 5 (low severity): TIFF round trip of a 3-channel image whose illumination
labels are not red/green/blue silently renames the image's illumination coordinate to
red/green/blue, while the per-channel metadata written in the same file keeps the old
labels -> the reloaded image is internally inconsistent."""
import sys, os; sys.path.insert(0, os.getcwd())
import tempfile, warnings
import numpy as np
import holopy as hp
from holopy.core.metadata import data_grid
warnings.simplefilter('ignore')
im = data_grid(np.random.default_rng(0).random((5, 7, 3)), spacing=0.1, name='mc',
               extra_dims={'illumination': [0, 1, 2]}, medium_index=1.33,
               illum_wavelen={0: 0.66, 1: 0.52, 2: 0.40}, illum_polarization=(1, 0))
with tempfile.TemporaryDirectory() as d:
    fn = os.path.join(d, 'mc.tif'); hp.save(fn, im); new = hp.load(fn)
print('saved  image labels', im.illumination.values.tolist(), 'wavelength labels', im.illum_wavelen.illumination.values.tolist())
print('loaded image labels', new.illumination.values.tolist(), 'wavelength labels', new.illum_wavelen.illumination.values.tolist())
bad = new.illumination.values.tolist() != new.illum_wavelen.illumination.values.tolist()
print('VIOLATION' if bad else 'ok')
sys.exit(1 if bad else 0)
