"""C16 / finding 1: a per-channel metadata array whose dimensions are not in
alphabetical order (e.g. illum_polarization with dims ('vector','illumination'))
is silently scrambled by hp.save -> hp.load (both HDF5 and TIFF)."""
import sys, os; sys.path.insert(0, os.getcwd())
import tempfile, warnings
import numpy as np, xarray as xr
import holopy as hp
from holopy.core.metadata import detector_grid, update_metadata
warnings.simplefilter('ignore')

pol = xr.DataArray([[1., 0.], [0., 1.], [0., 0.]], dims=['vector', 'illumination'],
                   coords={'vector': ['x', 'y', 'z'], 'illumination': ['red', 'green']})
im = detector_grid((6, 7), 0.1, extra_dims={'illumination': ['red', 'green']}, name='im')
im = update_metadata(im, medium_index=1.33, illum_wavelen={'red': 0.66, 'green': 0.52},
                     illum_polarization=pol)
im.values[:] = np.random.default_rng(0).random(im.shape)
bad = False
with tempfile.TemporaryDirectory() as d:
    for ext in ('.h5', '.tif'):
        fn = os.path.join(d, 'im' + ext)
        hp.save(fn, im)
        new = hp.load(fn)
        for ch in ('red', 'green'):
            a = im.illum_polarization.sel(illumination=ch).values
            b = new.illum_polarization.sel(illumination=ch).values
            print(ext, ch, 'saved polarization', a, '-> loaded', b)
            if not np.allclose(a, b):
                bad = True
print('VIOLATION' if bad else 'ok')
sys.exit(1 if bad else 0)
