"""C16 / finding 3: TIFF export of a signed-integer image whose range exceeds the
positive range of its dtype (int8 with range > 127, int16 with range > 32767) wraps
around in display_image: (im - min) is evaluated in the integer dtype."""
import sys, os; sys.path.insert(0, os.getcwd())
import tempfile, warnings
import numpy as np
import holopy as hp
from holopy.core.metadata import data_grid
from holopy.core.io.vis import display_image
warnings.simplefilter('ignore')
bad = False
for arr in (np.array([[-100, -50, 0], [50, 99, 27]], dtype='int8'),
            np.array([[-30000, -5, 0], [50, 30000, 27]], dtype='int16')):
    im = data_grid(arr, spacing=0.1, name='signed', medium_index=1.33)
    print(arr.dtype, 'display_image ->', display_image(im).values[0].round(3).tolist())
    with tempfile.TemporaryDirectory() as d:
        fn = os.path.join(d, 's.tif')
        hp.save(fn, im)
        new = hp.load(fn)
    quantum = (float(arr.max()) - float(arr.min())) / 255
    err = np.abs(new.values[0] - arr.astype(float)).max()
    print('   saved', arr.tolist()); print('   loaded', new.values[0].round(1).tolist())
    print('   max error = %.1f quanta' % (err / quantum))
    bad |= err > 1.01 * quantum
print('VIOLATION' if bad else 'ok')
sys.exit(1 if bad else 0)
