"""C16 / finding 4: load_image(..., channel=[2, 0], illum_wavelen=<DataArray labelled by
illumination>) throws the labels away and re-labels the values positionally with the
channel order, so red's wavelength ends up labelled 'blue'.  The equivalent dictionary
input is handled correctly."""
import sys, os; sys.path.insert(0, os.getcwd())
import tempfile, warnings
import numpy as np, xarray as xr
from PIL import Image
import holopy as hp
warnings.simplefilter('ignore')
rgb = (np.random.default_rng(0).random((5, 7, 3)) * 255).astype('uint8')
wl = xr.DataArray([0.66, 0.40], dims='illumination', coords={'illumination': ['red', 'blue']})
pol = xr.DataArray([[1., 0., 0.], [0., 1., 0.]], dims=['illumination', 'vector'],
                   coords={'vector': ['x', 'y', 'z'], 'illumination': ['red', 'blue']})
nsd = xr.DataArray([0.1, 0.2], dims='illumination', coords={'illumination': ['red', 'blue']})
with tempfile.TemporaryDirectory() as d:
    fn = os.path.join(d, 'c.png'); Image.fromarray(rgb).save(fn)
    im_da = hp.load_image(fn, spacing=0.1, channel=[2, 0], illum_wavelen=wl,
                          illum_polarization=pol, noise_sd=nsd)
    im_dict = hp.load_image(fn, spacing=0.1, channel=[2, 0], illum_wavelen={'red': 0.66, 'blue': 0.40})
print('channels loaded:', im_da.illumination.values)
got = {str(k): float(im_da.illum_wavelen.sel(illumination=k)) for k in ('red', 'blue')}
ref = {str(k): float(im_dict.illum_wavelen.sel(illumination=k)) for k in ('red', 'blue')}
print('given     red=0.66 blue=0.40')
print('DataArray input ->', got)
print('dict input      ->', ref)
print('polarization given red=x, blue=y; stored red =', im_da.illum_polarization.sel(illumination='red').values)
print('noise_sd given red=0.1, blue=0.2; stored red =', float(im_da.noise_sd.sel(illumination='red')), '(passed through, labels kept)')
bad = got != {'red': 0.66, 'blue': 0.40} or im_da.illum_polarization.sel(illumination='red').values[0] != 1
print('VIOLATION' if bad else 'ok')
sys.exit(1 if bad else 0)
