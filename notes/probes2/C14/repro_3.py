"""`**` (and non-arithmetic ufuncs) combined with unsupported operand types do
not raise: a TransformedPrior is returned and the error only surfaces later, in
.guess / .sample (or inside a fit)."""
import sys, os; sys.path.insert(0, os.getcwd())
import numpy as np
from holopy.core.prior import Uniform, Prior

u = Uniform(1, 3)
cases = {
    "u + 'a'": lambda: u + 'a',
    "u * None": lambda: u * None,
    "u ** 'a'": lambda: u ** 'a',
    "u ** None": lambda: u ** None,
    "'a' ** u": lambda: 'a' ** u,
    "u ** [1, 2]": lambda: u ** [1, 2],
    "np.power(u, None)": lambda: np.power(u, None),
    "np.maximum(u, 'abc')": lambda: np.maximum(u, 'abc'),
}
violations = 0
for label, f in cases.items():
    try:
        r = f()
    except TypeError as e:
        print('%-22s raises TypeError (ok): %s' % (label, e))
        continue
    later = ''
    try:
        r.guess
    except Exception as e:
        later = ' ... .guess later raises %s: %s' % (type(e).__name__, e)
    print('%-22s DOES NOT RAISE -> %s%s' % (label, type(r).__name__, later))
    violations += 1
sys.exit(1 if violations else 0)
