"""A NumPy extended-precision scalar on the LEFT of a prior recurses forever
(RecursionError) in Prior.__array_ufunc__, while the same scalar on the right
works."""
import sys, os; sys.path.insert(0, os.getcwd())
import numpy as np
from holopy.core.prior import Uniform

u = Uniform(1, 3)
print('u * np.longdouble(2) guess:', (u * np.longdouble(2)).guess)
bad = 0
for label, f in [('np.longdouble(2) * u', lambda: np.longdouble(2) * u),
                 ('np.longdouble(0) + u', lambda: np.longdouble(0) + u),
                 ('np.clongdouble(2) + u', lambda: np.clongdouble(2) + u)]:
    try:
        print(label, '->', f().guess)
    except RecursionError:
        print(label, '-> RecursionError')
        bad += 1
sys.exit(1 if bad else 0)
