"""LeastSquaresScipyStrategy silently ignores every prior density (and Uniform bounds):
in scipyfit.py the prior z-score is computed and then thrown away
(`np.append(residuals, zscore_prior)` is not in-place, its result is discarded)."""
import sys, os; sys.path.insert(0, os.getcwd())
import warnings; warnings.simplefilter('ignore')
import numpy as np
import holopy as hp
from holopy.core.prior import Gaussian, Uniform
from holopy.scattering import Sphere, calc_holo
from holopy.inference import AlphaModel, LeastSquaresScipyStrategy
from scipy.optimize import minimize_scalar

det = hp.detector_grid(shape=16, spacing=0.2)
kw = dict(medium_index=1.33, illum_wavelen=0.66, illum_polarization=(1, 0))
sph = Sphere(n=1.59, r=0.5, center=(1.6, 1.6, 10.0))
noise = 0.05
np.random.seed(0)
data = calc_holo(det, sph, scaling=1.0, **kw)          # true alpha = 1
data = data + noise * np.random.randn(*data.shape)


def optimum(f):
    return minimize_scalar(lambda a: -f(a), bounds=(0.3, 1.5),
                           method='bounded', options={'xatol': 1e-10}).x

m0 = AlphaModel(sph, alpha=Uniform(0.3, 1.5), noise_sd=noise, **kw)
a_ml = optimum(lambda a: m0.lnlike([a], data))
h = 1e-3
curv = -(m0.lnlike([a_ml + h], data) - 2 * m0.lnlike([a_ml], data)
         + m0.lnlike([a_ml - h], data)) / h**2
sd_like = 1 / np.sqrt(curv)

# prior as informative as the data, centred at 0.7 -> MAP must be ~ halfway
ap = Gaussian(0.7, sd_like)
m = AlphaModel(sph, alpha=ap, noise_sd=noise, **kw)
a_map = optimum(lambda a: m.lnposterior([a], data))
fit = LeastSquaresScipyStrategy().fit(m, data).parameters['alpha']
print('maximum likelihood (no prior) alpha :', a_ml)
print('true MAP of model.lnposterior       :', a_map)
print('LeastSquaresScipyStrategy result    :', fit)
bad1 = abs(fit - a_ml) < 1e-4 and abs(fit - a_map) > 0.05

# Uniform prior whose support excludes the likelihood maximum
mu = AlphaModel(sph, alpha=Uniform(0.3, 0.9), noise_sd=noise, **kw)
fit_u = LeastSquaresScipyStrategy().fit(mu, data).parameters['alpha']
print('Uniform(0.3, 0.9) prior, fitted alpha:', fit_u,
      ' lnprior there:', mu.lnprior([fit_u]))
bad2 = fit_u > 0.9

if bad1 or bad2:
    print('VIOLATION: prior ignored by LeastSquaresScipyStrategy')
    sys.exit(1)
sys.exit(0)
