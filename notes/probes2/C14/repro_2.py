"""NmpfitStrategy gives priors half their weight: prior residual is
sqrt(lnp(guess) - lnp(x)) instead of sqrt(2 * (lnp(guess) - lnp(x)))
(data residuals r_i enter the objective as sum r_i^2 = -2 lnL + const)."""
import sys, os; sys.path.insert(0, os.getcwd())
import warnings; warnings.simplefilter('ignore')
import numpy as np
np.NaN = np.nan   # sandbox: numpy 2 lacks np.NaN used by nmpfit
import holopy as hp
from holopy.core.prior import Gaussian, Uniform
from holopy.scattering import Sphere, calc_holo
from holopy.inference import AlphaModel, NmpfitStrategy
from scipy.optimize import minimize_scalar

det = hp.detector_grid(shape=16, spacing=0.2)
kw = dict(medium_index=1.33, illum_wavelen=0.66, illum_polarization=(1, 0))
sph = Sphere(n=1.59, r=0.5, center=(1.6, 1.6, 10.0))
noise = 0.05
np.random.seed(0)
data = calc_holo(det, sph, scaling=1.0, **kw)
data = data + noise * np.random.randn(*data.shape)


def optimum(f):
    return minimize_scalar(lambda a: -f(a), bounds=(0.3, 1.5),
                           method='bounded', options={'xatol': 1e-10}).x

m0 = AlphaModel(sph, alpha=Uniform(0.3, 1.5), noise_sd=noise, **kw)
a_ml = optimum(lambda a: m0.lnlike([a], data))
h = 1e-3
curv = -(m0.lnlike([a_ml + h], data) - 2 * m0.lnlike([a_ml], data)
         + m0.lnlike([a_ml - h], data)) / h**2
ap = Gaussian(0.7, 1 / np.sqrt(curv))
m = AlphaModel(sph, alpha=ap, noise_sd=noise, **kw)
a_map = optimum(lambda a: m.lnposterior([a], data))
a_half = optimum(lambda a: m.lnlike([a], data) + 0.5 * ap.lnprob(a))
fit = NmpfitStrategy().fit(m, data).parameters['alpha']
print('no prior (ML)                          :', a_ml)
print('true MAP, argmax lnlike + lnprior      :', a_map)
print('argmax lnlike + 0.5*lnprior            :', a_half)
print('NmpfitStrategy result                  :', fit)
if abs(fit - a_half) < 1e-4 and abs(fit - a_map) > 0.02:
    print('VIOLATION: NmpfitStrategy weights the prior by 1/2')
    sys.exit(1)
sys.exit(0)
