"""E3: F77 / F90 scanner -- program units, CALL graph, function references,
process-terminating statements (STOP / ERROR STOP / CALL EXIT / CALL ABORT),
COMMON / SAVE inventory.  Not a Fortran front end: it handles the constructs
the repository's files use; statements it cannot classify are counted."""
import os
import re

TERMINATORS = re.compile(r'^(ERROR\s*STOP|STOP)\b|^CALL\s+(EXIT|ABORT)\b', re.I)
UNIT_RE = re.compile(
    r'^(?:(?:RECURSIVE|PURE|ELEMENTAL)\s+)*'
    r'(?:(?:INTEGER|REAL|DOUBLE\s*PRECISION|COMPLEX|LOGICAL|CHARACTER)'
    r'(?:\s*\*\s*\d+|\s*\([^)]*\))?\s+)?'
    r'(SUBROUTINE|FUNCTION|PROGRAM|ENTRY|MODULE|BLOCK\s*DATA)\s+([A-Za-z_]\w*)',
    re.I)
END_RE = re.compile(r'^END\s*(SUBROUTINE|FUNCTION|PROGRAM|MODULE|BLOCK\s*DATA)?'
                    r'(\s+\w+)?\s*$', re.I)
CALL_RE = re.compile(r'\bCALL\s+([A-Za-z_]\w*)', re.I)
IDENT_CALL_RE = re.compile(r'\b([A-Za-z_]\w*)\s*\(')
IF_RE = re.compile(r'^IF\s*\(', re.I)


class Stmt:
    __slots__ = ('text', 'line', 'label')

    def __init__(self, text, line, label=None):
        self.text, self.line, self.label = text, line, label


def strip_inline_comment(s):
    out = []
    q = None
    for ch in s:
        if q:
            out.append(ch)
            if ch == q:
                q = None
        elif ch in '\'"':
            q = ch
            out.append(ch)
        elif ch == '!':
            break
        else:
            out.append(ch)
    return ''.join(out)


def statements(path, src=None):
    """Logical statements of a fixed- (.f, .for) or free-form (.f90) file."""
    if src is None:
        with open(path, errors='replace') as f:
            src = f.read()
    free = path.lower().endswith(('.f90', '.f95'))
    out = []
    cur = None
    for i, raw in enumerate(src.splitlines(), 1):
        line = raw.rstrip('\n').expandtabs(8)
        if free:
            s = strip_inline_comment(line).strip()
            if not s:
                continue
            if cur is not None:
                if s.startswith('&'):
                    s = s[1:].lstrip()
                cur.text += ' ' + s.rstrip('&').rstrip()
                if not s.endswith('&'):
                    out.append(cur)
                    cur = None
                continue
            st = Stmt(s.rstrip('&').rstrip(), i)
            if s.endswith('&'):
                cur = st
            else:
                out.append(st)
        else:
            if not line.strip():
                continue
            if line[0] in 'Cc*!dD':
                continue
            body = strip_inline_comment(line[:72] if len(line) > 72 else line)
            if not body.strip():
                continue
            if len(body) > 5 and body[5] not in ' 0' and body[:5].strip() == '':
                if out:
                    out[-1].text += ' ' + body[6:].strip()
                continue
            label = body[:5].strip() or None
            out.append(Stmt(body[6:].strip() if len(body) > 6 else '', i, label))
    if cur is not None:
        out.append(cur)
    # split ';'-separated free-form statements
    res = []
    for st in out:
        if free and ';' in st.text and "'" not in st.text:
            for part in st.text.split(';'):
                if part.strip():
                    res.append(Stmt(part.strip(), st.line, st.label))
        else:
            res.append(st)
    return res


class Unit:
    def __init__(self, name, kind, path, line):
        self.name = name.upper()
        self.kind = kind
        self.path = path
        self.line = line
        self.calls = set()
        self.idents = set()
        self.stops = []        # (line, guard_text, stmt_text)
        self.commons = []
        self.saves = []
        self.call_sites = []   # (line, callee, tuple of enclosing block-IF guards, logical-IF guard or None)
        self.persistent = []   # (line, text): declarations giving a local the SAVE attribute
        self.stmts = []        # (line, text) of every statement of the unit
        self.entries = []
        self.nstmts = 0
        self.header = ''       # text of the SUBROUTINE / FUNCTION statement
        self.labels = {}       # statement index in stmts -> numeric label


def guard_of(text):
    """For 'IF (cond) STOP' return cond; None if not a logical IF."""
    m = IF_RE.match(text)
    if not m:
        return None, text
    depth = 0
    for j, ch in enumerate(text[m.end() - 1:], m.end() - 1):
        if ch == '(':
            depth += 1
        elif ch == ')':
            depth -= 1
            if depth == 0:
                return text[m.end():j], text[j + 1:].strip()
    return None, text


def norm(s):
    return re.sub(r'\s+', '', s).upper()


def scan_file(path, relpath=None, src=None):
    units = []
    cur = None
    block_ifs = []     # stack of guard texts of open block IFs in the unit
    for st in statements(path, src):
        t = st.text.strip()
        if not t:
            continue
        m = UNIT_RE.match(t)
        if m and not re.match(r'^END\b', t, re.I):
            kind = m.group(1).upper().replace(' ', '')
            if kind == 'ENTRY' and cur is not None:
                cur.entries.append(m.group(2).upper())
                continue
            if kind == 'MODULE' and re.match(r'^MODULE\s+PROCEDURE', t, re.I):
                continue
            if kind != 'MODULE':
                cur = Unit(m.group(2), kind, relpath or path, st.line)
                cur.header = t
                units.append(cur)
                block_ifs = []
                continue
            continue
        if cur is None:
            continue
        if END_RE.match(t) and not re.match(r'^END\s*(IF|DO|SELECT|WHERE|TYPE|INTERFACE)',
                                            t, re.I):
            if re.match(r'^END\s*MODULE', t, re.I):
                continue
            cur = None if not re.match(r'^END\s*$', t, re.I) or True else cur
            continue
        cur.nstmts += 1
        if st.label:
            cur.labels[len(cur.stmts)] = st.label
        cur.stmts.append((st.line, t))
        up = t.upper()
        if re.match(r'^COMMON\b', up):
            cur.commons.append(norm(t))
        if re.match(r'^SAVE\b', up):
            cur.saves.append(norm(t))
        # block IF bookkeeping (for the guard of a STOP inside IF ... THEN)
        if IF_RE.match(t) and up.rstrip().endswith('THEN'):
            g, _ = guard_of(t)
            block_ifs.append(norm(g or '?'))
        elif re.match(r'^ELSE\s*IF\b', up):
            g, _ = guard_of(t[t.upper().index('IF'):])
            if block_ifs:
                block_ifs[-1] = 'ELSEIF:' + norm(g or '?')
        elif re.match(r'^ELSE\b', up):
            if block_ifs:
                block_ifs[-1] = 'ELSE-OF:' + block_ifs[-1]
        elif re.match(r'^END\s*IF\b', up):
            if block_ifs:
                block_ifs.pop()
        g, rest = guard_of(t) if IF_RE.match(t) else (None, t)
        body = rest if g is not None else t
        if TERMINATORS.match(body.strip()):
            guards = list(block_ifs) + ([norm(g)] if g is not None else [])
            cur.stops.append((st.line, '&&'.join(guards) or 'unconditional',
                              norm(body)))
        for c in CALL_RE.findall(t):
            cur.calls.add(c.upper())
            cur.call_sites.append((st.line, c.upper(), tuple(block_ifs),
                                   norm(g) if g is not None else None))
        # locals that keep their value between calls: SAVE attribute / statement,
        # DATA, or an initialiser in a type declaration (implies SAVE)
        if re.match(r'^(SAVE|DATA)\b', up) or (
                '::' in t and (re.search(r',\s*SAVE\b', up.split('::')[0]) or (
                    '=' in t.split('::', 1)[1] and
                    not re.search(r'\bPARAMETER\b', up.split('::')[0])))):
            cur.persistent.append((st.line, norm(t)))
        for c in IDENT_CALL_RE.findall(t):
            cur.idents.add(c.upper())
    return units


class FortranProgram:
    def __init__(self, root, relfiles, overrides=None):
        self.units = {}
        self.files = []
        overrides = overrides or {}
        for rel in relfiles:
            path = os.path.join(root, rel)
            if not os.path.exists(path) and rel not in overrides:
                raise FileNotFoundError(path)
            for u in scan_file(path, rel, overrides.get(rel)):
                self.units.setdefault(u.name, u)
                for e in u.entries:
                    self.units.setdefault(e, u)
            self.files.append(rel)
        self.functions = {n for n, u in self.units.items() if u.kind == 'FUNCTION'}

    def callees(self, u):
        out = set(c for c in u.calls if c in self.units)
        out |= {i for i in u.idents if i in self.functions and i != u.name}
        return out

    def reachable(self, entry):
        entry = entry.upper()
        if entry not in self.units:
            return None
        seen = {}
        todo = [(entry, (entry,))]
        while todo:
            n, path = todo.pop()
            if n in seen:
                continue
            seen[n] = path
            for c in sorted(self.callees(self.units[n])):
                if c not in seen:
                    todo.append((c, path + (c,)))
        return seen

    def unresolved_calls(self, names):
        out = set()
        for n in names:
            for c in self.units[n].calls:
                if c not in self.units:
                    out.add(c)
        return out


# ----------------------------------------------------------------------
def f2py_signatures(path):
    """{ROUTINE: [python positional argument names, upper case]} for the
    subroutines of one Fortran source, by f2py's rules for the constructs these
    files use: intent(out) dummies are results; an integer dummy that dimensions
    another dummy becomes optional and moves behind the required arguments."""
    raw = open(path, errors='replace').read().splitlines()
    fixed = path.lower().endswith(('.for', '.f'))
    # logical lines with the f2py directives kept
    lines = []
    for ln in raw:
        if fixed:
            if ln[:1] in ('c', 'C', '*', '!'):
                m = re.match(r'^[cC*!]f2py\s+(.*)$', ln)
                if m:
                    lines.append('!F2PY ' + m.group(1))
                continue
            if len(ln) > 5 and ln[5] not in (' ', '0') and ln[:5].strip() == '' and lines:
                lines[-1] += ' ' + ln[6:].split('!')[0].strip()
                continue
            lines.append(ln[6:].split('!')[0].strip() if len(ln) > 6 else '')
        else:
            t = ln.strip()
            m = re.match(r'^!f2py\s+(.*)$', t, re.I)
            if m:
                lines.append('!F2PY ' + m.group(1))
                continue
            t = t.split('!')[0].strip()
            if lines and lines[-1].endswith('&'):
                lines[-1] = lines[-1][:-1].rstrip() + ' ' + t.lstrip('&').strip()
            else:
                lines.append(t)
    out = {}
    cur = None
    for t in lines:
        m = re.match(r'^\s*(?:recursive\s+)?subroutine\s+(\w+)\s*\(([^)]*)\)', t, re.I)
        if m:
            cur = dict(name=m.group(1).upper(),
                       args=[a.strip().upper() for a in m.group(2).split(',') if a.strip()],
                       out=set(), ints=set(), dims=[])
            out[cur['name']] = cur
            continue
        if cur is None:
            continue
        if re.match(r'^\s*end\s*(subroutine)?\b', t, re.I) and not re.match(
                r'^\s*end\s*(if|do|select|where)', t, re.I):
            cur = None
            continue
        up = t.upper()
        if up.startswith('!F2PY'):
            m = re.match(r'!F2PY\s+INTENT\(([^)]*)\)\s*(?:::)?\s*(.*)$', up)
            if m and 'OUT' in m.group(1) and 'IN' not in m.group(1).replace('INOUT', ''):
                cur['out'].update(a.strip() for a in m.group(2).split(',') if a.strip())
            continue
        if '::' in up:
            attrs, names = up.split('::', 1)
            names_l = [re.sub(r'\(.*$', '', n).strip()
                       for n in re.split(r',(?![^(]*\))', names)]
            if re.search(r'INTENT\s*\(\s*OUT\s*\)', attrs):
                cur['out'].update(names_l)
            if re.match(r'^\s*INTEGER', attrs):
                cur['ints'].update(names_l)
            d = re.search(r'DIMENSION\s*\(([^)]*(?:\([^)]*\)[^)]*)*)\)', attrs)
            if d:
                cur['dims'].append((names_l, d.group(1)))
            for n in re.split(r',(?![^(]*\))', names):
                mm = re.match(r'\s*(\w+)\s*\((.*)\)\s*$', n)
                if mm:
                    cur['dims'].append(([mm.group(1)], mm.group(2)))
        else:
            # F77 declarations: INTEGER N / DOUBLE PRECISION X(N)
            m = re.match(r'^\s*INTEGER\b\s*(.*)$', up)
            if m:
                cur['ints'].update(re.sub(r'\(.*$', '', n).strip()
                                   for n in re.split(r',(?![^(]*\))', m.group(1)))
            for mm in re.finditer(r'(\w+)\s*\(([^()]*)\)', up):
                cur['dims'].append(([mm.group(1)], mm.group(2)))
    sigs = {}
    for name, u in out.items():
        dimvars = set()
        implicit = not any('IMPLICIT NONE' in x.upper() for x in lines)

        def is_int(tok):
            return tok in u['ints'] or (implicit and tok[:1] in 'IJKLMN')
        for names_l, expr in u['dims']:
            # only input arrays determine a size, and only an extent that is the
            # bare variable can be solved for it
            if not any(n in u['args'] and n not in u['out'] for n in names_l):
                continue
            for ext in re.split(r',(?![^(]*\))', expr):
                tok = ext.strip()
                if re.match(r'^[A-Z_]\w*$', tok) and tok in u['args'] and is_int(tok) \
                        and tok not in names_l:
                    dimvars.add(tok)
        req = [a for a in u['args'] if a not in u['out'] and a not in dimvars]
        opt = [a for a in u['args'] if a in dimvars and a not in u['out']]
        sigs[name] = req + opt
    return sigs



def persistent_names(u):
    """Names of the locals of unit `u` that keep their value between calls (None:
    all of them -- a bare SAVE statement)."""
    names = set()
    for line, t in u.persistent:
        if re.match(r'^SAVE$', t):
            return None
        if t.startswith('SAVE'):
            names |= {n for n in re.split(r'[,/]', t[4:]) if n}
        elif t.startswith('DATA'):
            # DATA a, b /.../, c /.../
            body = re.sub(r'/[^/]*/', ';', t[4:])
            for part in body.split(';'):
                for n in part.split(','):
                    n = re.sub(r'\(.*$', '', n).strip()
                    if n:
                        names.add(n)
        elif '::' in t:
            for ent in re.split(r',(?![^()]*\))', t.split('::', 1)[1]):
                n = re.sub(r'[=(].*$', '', ent).strip()
                if n:
                    names.add(n)
    return names


def written_names(u):
    """Names assigned, read into, or handed to a CALL (which may assign them) by a
    statement of the unit other than its declarations."""
    out = set()
    for line, t in u.stmts:
        up = norm(t)
        if up.startswith(('DATA', 'SAVE')) or '::' in up:
            continue
        g, rest = guard_of(t) if IF_RE.match(t) else (None, t)
        body = norm(rest if g is not None else t)
        m = re.match(r'^([A-Z_][A-Z0-9_]*)(\(.*?\))?=(?!=)', body)
        if m and not body.startswith(('DO', 'IF(')):
            out.add(m.group(1))
        m = re.match(r'^DO(\d+)?,?([A-Z_][A-Z0-9_]*)=', body)
        if m:
            out.add(m.group(2))
        m = re.match(r'^CALL[A-Z_][A-Z0-9_]*\((.*)\)$', body)
        if m:
            out |= set(re.findall(r'[A-Z_][A-Z0-9_]*', m.group(1)))
        if body.startswith('READ'):
            out |= set(re.findall(r'[A-Z_][A-Z0-9_]*', body[4:]))
    return out
