"""E3b: definite reads of never-written elements of local Fortran work arrays.

For a rank-1 local array (not a dummy argument, not in COMMON / SAVE / DATA /
EQUIVALENCE, never handed to another routine) every store `a(i) = ...` and every
read `a(j)` is located in its DO nest.  Index expressions that are affine in the
loop variables are minimised over the nest (innermost variable first, so that
bounds depending on outer variables are handled exactly).  An index below the
smallest index any statement writes is never written; a read outside every IF
whose smallest index is such an index reads whatever the stack holds.

Everything the scanner cannot classify (non-affine indices, strided loops, whole
array arguments, symbolic lower bounds) makes the array *skipped*, not reported."""
import re

TYPE_RE = re.compile(
    r'^(real|integer|complex|doubleprecision|doublecomplex|logical)'
    r'(\*\d+|\(kind=\d+\)|\(\d+\))?(.*)$')


def _squash(t):
    return re.sub(r'\s+', '', t.lower())


def _split_top(s, sep=','):
    out, depth, cur = [], 0, ''
    for ch in s:
        if ch == '(':
            depth += 1
        elif ch == ')':
            depth -= 1
        if ch == sep and depth == 0:
            out.append(cur)
            cur = ''
        else:
            cur += ch
    if cur:
        out.append(cur)
    return out


def affine(expr, params):
    """expr (squashed text) -> ({var: coef}, const) or None."""
    toks = re.findall(r'\d+|[a-z_]\w*|[-+*()]', expr)
    if ''.join(toks) != expr:
        return None
    pos = [0]

    def add(a, b, sign=1):
        va, ca = a
        vb, cb = b
        out = dict(va)
        for k, v in vb.items():
            out[k] = out.get(k, 0) + sign * v
        return {k: v for k, v in out.items() if v}, ca + sign * cb

    def atom():
        if pos[0] >= len(toks):
            raise ValueError
        t = toks[pos[0]]
        pos[0] += 1
        if t == '(':
            v = summ()
            if pos[0] >= len(toks) or toks[pos[0]] != ')':
                raise ValueError
            pos[0] += 1
            return v
        if t == '-':
            v = atom()
            return add(({}, 0), v, -1)
        if t == '+':
            return atom()
        if t.isdigit():
            return {}, int(t)
        if re.match(r'[a-z_]', t):
            if pos[0] < len(toks) and toks[pos[0]] == '(':
                raise ValueError            # function / array reference
            if t in params:
                return {}, params[t]
            return {t: 1}, 0
        raise ValueError

    def prod():
        v = atom()
        while pos[0] < len(toks) and toks[pos[0]] == '*':
            pos[0] += 1
            w = atom()
            if not v[0]:
                v = ({k: c * v[1] for k, c in w[0].items()}, v[1] * w[1])
            elif not w[0]:
                v = ({k: c * w[1] for k, c in v[0].items()}, v[1] * w[1])
            else:
                raise ValueError
        return v

    def summ():
        v = prod()
        while pos[0] < len(toks) and toks[pos[0]] in '+-':
            op = toks[pos[0]]
            pos[0] += 1
            v = add(v, prod(), 1 if op == '+' else -1)
        return v
    try:
        v = summ()
        if pos[0] != len(toks):
            return None
        return v
    except (ValueError, IndexError):
        return None


def minimise(form, nest):
    """Smallest value of the affine form over the DO nest (list of (var, lo, hi),
    outermost first; lo / hi affine forms or None).  None: not determined."""
    vars_, const = dict(form[0]), form[1]
    for var, lo, hi in reversed(nest):
        c = vars_.pop(var, 0)
        if not c:
            continue
        b = lo if c > 0 else hi
        if b is None:
            return None
        for k, v in b[0].items():
            vars_[k] = vars_.get(k, 0) + c * v
        const += c * b[1]
        vars_ = {k: v for k, v in vars_.items() if v}
    return const if not vars_ else None


def parameters(u):
    out = {}
    for _, t in u.stmts:
        s = _squash(t)
        m = re.match(r'^parameter\((.*)\)$', s)
        if not m:
            continue
        for ent in _split_top(m.group(1)):
            if '=' in ent:
                k, v = ent.split('=', 1)
                f = affine(v, out)
                if f is not None and not f[0]:
                    out[k] = f[1]
    return out


def analyse(u, extra_params=None):
    """-> (findings, analysed, skipped): findings are dicts(array, line, index,
    reached, lowest_written, declared)."""
    params = dict(extra_params or {})
    params.update(parameters(u))
    hm = re.search(r'\((.*)\)', _squash(u.header))
    dummies = set(_split_top(hm.group(1))) if hm else set()
    arrays = {}
    excluded = set()
    body = []
    for i, (line, t) in enumerate(u.stmts):
        s = _squash(t)
        kw = re.match(r'^(common|save|data|equivalence)', s)
        if kw:
            excluded |= set(re.findall(r'[a-z_]\w*', s[kw.end():]))
            continue
        if s.startswith(('cf2py', '!f2py', 'implicit', 'parameter', 'include',
                         'external', 'intrinsic', 'dimension')):
            if s.startswith('dimension'):
                excluded |= set(re.findall(r'[a-z_]\w*', s[len('dimension'):]))
            continue
        m = TYPE_RE.match(s)
        if m and not re.match(r'^[a-z_]\w*(\(.*\))?=', s):
            rest = m.group(3)
            if '::' in rest:
                attrs, rest = rest.split('::', 1)
                if 'dimension' in attrs or 'intent' in attrs or 'save' in attrs \
                        or 'parameter' in attrs or '=' in rest:
                    excluded |= set(re.findall(r'[a-z_]\w*', rest))
                    continue
            for ent in _split_top(rest):
                em = re.match(r'^([a-z_]\w*)\((.*)\)$', ent)
                if not em:
                    continue
                dims = _split_top(em.group(2))
                if len(dims) != 1 or dims[0] == '*':
                    continue
                if ':' not in dims[0]:
                    dims[0] = '1:' + dims[0]      # implicit lower bound
                lo, hi = dims[0].split(':', 1)
                flo = affine(lo, params)
                if flo is None or flo[0]:
                    continue
                arrays[em.group(1)] = dict(lo=flo[1], decl=line)
            continue
        body.append((i, line, s))
    for a in list(arrays):
        if a in dummies or a in excluded:
            del arrays[a]
    if not arrays:
        return [], [], []
    # walk the body with the DO nest and IF depth
    nest = []           # (var, lo, hi, endlabel or None)
    ifdepth = 0
    writes = {a: [] for a in arrays}
    reads = {a: [] for a in arrays}
    skipped = {}

    def refs(s, a):
        """index texts of every reference a(...) in s; None if `a` appears bare"""
        out = []
        for m in re.finditer(r'(?<![a-z0-9_])%s(?![a-z0-9_])' % re.escape(a), s):
            j = m.end()
            if j >= len(s) or s[j] != '(':
                return None
            depth = 0
            for k in range(j, len(s)):
                if s[k] == '(':
                    depth += 1
                elif s[k] == ')':
                    depth -= 1
                    if depth == 0:
                        out.append((m.start(), s[j + 1:k]))
                        break
        return out
    for i, line, s in body:
        label = u.labels.get(i)
        m = re.match(r'^do(\d+)?,?([a-z_]\w*)=(.*)$', s)
        is_do = bool(m) and not re.match(r'^do\w*\(', s)
        if is_do:
            parts = _split_top(m.group(3))
            lo = affine(parts[0], params) if len(parts) in (2, 3) else None
            hi = affine(parts[1], params) if len(parts) in (2, 3) else None
            if len(parts) == 3 and parts[2] != '1':
                lo = hi = None
            # the bounds are evaluated in the enclosing nest
            nest.append((m.group(2), lo, hi, m.group(1)))
        else:
            logical_if = None
            if re.match(r'^if\(', s):
                depth = 0
                for k in range(2, len(s)):
                    if s[k] == '(':
                        depth += 1
                    elif s[k] == ')':
                        depth -= 1
                        if depth == 0:
                            break
                rest = s[k + 1:]
                if rest == 'then':
                    ifdepth += 1
                    guarded = True
                    stmt = s[:k + 1]
                else:
                    logical_if = s[:k + 1]
                    stmt = rest
            elif re.match(r'^else', s):
                stmt = s
            elif re.match(r'^end\s*if|^endif', s):
                ifdepth = max(0, ifdepth - 1)
                stmt = ''
            else:
                stmt = s
            cond_part = logical_if or (s if s.endswith('then') else '')
            in_if = ifdepth > 0 or logical_if is not None
            cur_nest = [(v, lo, hi) for v, lo, hi, _ in nest]
            for a in arrays:
                if a in skipped:
                    continue
                # conditions are read unconditionally (at the enclosing IF depth)
                for part, guarded in ((cond_part, ifdepth > (1 if s.endswith('then')
                                                            else 0)),
                                      (stmt if stmt != cond_part else '', in_if)):
                    if not part:
                        continue
                    r = refs(part, a)
                    if r is None:
                        skipped[a] = 'line %d: used without an index' % line
                        break
                    if part.startswith('call') and r:
                        skipped[a] = 'line %d: element handed to a CALL' % line
                        break
                    tm = re.match(r'^%s\(' % re.escape(a), part)
                    target = None
                    if tm:
                        first = r[0]
                        end = first[0] + len(a) + len(first[1]) + 2
                        if part[end:end + 1] == '=' and part[end:end + 2] != '==':
                            target = first
                    for ref in r:
                        rec = dict(line=line, index=ref[1], nest=cur_nest,
                                   guarded=guarded)
                        (writes if ref is target else reads)[a].append(rec)
            if re.match(r'^end\s*do|^enddo', s):
                while nest and nest[-1][3] is not None:
                    nest.pop()          # (malformed nesting: be lenient)
                if nest:
                    nest.pop()
        if label is not None and not is_do:
            # the terminal statement of every DO that names this label
            while nest and nest[-1][3] == label:
                nest.pop()
    findings = []
    analysed = []
    for a, info in arrays.items():
        if a in skipped:
            continue
        lows = []
        ok = True
        for w in writes[a]:
            f = affine(w['index'], params)
            v = minimise(f, w['nest']) if f is not None else None
            if v is None:
                ok = False
                break
            lows.append(v)
        if not ok or not lows:
            skipped[a] = 'stores with an index that is not affine in the loop ' \
                         'variables' if not ok else 'never stored by an assignment'
            continue
        lowest = min(lows)
        analysed.append(a)
        for r in reads[a]:
            if r['guarded']:
                continue
            f = affine(r['index'], params)
            v = minimise(f, r['nest']) if f is not None else None
            if v is not None and v < lowest:
                findings.append(dict(array=a, line=r['line'], index=r['index'],
                                     reached=v, lowest_written=lowest,
                                     declared=info['lo']))
    return findings, analysed, sorted(skipped.items())
