"""hpstatic -- static analysis framework for the HoloPy property checks.

Pure standard library.  Nothing in here imports or executes HoloPy code:
every fact is derived from the parse trees of the files under the repository
root (default /repo, override with HOLOPY_REPO for scratch-copy self tests).
"""
