"""Thorough tier: sensitivity battery.

For the functions a property is anchored in, a catalogue of realistic AST
mutants (one edit each) is generated and analysed *in memory* (a source
override map -- nothing is written to /repo and nothing is executed); the
property's rules are re-run on each mutant.  A catalogue of behaviour-preserving
rewrites of the same functions must stay silent.  The kill / survive / silent
counts go into the evidence.
"""
import ast
import copy
import os
import sys
from concurrent.futures import ProcessPoolExecutor

HERE = os.path.dirname(os.path.dirname(os.path.abspath(__file__)))


# ----------------------------------------------------------------------
class _Mut(ast.NodeTransformer):
    """Apply the k-th applicable edit of one operator inside target functions."""

    # name -> positional parameter names (without self) of the functions and
    # methods defined in the file, when the name is unique there
    signatures = {}

    def __init__(self, op, k, targets):
        self.op, self.k, self.targets = op, k, targets
        self.count = 0
        self.inside = 0
        self.applied = None

    def hit(self):
        self.count += 1
        return self.count - 1 == self.k

    def visit_FunctionDef(self, node):
        if self.targets is None or node.name in self.targets or self.inside:
            self.inside += 1
            self.generic_visit(node)
            self.inside -= 1
        else:
            self.generic_visit(node)
        return node

    # -- operators -------------------------------------------------------
    def visit_BinOp(self, node):
        self.generic_visit(node)
        if not self.inside:
            return node
        swaps = {ast.Add: ast.Sub, ast.Sub: ast.Add, ast.Mult: ast.Div, ast.Div: ast.Mult}
        if self.op == 'arith' and type(node.op) in swaps and self.hit():
            self.applied = 'arith %s at line %d' % (ast.unparse(node)[:50], node.lineno)
            return ast.copy_location(ast.BinOp(node.left, swaps[type(node.op)](),
                                               node.right), node)
        if self.op == 'dropterm' and isinstance(node.op, (ast.Mult, ast.Add, ast.Sub)) \
                and self.hit():
            self.applied = 'dropterm %s at line %d' % (ast.unparse(node)[:50], node.lineno)
            return node.left
        if self.op == 'commute' and isinstance(node.op, (ast.Add, ast.Mult)) and \
                not isinstance(node.left, (ast.Constant, ast.List, ast.Tuple, ast.JoinedStr)) \
                and not isinstance(node.right, (ast.Constant, ast.List, ast.Tuple,
                                                ast.JoinedStr)) and self.hit():
            self.applied = 'commute %s at line %d' % (ast.unparse(node)[:50], node.lineno)
            return ast.copy_location(ast.BinOp(node.right, node.op, node.left), node)
        if self.op == 'subasadd' and isinstance(node.op, ast.Sub) and self.hit():
            self.applied = 'a-b -> a+(-b) %s line %d' % (ast.unparse(node)[:40], node.lineno)
            return ast.copy_location(ast.BinOp(
                node.left, ast.Add(), ast.UnaryOp(ast.USub(), node.right)), node)
        return node

    def visit_Compare(self, node):
        self.generic_visit(node)
        if not self.inside or len(node.ops) != 1:
            return node
        swaps = {ast.Lt: ast.LtE, ast.LtE: ast.Lt, ast.Gt: ast.GtE, ast.GtE: ast.Gt,
                 ast.Eq: ast.NotEq, ast.NotEq: ast.Eq, ast.Is: ast.IsNot,
                 ast.IsNot: ast.Is}
        if self.op == 'cmp' and type(node.ops[0]) in swaps and self.hit():
            self.applied = 'cmp %s at line %d' % (ast.unparse(node)[:50], node.lineno)
            return ast.copy_location(ast.Compare(
                node.left, [swaps[type(node.ops[0])]()], node.comparators), node)
        if self.op == 'truthy' and isinstance(node.ops[0], ast.IsNot) and \
                isinstance(node.comparators[0], ast.Constant) and \
                node.comparators[0].value is None and self.hit():
            self.applied = 'is-not-None -> truthiness %s line %d' % (
                ast.unparse(node)[:40], node.lineno)
            return node.left
        if self.op == 'flipcmp' and type(node.ops[0]) in (ast.Lt, ast.LtE, ast.Gt, ast.GtE) \
                and self.hit():
            fl = {ast.Lt: ast.Gt, ast.LtE: ast.GtE, ast.Gt: ast.Lt, ast.GtE: ast.LtE}
            self.applied = 'a<b -> b>a %s line %d' % (ast.unparse(node)[:40], node.lineno)
            return ast.copy_location(ast.Compare(
                node.comparators[0], [fl[type(node.ops[0])]()], [node.left]), node)
        return node

    def visit_Call(self, node):
        self.generic_visit(node)
        if not self.inside:
            return node
        fn = ast.unparse(node.func)
        if self.op == 'swapargs' and len(node.args) >= 2 and not any(
                isinstance(a, ast.Starred) for a in node.args) and \
                ast.unparse(node.args[0]) != ast.unparse(node.args[1]) and self.hit():
            self.applied = 'swapargs %s at line %d' % (ast.unparse(node)[:50], node.lineno)
            new = copy.copy(node)
            new.args = [node.args[1], node.args[0]] + list(node.args[2:])
            return new
        if self.op == 'unwrap' and len(node.args) >= 1 and fn.rpartition('.')[2] in (
                'copy', 'deepcopy', 'abs', 'to_vector', 'conj', 'real', 'sqrt',
                'ensure_array', 'atleast_1d', 'from_flat', 'flat', 'ifftshift',
                'fftshift') and self.hit():
            self.applied = 'unwrap %s at line %d' % (ast.unparse(node)[:50], node.lineno)
            return node.args[0]
        if self.op == 'unwrap' and fn.rpartition('.')[2] == 'copy_metadata' and \
                len(node.args) >= 2 and self.hit():
            self.applied = 'unwrap copy_metadata at line %d' % node.lineno
            return node.args[1]
        if self.op == 'unwrapmethod' and isinstance(node.func, ast.Attribute) and \
                node.func.attr in ('copy', 'conj', 'squeeze') and not node.args \
                and self.hit():
            self.applied = 'drop .%s() at line %d' % (node.func.attr, node.lineno)
            return node.func.value
        if self.op == 'dropkw' and node.keywords and self.hit():
            self.applied = 'dropkw %s= at line %d' % (node.keywords[-1].arg, node.lineno)
            new = copy.copy(node)
            new.keywords = list(node.keywords[:-1])
            return new
        # positional <-> keyword arguments in calls of functions of the same file
        cname = None
        if isinstance(node.func, ast.Name):
            cname = node.func.id
        elif isinstance(node.func, ast.Attribute) and \
                isinstance(node.func.value, ast.Name) and node.func.value.id == 'self':
            cname = node.func.attr
        sig = self.signatures.get(cname)
        if sig is not None and not any(isinstance(a, ast.Starred) for a in node.args) \
                and not any(k.arg is None for k in node.keywords):
            if self.op == 'pos2kw' and 0 < len(node.args) <= len(sig) and self.hit():
                self.applied = 'positional -> keyword %s at line %d' % (
                    ast.unparse(node)[:40], node.lineno)
                new = copy.copy(node)
                new.args = []
                new.keywords = [ast.keyword(sig[i], a) for i, a in
                                enumerate(node.args)] + list(node.keywords)
                return new
            kws = [k.arg for k in node.keywords]
            rest = sig[len(node.args):]
            if self.op == 'kw2pos' and kws and kws == rest[:len(kws)] and self.hit():
                self.applied = 'keyword -> positional %s at line %d' % (
                    ast.unparse(node)[:40], node.lineno)
                new = copy.copy(node)
                new.args = list(node.args) + [k.value for k in node.keywords]
                new.keywords = []
                return new
        if self.op == 'npabs' and fn in ('np.abs', 'numpy.abs') and self.hit():
            self.applied = 'np.abs -> abs at line %d' % node.lineno
            new = copy.copy(node)
            new.func = ast.Name('abs', ast.Load())
            return new
        return node

    def visit_Constant(self, node):
        if not self.inside:
            return node
        if self.op == 'const' and isinstance(node.value, (int, float)) and \
                not isinstance(node.value, bool) and self.hit():
            self.applied = 'const %r at line %d' % (node.value, node.lineno)
            v = node.value
            return ast.copy_location(ast.Constant(v + 1 if v != 1 else 2), node)
        if self.op == 'index01' and node.value in (0, 1) and \
                not isinstance(node.value, bool) and self.hit():
            self.applied = 'index %r -> %r at line %d' % (node.value, 1 - node.value,
                                                          node.lineno)
            return ast.copy_location(ast.Constant(1 - node.value), node)
        return node

    def visit_UnaryOp(self, node):
        self.generic_visit(node)
        if self.inside and self.op == 'dropneg' and isinstance(node.op, ast.USub) and \
                not isinstance(node.operand, ast.Constant) and self.hit():
            self.applied = 'drop unary minus %s line %d' % (ast.unparse(node)[:40],
                                                            node.lineno)
            return node.operand
        return node

    def visit_If(self, node):
        self.generic_visit(node)
        if not self.inside:
            return node
        if self.op == 'negif' and self.hit():
            self.applied = 'negate if %s at line %d' % (ast.unparse(node.test)[:40],
                                                        node.lineno)
            new = copy.copy(node)
            new.test = ast.UnaryOp(ast.Not(), node.test)
            return new
        if self.op == 'swapif' and node.orelse and not (
                len(node.orelse) == 1 and isinstance(node.orelse[0], ast.If)) and self.hit():
            self.applied = 'if c: A else: B -> if not c: B else: A line %d' % node.lineno
            new = copy.copy(node)
            new.test = ast.UnaryOp(ast.Not(), node.test)
            new.body, new.orelse = node.orelse, node.body
            return new
        return node

    def _stmt(self, node):
        self.generic_visit(node)
        if not self.inside:
            return node
        if self.op == 'delstmt' and isinstance(node, (ast.AugAssign, ast.Expr)) or (
                self.op == 'delstmt' and isinstance(node, ast.Assign) and
                isinstance(node.targets[0], (ast.Attribute, ast.Subscript))):
            if isinstance(node, ast.Expr) and isinstance(node.value, ast.Constant):
                return node
            if self.hit():
                self.applied = 'delete %s at line %d' % (ast.unparse(node)[:50], node.lineno)
                return ast.copy_location(ast.Pass(), node)
        if self.op == 'augflip' and isinstance(node, ast.AugAssign) and \
                isinstance(node.op, (ast.Add, ast.Sub)) and self.hit():
            self.applied = 'aug %s at line %d' % (ast.unparse(node)[:50], node.lineno)
            new = copy.copy(node)
            new.op = ast.Sub() if isinstance(node.op, ast.Add) else ast.Add()
            return new
        if self.op == 'hoist' and isinstance(node, ast.Assign) and \
                len(node.targets) == 1 and isinstance(node.targets[0], ast.Name) and \
                not isinstance(node.value, (ast.Constant, ast.Name)) and self.hit():
            self.applied = 'hoist rhs of %s line %d' % (ast.unparse(node)[:40], node.lineno)
            tmp = '_hoisted_%d' % node.lineno
            a = ast.Assign([ast.Name(tmp, ast.Store())], node.value, lineno=node.lineno)
            b = ast.Assign(node.targets, ast.Name(tmp, ast.Load()), lineno=node.lineno)
            return [a, b]
        return node

    visit_AugAssign = _stmt
    visit_Expr = _stmt
    visit_Assign = _stmt


class _Rename(ast.NodeTransformer):
    def __init__(self, fname, old, new):
        self.fname, self.old, self.new = fname, old, new
        self.inside = 0

    def _rebinds(self, args):
        names = [a.arg for a in args.posonlyargs + args.args + args.kwonlyargs]
        if args.vararg:
            names.append(args.vararg.arg)
        if args.kwarg:
            names.append(args.kwarg.arg)
        return self.old in names

    def _nested(self, node):
        # a nested function / lambda with a parameter of that name has its own
        # variable: only its default expressions (evaluated in the enclosing
        # scope) see ours
        node.args.defaults = [self.visit(d) for d in node.args.defaults]
        node.args.kw_defaults = [None if d is None else self.visit(d)
                                 for d in node.args.kw_defaults]
        return node

    def visit_FunctionDef(self, node):
        if self.inside and self._rebinds(node.args):
            return self._nested(node)
        if node.name == self.fname and not self.inside:
            self.inside += 1
            self.generic_visit(node)
            self.inside -= 1
        else:
            self.generic_visit(node)
        return node

    def visit_Lambda(self, node):
        if self.inside and self._rebinds(node.args):
            return self._nested(node)
        self.generic_visit(node)
        return node

    def visit_Name(self, node):
        if self.inside and node.id == self.old:
            return ast.copy_location(ast.Name(self.new, node.ctx), node)
        return node


MUTATING = ['arith', 'dropterm', 'cmp', 'truthy', 'swapargs', 'unwrap', 'unwrapmethod',
            'dropkw', 'const', 'index01', 'dropneg', 'negif', 'delstmt', 'augflip']
BENIGN = ['commute', 'subasadd', 'flipcmp', 'swapif', 'hoist', 'npabs', 'pos2kw',
          'kw2pos']


def generate(src, targets, ops, limit_per_op=40):
    """yield (label, new_source) for each applicable single edit"""
    tree0 = ast.parse(src)
    sigs, dup = {}, set()
    for n in ast.walk(tree0):
        if isinstance(n, ast.FunctionDef) and not n.args.vararg and not n.args.kwarg \
                and not n.args.posonlyargs:
            names = [a.arg for a in n.args.args]
            if names and names[0] in ('self', 'cls'):
                names = names[1:]
            if n.name in sigs:
                dup.add(n.name)
            sigs[n.name] = names
    for d in dup:
        sigs.pop(d, None)
    _Mut.signatures = sigs
    for op in ops:
        k = 0
        while k < limit_per_op:
            tree = copy.deepcopy(tree0)
            m = _Mut(op, k, targets)
            new = m.visit(tree)
            if m.applied is None:
                break
            ast.fix_missing_locations(new)
            try:
                out = ast.unparse(new)
                compile(out, '<mutant>', 'exec')
            except Exception:
                k += 1
                continue
            yield '%s: %s' % (op, m.applied), out
            k += 1


def rename_variants(src, targets, limit=40):
    tree0 = ast.parse(src)
    n = 0
    for node in ast.walk(tree0):
        if isinstance(node, ast.FunctionDef) and (targets is None or node.name in targets):
            params = {a.arg for a in node.args.args + node.args.kwonlyargs}
            locs = []
            for x in ast.walk(node):
                if isinstance(x, ast.Name) and isinstance(x.ctx, ast.Store) and \
                        x.id not in params and x.id not in locs:
                    locs.append(x.id)
            # a local whose name also occurs inside a string constant of the
            # module (numexpr / eval expressions look names up by their text)
            # is not renamed: that edit would change behaviour
            import re as _re
            intext = set()
            for x in ast.walk(tree0):
                if isinstance(x, ast.Constant) and isinstance(x.value, str):
                    intext.update(_re.findall(r'[A-Za-z_]\w*', x.value))
            locs = [l for l in locs if l not in intext]
            for old in locs[:8]:
                if n >= limit:
                    return
                tree = copy.deepcopy(tree0)
                new = _Rename(node.name, old, old + '_renamed').visit(tree)
                ast.fix_missing_locations(new)
                try:
                    out = ast.unparse(new)
                    compile(out, '<variant>', 'exec')
                except Exception:
                    continue
                n += 1
                yield 'rename: %s -> %s_renamed in %s' % (old, old, node.name), out


# ----------------------------------------------------------------------
def _run_one(args):
    pid, relpath, label, newsrc, root = args
    sys.path.insert(0, HERE)
    sys.setrecursionlimit(20000)
    import importlib
    from hpstatic.loader import Program, AnalysisError
    from hpstatic.report import Check
    os.environ['HOLOPY_REPO'] = root
    mod = importlib.import_module('rules.' + pid.lower())
    check = Check(pid, 'thorough')
    try:
        prog = Program(root, overrides={relpath: newsrc})
        mod.run(check, prog)
    except AnalysisError as e:
        check.error(str(e))
    except RecursionError:
        check.error('recursion limit')
    except Exception as e:
        check.error('internal error: %r' % (e,))
    violated = sorted({(o['rule'], o['construct']) for o in check.obligations
                       if o['verdict'] == 'violated'})
    return label, violated, len(check.errors), check.errors[:1]


def battery(check, prog, targets, jobs=16, limit_per_op=25):
    """targets: {relpath: [function names] or None}.  Adds the kill table to the
    evidence; a benign rewrite that raises a violation is an error of the rules."""
    pid = check.pid
    base = {(o['rule'], o['construct']) for o in check.obligations
            if o['verdict'] == 'violated'}
    work = []
    for rel, fnames in sorted(targets.items()):
        m = [mm for mm in prog.modules.values() if mm.relpath == rel]
        if not m:
            check.error('mutation target %s not found' % rel)
            continue
        src = m[0].src
        for label, new in generate(src, fnames, MUTATING, limit_per_op):
            work.append(('mutant', rel, label, new))
        for label, new in generate(src, fnames, BENIGN, limit_per_op):
            work.append(('benign', rel, label, new))
        for label, new in rename_variants(src, fnames):
            work.append(('benign', rel, label, new))
    results = []
    with ProcessPoolExecutor(max_workers=jobs) as ex:
        futs = [(kind, rel, ex.submit(_run_one, (pid, rel, label, new, prog.root)))
                for kind, rel, label, new in work]
        for kind, rel, f in futs:
            label, violated, nerr, errs = f.result()
            new_v = [v for v in violated if tuple(v) not in base]
            results.append((kind, rel, label, new_v, nerr, errs))
    killed = [r for r in results if r[0] == 'mutant' and r[3]]
    errored = [r for r in results if r[0] == 'mutant' and not r[3] and r[4]]
    survived = [r for r in results if r[0] == 'mutant' and not r[3] and not r[4]]
    benign = [r for r in results if r[0] == 'benign']
    false_alarms = [r for r in benign if r[3]]
    benign_err = [r for r in benign if not r[3] and r[4]]
    check.extra['mutation_battery'] = dict(
        mutants=len(killed) + len(errored) + len(survived), killed=len(killed),
        undecided=len(errored), survived=len(survived),
        benign_variants=len(benign), benign_silent=len(benign) - len(false_alarms)
        - len(benign_err), benign_false_alarms=len(false_alarms),
        benign_undecided=len(benign_err),
        survivors=[(r[1], r[2]) for r in survived][:80],
        killed_examples=[(r[2], r[3][:2]) for r in killed][:25],
        false_alarm_examples=[(r[1], r[2], r[3][:2]) for r in false_alarms][:20],
        benign_undecided_examples=[(r[1], r[2], r[5]) for r in benign_err][:20])
    dump = os.environ.get('HPSTATIC_BATTERY_DUMP')
    if dump:
        import json
        with open(dump, 'w') as f:
            json.dump([(r[0], r[1], r[2], [list(v) for v in r[3]], r[4]) for r in results],
                      f, indent=0)
    print('  mutation battery: %d mutants: %d killed, %d undecided, %d survived; '
          '%d benign variants: %d silent, %d false alarms, %d undecided' % (
              len(killed) + len(errored) + len(survived), len(killed), len(errored),
              len(survived), len(benign),
              len(benign) - len(false_alarms) - len(benign_err), len(false_alarms),
              len(benign_err)))
    for r in false_alarms[:10]:
        check.error('behaviour-preserving rewrite raises a violation (rule too strict): '
                    '%s [%s] -> %s' % (r[2], r[1], r[3][:2]))
    return results
