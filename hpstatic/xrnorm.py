"""Normalisation of the xarray / numpy idioms the repository uses into a small
semantic vocabulary, so that a formula check does not depend on which
spelling the code uses:

  X.sum(dim=D) | X.sum(D) | np.sum(X, axis=D)      -> ('SUM', D, X)
  X.sel(vector=L) | X.sel({'vector': L})           -> ('SEL', 'vector', L, X)
  X.mean(...)                                       -> ('MEAN', D, X)
  np.abs(X)**2 | abs(X)**2 | X*np.conj(X) | (X*X.conj()) -> |X|^2 (handled by
       canonical form: conj products are rewritten to abs(X)**2)
  X.values / np.asarray(X) / np.array(X)            -> X   (same numbers)
"""
from .terms import intern, NONE


def _kw(t, key):
    for k, v in t[3]:
        if k == key:
            return v
    return None


def atom_rewrite(canon, t):
    k = t[0]
    if k == 'call':
        f = t[1]
        if isinstance(f, tuple) and f[0] == 'attr':
            recv, name = f[1], f[2]
            if name in ('sum', 'mean'):
                d = _kw(t, 'dim') or _kw(t, 'axis') or (t[2][0] if t[2] else NONE)
                return ('SUM' if name == 'sum' else 'MEAN', d, recv)
            if name == 'sel':
                kws = [(kk, v) for kk, v in t[3]]
                if len(kws) == 1 and not t[2]:
                    return ('SEL', kws[0][0], kws[0][1], recv)
                if len(t[2]) == 1 and t[2][0][0] == 'dict' and len(t[2][0][1]) == 1:
                    (kk, v), = t[2][0][1]
                    if kk[0] == 'const':
                        return ('SEL', kk[1], v, recv)
            if name in ('conj', 'conjugate') and not t[2]:
                return ('call', 'conj', (recv,), ())
        elif f in ('numpy.sum', 'numpy.mean') and t[2]:
            d = _kw(t, 'axis') or (t[2][1] if len(t[2]) > 1 else NONE)
            return ('SUM' if f.endswith('sum') else 'MEAN', d, t[2][0])
        elif f in ('numpy.asarray', 'numpy.array', 'numpy.asanyarray') and \
                len(t[2]) == 1 and not t[3]:
            return t[2][0]
    if k == 'attr' and t[2] == 'values':
        return t[1]
    return None
