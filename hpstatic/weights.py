"""E1: graded scaling weights (dimensional analysis as a type system).

Every numeric value carries the exponent with which it scales under a
multiplicative symmetry of the problem (all lengths * s; or (n, n_medium,
lambda) * t).  Weights are inferred over the terms produced by the
forward-substitution engine.  Theorem used: if the seeds are typed as declared,
every expression type-checks, and opaque callees receive only weight-0
arguments (any function of invariant inputs is invariant), then each result is
homogeneous of the computed degree -- for all inputs.

Weight values
  Fraction          every element scales with this exponent
  ANY               polymorphic: 0, inf, nan, empty (compatible with any weight)
  ('seq', (w...))   array / tuple whose leading-axis components differ
  ('T', seq)        transposed: components along axis 1
  ('dict', {k: w})
  NA                not a number (objects, strings, None, booleans)
  UNK               could not be typed (reason recorded)
"""
from fractions import Fraction

from .terms import subterms, show, is_num, NONE

ANY = 'ANY'
NA = 'NA'
UNK = 'UNK'
NZ = 'NZ'      # affine mode: a non-zero charge of unknown size (charged value * k)
ZERO = Fraction(0)

DIMLESS_ONLY = {'exp', 'sin', 'cos', 'tan', 'log', 'arctan', 'arccos', 'arcsin',
                'log10', 'sinh', 'cosh', 'tanh', 'expm1', 'log1p', 'floor', 'ceil',
                'rint', 'round', 'int', 'around', 'round_', 'trunc', 'fix'}
SAME = {'abs', 'absolute', 'real', 'imag', 'conj', 'conjugate', 'sum', 'mean', 'max',
        'min', 'ptp', 'amax', 'amin', 'nanmax', 'nanmin', 'median', 'transpose',
        'reshape', 'ravel', 'flatten', 'squeeze', 'array', 'asarray', 'atleast_1d',
        'atleast_2d', 'copy', 'repeat', 'float', 'complex', 'sort', 'unique',
        'ascontiguousarray', 'negative', 'cumsum', 'diff', 'roll', 'tile',
        'swapaxes', 'expand_dims', 'nansum', 'float64', 'complex128', 'tolist',
        'item', 'flip', 'std', 'asfortranarray', 'deepcopy', 'ensure_array',
        'ensure_scalar', 'ensure_listlike', 'list', 'tuple', 'norm', 'diagonal',
        'take', 'clip_same', 'fabs', 'nan_to_num', 'astype', 'view', 'fftshift',
        'ifftshift'}
UNIFY = {'append', 'concatenate', 'hstack', 'vstack', 'stack', 'maximum', 'minimum',
         'fmax', 'fmin', 'hypot', 'where3', 'linspace2', 'arange', 'isclose',
         'allclose', 'array_equal', 'mod', 'fmod', 'remainder', 'clip',
         'full_like2'}
ZERO_RESULT = {'isscalar', 'isnan', 'isinf', 'isfinite', 'any', 'all', 'len', 'size',
               'ndim', 'shape', 'isinstance', 'hasattr', 'callable', 'iscomplexobj',
               'isreal', 'argmax', 'argmin', 'argsort', 'nonzero', 'count_nonzero',
               'sign', 'angle', 'logical_or', 'logical_and', 'logical_not', 'bool',
               'str', 'repr', 'type', 'id', 'range', 'enumerate_idx', 'dtype',
               'searchsorted'}


def short(name):
    if not isinstance(name, str):
        return None
    return name.rpartition('.')[2]


class Weigher:
    def __init__(self, attr_seeds, sym_seeds=None, opaque_specs=None,
                 default_attr=ZERO, name='L', assume_zero_attrs=True, loops=None,
                 mode='mult'):
        self.attr_seeds = dict(attr_seeds)
        self.sym_seeds = dict(sym_seeds or {})
        self.opaque_specs = dict(opaque_specs or {})
        self.name = name
        self.memo = {}
        self.assume = {}        # loop phi assumptions: (name, lid) -> weight
        self.problems = []      # (kind, message, term)
        self.assumed = set()    # attribute names defaulted to weight 0
        self.assume_zero_attrs = assume_zero_attrs
        self.loops = loops or {}
        self.mode = mode     # 'mult': scaling exponents; 'affine': additive charges

    # -- diagnostics -----------------------------------------------------
    def conflict(self, msg, t):
        self.problems.append(('conflict', msg, t))
        return UNK

    def unknown(self, msg, t):
        self.problems.append(('unknown', msg, t))
        return UNK

    # -- lattice -----------------------------------------------------------
    def unify(self, a, b, t, what='operands'):
        if a == UNK or b == UNK:
            return UNK
        if a == ANY:
            return b
        if b == ANY:
            return a
        if a == NA and b == NA:
            return NA
        if a == NA or b == NA:
            # None / object mixed with a number (e.g. default None): take the number
            return b if a == NA else a
        if a == NZ or b == NZ:
            other = b if a == NZ else a
            if other == NZ:
                return NZ
            if other == ZERO:
                return self.conflict('%s have different %s-weights: one is shifted, the '
                                     'other is not, in %s' % (what, self.name,
                                                              show(t)[:200]), t)
            if isinstance(other, Fraction):
                return self.unknown('scaled and unscaled %s-charges meet in %s' % (
                    self.name, show(t)[:160]), t)
        if isinstance(a, Fraction) and isinstance(b, Fraction):
            if a == b:
                return a
            return self.conflict('%s have different %s-weights %s and %s in %s' % (
                what, self.name, a, b, show(t)[:200]), t)
        if isinstance(a, tuple) and isinstance(b, tuple) and a[0] == b[0] and \
                a[0] in ('seq', 'T'):
            if a[0] == 'T':
                r = self.unify(a[1], b[1], t, what)
                return ('T', r) if r != UNK else UNK
            if len(a[1]) == len(b[1]):
                items = tuple(self.unify(x, y, t, what) for x, y in zip(a[1], b[1]))
                return UNK if UNK in items else ('seq', items)
            return self.unknown('sequences of different length in %s' % show(t)[:120], t)
        if isinstance(a, tuple) and a[0] in ('seq', 'T') and (isinstance(b, Fraction)
                                                              or b == NZ):
            inner = a[1][1] if a[0] == 'T' else a[1]
            items = tuple(self.unify(x, b, t, what) for x in inner)
            if UNK in items:
                return UNK
            return ('T', ('seq', items)) if a[0] == 'T' else ('seq', items)
        if isinstance(b, tuple) and b[0] in ('seq', 'T') and (isinstance(a, Fraction)
                                                              or a == NZ):
            return self.unify(b, a, t, what)
        if isinstance(a, tuple) and a[0] == 'dict' and isinstance(b, tuple) \
                and b[0] == 'dict':
            return a
        return self.unknown('cannot unify %r with %r in %s' % (a, b, show(t)[:120]), t)

    def mapw(self, f, a):
        """apply scalar function f componentwise"""
        if a in (UNK, NA):
            return a
        if a == ANY:
            return ANY
        if a == NZ:
            return NZ
        if isinstance(a, Fraction):
            return f(a)
        if a[0] == 'seq':
            return ('seq', tuple(self.mapw(f, x) for x in a[1]))
        if a[0] == 'T':
            return ('T', self.mapw(f, a[1]))
        return UNK

    def combine(self, a, b, t, sign):
        """weights of a*b (sign=+1) or a/b (sign=-1)"""
        if a == UNK or b == UNK:
            return UNK
        if a == NA or b == NA:
            return self.unknown('arithmetic on a non-number in %s' % show(t)[:120], t)
        if a == ANY and b == ANY:
            return ANY
        if a == ANY:
            # 0 * x = 0 (ANY); 0 / x = ANY
            return ANY
        if b == ANY:
            return ANY if sign > 0 else self.unknown(
                'division by a polymorphic zero/inf in %s' % show(t)[:100], t)
        if a == NZ or b == NZ:
            other = b if a == NZ else a
            if other == ZERO:
                return NZ
            if isinstance(other, tuple):
                return self.mapw(lambda x: NZ if x == ZERO else UNK, other)
            return self.unknown('two shifted quantities, one of them rescaled, are '
                                'combined in %s: cannot tell whether the shifts '
                                'cancel' % show(t)[:160], t)
        if isinstance(a, Fraction) and isinstance(b, Fraction):
            return a + sign * b
        if isinstance(a, tuple) and isinstance(b, Fraction):
            return self.mapw(lambda x: x + sign * b, a)
        if isinstance(b, tuple) and isinstance(a, Fraction):
            return self.mapw(lambda x: a + sign * x, b)
        if isinstance(a, tuple) and isinstance(b, tuple) and a[0] == b[0] == 'seq' \
                and len(a[1]) == len(b[1]):
            return ('seq', tuple(self.combine(x, y, t, sign)
                                 for x, y in zip(a[1], b[1])))
        if isinstance(a, tuple) and isinstance(b, tuple) and a[0] == b[0] == 'T':
            r = self.combine(a[1], b[1], t, sign)
            return ('T', r) if r != UNK else UNK
        if isinstance(a, tuple) and isinstance(b, tuple) and a[0] == 'T' and \
                b[0] == 'seq' and a[1][0] == 'seq' and len(a[1][1]) == len(b[1]):
            r = self.combine(a[1], b, t, sign)
            return ('T', r) if r != UNK else UNK
        if isinstance(a, tuple) and isinstance(b, tuple) and b[0] == 'T' and \
                a[0] == 'seq' and b[1][0] == 'seq' and len(b[1][1]) == len(a[1]):
            r = self.combine(a, b[1], t, sign)
            return ('T', r) if r != UNK else UNK
        return self.unknown('cannot combine %r and %r in %s' % (a, b, show(t)[:100]), t)

    def uniform(self, a, t):
        """collapse a sequence weight to one scalar (all components equal)"""
        if isinstance(a, tuple) and a[0] in ('seq', 'T'):
            inner = a[1][1] if a[0] == 'T' else a[1]
            r = ANY
            for x in inner:
                r = self.unify(r, self.uniform(x, t), t, 'components')
            return r
        return a

    # -- main --------------------------------------------------------------
    def w(self, t):
        k = id(t)
        if k in self.memo:
            return self.memo[k]
        self.memo[k] = UNK   # cycle guard
        r = self._w(t)
        self.memo[k] = r
        return r

    def const_exponent(self, t):
        """rational value of a constant expression, or None"""
        if is_num(t):
            return t[1]
        if t[0] == 'bin' and t[1] in ('+', '-', '*', '/'):
            a, b = self.const_exponent(t[2]), self.const_exponent(t[3])
            if a is None or b is None:
                return None
            if t[1] == '+':
                return a + b
            if t[1] == '-':
                return a - b
            if t[1] == '*':
                return a * b
            return a / b if b != 0 else None
        if t[0] == 'un' and t[1] == '-':
            a = self.const_exponent(t[2])
            return None if a is None else -a
        if t[0] == 'const' and isinstance(t[1], bool):
            return Fraction(int(t[1]))
        return None

    def _w(self, t):
        k = t[0]
        if k == 'num':
            if self.mode == 'affine':
                return ZERO
            return ANY if t[1] == 0 else ZERO
        if k == 'I':
            return ZERO
        if k == 'const':
            return NA
        if k == 'sym':
            if t[1] in self.sym_seeds:
                return self.sym_seeds[t[1]]
            return self.unknown('no %s-weight declared for input %r' % (self.name, t[1]), t)
        if k in ('extref', 'global'):
            s = short(t[1])
            if s in ('pi', 'e'):
                return ZERO
            if s in ('inf', 'nan', 'NaN', 'infty'):
                return ANY
            if t[1] in self.sym_seeds:
                return self.sym_seeds[t[1]]
            return NA
        if k in ('classref', 'funcref', 'modref', 'closure', 'method', 'new', 'fstr',
                 'raise', 'exc'):
            return NA
        if k == 'attr':
            return self.w_attr(t)
        if k == 'idx':
            return self.w_idx(t)
        if k == 'bin':
            return self.w_bin(t)
        if k == 'un':
            if t[1] == 'not':
                self.w(t[2])
                return ZERO
            a = self.w(t[2])
            if self.mode == 'affine' and t[1] == '-':
                # -(x + c s) = -x - c s: the additive charge changes sign
                return self.mapw(lambda x: -x, a) if a not in (ANY, NA, UNK) else a
            return a
        if k == 'cmp':
            a, b = self.w(t[2]), self.w(t[3])
            if t[1] in ('is', 'is not', 'in', 'not in'):
                return ZERO
            if a == NA or b == NA:
                return ZERO
            ua, ub = self.uniform(a, t), self.uniform(b, t)
            r = self.unify(ua, ub, t, 'compared values')
            return UNK if r == UNK else ZERO
        if k == 'bool':
            for x in t[2]:
                self.w(x)
            return ZERO
        if k == 'ite':
            self.w(t[1])
            return self.unify(self.w(t[2]), self.w(t[3]), t, 'branches')
        if k in ('tuple', 'list', 'set'):
            items = tuple(self.w(x) for x in t[1])
            if not items:
                return ANY
            if UNK in items:
                return UNK
            if all(i == NA for i in items):
                return NA
            return ('seq', items)
        if k == 'dict':
            d = {}
            for kk, v in t[1]:
                d[kk[1] if kk[0] == 'const' else show(kk)] = self.w(v)
            return ('dict', d)
        if k == 'slice':
            return NA
        if k == 'call':
            return self.w_call(t)
        if k == 'upd':
            b = self.w(t[1])
            if t[2] == 'attr':
                return b
            v = self.w(t[4])
            if b in (NA,):
                return v
            return self.unify(self.uniform(b, t), self.uniform(v, t), t,
                              'array and the value stored into it')
        if k == 'mut':
            b = self.w(t[1])
            for a in t[3]:
                b = self.unify(self.uniform(b, t), self.uniform(self.w(a), t), t,
                               'container and appended value')
            return b
        if k == 'copy':
            return self.w(t[2])
        if k == 'star':
            return self.w(t[1])
        if k == 'elem':
            it = self.w(t[1])
            if isinstance(it, tuple) and it[0] == 'T':
                return it[1]            # a row of the transposed array
            if isinstance(it, tuple) and it[0] == 'seq':
                return self.uniform(it, t)
            return it
        if k == 'phi':
            key = (t[1], t[2])
            if key in self.assume:
                return self.assume[key]
            lp = self.loops.get(t[2])
            if lp is not None and t[1] in lp['vars'] and lp['vars'][t[1]][0] is not None:
                self.assume[key] = UNK
                r = self.w(lp['vars'][t[1]][0])
                self.assume[key] = r
                return r
            return self.unknown('recurrence variable %s outside its loop' % t[1], t)
        if k == 'loop':
            init = self.w(t[3])
            key = (t[1], t[2])
            self.assume[key] = init
            step = self.w(t[4])
            if init in (NA,) or step in (NA,):
                return step if init == NA else init
            return self.unify(init, step, t, 'loop-carried value %r before and '
                              'after one iteration' % t[1])
        if k == 'comp':
            for g in t[3]:
                self.w(g[1])
            e = self.w(t[2])
            if isinstance(e, tuple) and e[0] == 'seq' and len(set(e[1])) > 1:
                return ('T', e)       # rows with per-column weights
            return self.uniform(e, t)
        if k == 'bound':
            return self.unknown('bound variable %s' % t[1], t)
        if k in ('SUM', 'MEAN'):
            return self.w(t[2])
        if k == 'SEL':
            return self.w(t[3])
        if k == 'unk':
            return self.unknown('untyped construct %s' % (t[1],), t)
        return self.unknown('no weight rule for %s' % k, t)

    # -- attributes --------------------------------------------------------
    VIEWS = ('values', 'real', 'imag', 'data', 'flat')
    COUNTS = ('shape', 'size', 'ndim', 'dtype', 'dims', 'coords', 'attrs', 'name')

    def w_attr(self, t):
        base, name = t[1], t[2]
        if name == 'T':
            b = self.w(base)
            if isinstance(b, tuple) and b[0] == 'seq':
                return ('T', b)
            if isinstance(b, tuple) and b[0] == 'T':
                return b[1]
            return b
        if name in self.VIEWS:
            return self.w(base)
        if name in self.COUNTS:
            return ZERO if name in ('shape', 'size', 'ndim') else NA
        if name in self.attr_seeds:
            return self.attr_seeds[name]
        bw = self.w(base) if base[0] not in ('sym',) else NA
        if isinstance(bw, tuple) and bw[0] == 'dict' and name in bw[1]:
            return bw[1][name]
        if self.assume_zero_attrs:
            self.assumed.add(name)
            return ZERO
        return self.unknown('no %s-weight declared for attribute .%s' % (
            self.name, name), t)

    def w_idx(self, t):
        b = self.w(t[1])
        key = t[2]
        if b in (UNK, NA, ANY) or isinstance(b, Fraction):
            if isinstance(b, Fraction) or b == ANY:
                self.w(key) if key[0] not in ('slice', 'const', 'num', 'tuple') else None
            return b
        if b[0] == 'dict':
            if key[0] == 'const' and key[1] in b[1]:
                return b[1][key[1]]
            vals = list(b[1].values())
            r = ANY
            for v in vals:
                r = self.unify(r, v, t, 'dictionary values')
            return r
        if b[0] == 'seq':
            items = b[1]
            if is_num(key) and key[1].denominator == 1:
                i = int(key[1])
                if -len(items) <= i < len(items):
                    return items[i]
            if key[0] == 'slice' and all(x == NONE or (is_num(x) and x[1].denominator == 1)
                                         for x in key[1:]):
                sl = slice(*[None if x == NONE else int(x[1]) for x in key[1:]])
                return ('seq', tuple(items[sl]))
            if key[0] == 'tuple' and key[1]:
                first = key[1][0]
                rest = key[1][1:]
                sub = self.w_idx_w(b, first, t)
                return sub
            return self.uniform(b, t)
        if b[0] == 'T':
            seq = b[1]
            if key[0] == 'tuple' and len(key[1]) == 2:
                r0, c0 = key[1]
                sub = self.w_idx_w(seq, c0, t)
                if r0[0] == 'slice':
                    if isinstance(sub, tuple) and sub[0] == 'seq':
                        return ('T', sub)
                    return sub
                return sub
            # a row of the transposed array: all components
            return seq
        return self.unknown('cannot index weight %r' % (b,), t)

    def w_idx_w(self, seqw, key, t):
        if not (isinstance(seqw, tuple) and seqw[0] == 'seq'):
            return seqw
        items = seqw[1]
        if is_num(key) and key[1].denominator == 1:
            i = int(key[1])
            if -len(items) <= i < len(items):
                return items[i]
        if key[0] == 'slice' and all(x == NONE or (is_num(x) and x[1].denominator == 1)
                                     for x in key[1:]):
            sl = slice(*[None if x == NONE else int(x[1]) for x in key[1:]])
            return ('seq', tuple(items[sl]))
        return self.uniform(seqw, t)

    # -- arithmetic ----------------------------------------------------------
    def w_bin(self, t):
        op, a, b = t[1], self.w(t[2]), self.w(t[3])
        if self.mode == 'affine':
            return self.w_bin_affine(t, op, a, b)
        if op in ('+', '-'):
            if a == NA and b == NA:
                return NA
            return self.unify(a, b, t, 'terms of a sum')
        if op == '*':
            return self.combine(a, b, t, +1)
        if op in ('/', '//'):
            return self.combine(a, b, t, -1)
        if op == '@':
            return self.combine(self.uniform(a, t), self.uniform(b, t), t, +1)
        if op == '%':
            return self.unify(a, b, t, 'operands of %')
        if op == '**':
            e = self.const_exponent(t[3])
            if e is not None:
                return self.mapw(lambda x: x * e, a) if a not in (ANY,) else ANY
            ua = self.uniform(a, t)
            if ua in (ZERO, ANY) and self.uniform(b, t) in (ZERO, ANY):
                return ZERO
            if ua == UNK or b == UNK:
                return UNK
            return self.conflict('power with a non-constant exponent of a quantity '
                                 'of %s-weight %s: %s' % (self.name, ua, show(t)[:160]), t)
        if op in ('&', '|', '^', '<<', '>>'):
            return ZERO
        return self.unknown('operator %s' % op, t)

    def is_inv(self, a, t):
        return self.uniform(a, t) in (ZERO, ANY)

    def w_bin_affine(self, t, op, a, b):
        """additive charges: x -> x + c*shift"""
        if a == NA and b == NA:
            return NA
        if a == NA:
            a = ZERO
        if b == NA:
            b = ZERO
        if op == '+':
            return self.combine(a, b, t, +1)
        if op == '-':
            return self.combine(a, b, t, -1)
        if a == UNK or b == UNK:
            return UNK
        if self.is_inv(a, t) and self.is_inv(b, t):
            return ZERO
        if op in ('*', '/') and (self.is_inv(a, t) or self.is_inv(b, t)) and \
                not (op == '/' and self.is_inv(a, t)):
            # (x + c s) * k = x k + (c k) s: still shifted, by an amount we do not
            # track -- a definite non-zero charge (k is not identically zero)
            ch = b if self.is_inv(a, t) else a
            return self.mapw(lambda x: ZERO if x == ZERO else NZ, ch)
        if op in ('*', '/', '//', '@', '**'):
            return self.unknown('%s-charged values are multiplied / divided: %s' % (
                self.name, show(t)[:160]), t)
        if op == '%':
            if self.is_inv(b, t):
                return a       # (phi + c) mod period keeps the charge
            return self.unknown('modulus by a charged value', t)
        return self.unknown('operator %s on charged values' % op, t)

    # -- calls -----------------------------------------------------------------
    def args_dimensionless(self, t, args, what):
        ok = True
        for a in args:
            wa = self.uniform(self.w(a), t)
            if wa in (ZERO, ANY, NA):
                continue
            if wa == UNK:
                ok = False
                continue
            self.conflict('%s receives an argument of %s-weight %s: %s' % (
                what, self.name, wa, show(a)[:160]), t)
            ok = False
        return ok

    def w_call(self, t):
        f, args, kws = t[1], t[2], t[3]
        if isinstance(f, str) and f in self.opaque_specs:
            return self.opaque_specs[f](self, t)
        if isinstance(f, tuple) and f[0] == 'attr':
            recv, name = f[1], f[2]
            full = None
            if recv[0] == 'extref':
                full = recv[1] + '.' + name
                if full in self.opaque_specs:
                    return self.opaque_specs[full](self, t)
                return self.w_named(t, full, name, list(args), kws)
            # method on a value
            return self.w_named(t, None, name, [recv] + list(args), kws, method=True)
        if isinstance(f, str):
            return self.w_named(t, f, short(f), list(args), kws)
        if isinstance(f, tuple) and f[0] in ('closure', 'ite', 'call', 'idx'):
            self.args_dimensionless(t, args, 'call through %s' % show(f)[:60])
            return ZERO
        return self.unknown('call of %s' % show(f)[:80], t)

    def w_named(self, t, full, name, args, kws, method=False):
        kwvals = [v for k, v in kws]
        if self.mode == 'affine':
            if name in ('sum', 'nansum', 'cumsum', 'abs', 'absolute', 'norm', 'fabs',
                        'negative', 'conj', 'conjugate', 'imag'):
                ok = self.args_dimensionless(t, args[:1], name)
                return ZERO if ok else UNK
            if name in ('diff', 'ptp', 'std', 'var'):
                a = self.uniform(self.w(args[0]), t) if args else ZERO
                return UNK if a == UNK else ZERO
        if name in ('mean', 'max', 'min', 'sum', 'median') and args:
            a0 = self.w(args[0])
            if isinstance(a0, tuple) and a0[0] == 'T':
                ax = args[1] if len(args) > 1 else dict(kws).get('axis')
                if ax is not None and is_num(ax) and ax[1] == 0:
                    if name == 'sum' and self.mode == 'affine' and \
                            not self.is_inv(a0, t):
                        return self.unknown('sum of charged rows', t)
                    return a0[1]
        if name in SAME:
            if not args:
                return ANY
            return self.w(args[0])
        if name in ('sqrt',):
            return self.mapw(lambda x: x / 2, self.w(args[0]))
        if name == 'square':
            return self.mapw(lambda x: x * 2, self.w(args[0]))
        if name in ('power',) and len(args) == 2:
            e = self.const_exponent(args[1])
            if e is not None:
                return self.mapw(lambda x: x * e, self.w(args[0]))
        if name in DIMLESS_ONLY:
            ok = self.args_dimensionless(t, args[:1], name)
            return ZERO if ok else UNK
        if name == 'arctan2' and len(args) == 2:
            r = self.unify(self.uniform(self.w(args[0]), t),
                           self.uniform(self.w(args[1]), t), t, 'arguments of arctan2')
            return UNK if r == UNK else ZERO
        if name in ('append', 'concatenate', 'hstack', 'vstack', 'stack', 'maximum',
                    'minimum', 'hypot', 'isclose', 'allclose', 'mod', 'fmod',
                    'remainder', 'arange', 'linspace'):
            use = args[:2] if name in ('linspace', 'isclose', 'allclose') else args
            if name in ('concatenate', 'hstack', 'vstack', 'stack') and use:
                use = use[:1]
                r = self.uniform(self.w(use[0]), t)
                return r
            r = ANY
            for a in use:
                wa = self.w(a)
                if wa == NA:
                    continue
                r = self.unify(self.uniform(r, t), self.uniform(wa, t), t,
                               'arguments of ' + name)
            if name in ('isclose', 'allclose'):
                # the default atol (1e-8) is an absolute number: comparing a
                # quantity that carries a weight against it depends on the unit
                atol = dict(kws).get('atol', args[3] if len(args) > 3 else None)
                if self.mode != 'affine' and not (atol is not None and is_num(atol)
                                                   and atol[1] == 0):
                    ru = self.uniform(r, t)
                    if ru not in (ANY, NA, UNK, ZERO) and not (
                            isinstance(ru, tuple)):
                        self.conflict('%s compares a quantity of %s-weight %s with an '
                                      'absolute tolerance (atol defaults to 1e-8)'
                                      % (name, self.name, ru), t)
                return UNK if r == UNK else ZERO
            return r
        if name == 'clip' and args:
            r = self.uniform(self.w(args[0]), t)
            for a in args[1:] + kwvals:
                wa = self.w(a)
                if wa != NA:
                    r = self.unify(r, self.uniform(wa, t), t, 'clip bounds')
            return r
        if name in ('dot', 'cross', 'outer', 'multiply', 'matmul') and len(args) == 2:
            return self.combine(self.uniform(self.w(args[0]), t),
                                self.uniform(self.w(args[1]), t), t, +1)
        if name in ('divide', 'true_divide') and len(args) == 2:
            return self.combine(self.w(args[0]), self.w(args[1]), t, -1)
        if name in ('add', 'subtract') and len(args) == 2:
            return self.unify(self.w(args[0]), self.w(args[1]), t, 'terms of a sum')
        if name in ('full',) and len(args) >= 2:
            return self.w(args[1])
        if name == 'full_like' and len(args) >= 2:
            return self.w(args[1])
        if name in ('zeros', 'zeros_like', 'empty', 'empty_like'):
            return ANY
        if name in ('ones', 'ones_like', 'eye', 'identity'):
            return ZERO
        if name == 'where' and len(args) == 3:
            self.w(args[0])
            return self.unify(self.w(args[1]), self.w(args[2]), t, 'branches of where')
        if name == 'meshgrid':
            return ('seq', tuple(self.uniform(self.w(a), t) for a in args))
        if name in ZERO_RESULT or name in ('where', 'format', 'index', 'keys', 'items',
                                           'get_spacing_idx', 'startswith'):
            for a in args:
                self.w(a)
            return ZERO if name not in ('format', 'keys', 'items') else NA
        if name == 'DataArray' and args:
            return self.w(args[0])
        if name in ('sel', 'isel', 'stack', 'unstack', 'squeeze', 'transpose',
                    'reindex_like', 'rename', 'assign_coords', 'drop', 'drop_vars',
                    'to_dataset', 'expand_dims', 'sortby') and method:
            return self.w(args[0])
        if name in ('broadcast',):
            return ('seq', tuple(self.w(a) for a in args))
        if name in ('getattr',) and len(args) >= 2 and args[1][0] == 'const':
            from .terms import intern
            return self.w(intern(('attr', args[0], args[1][1])))
        if name in ('get', 'pop') and method and args:
            b = self.w(args[0])
            if isinstance(b, tuple) and b[0] == 'dict' and len(args) > 1 and \
                    args[1][0] == 'const' and args[1][1] in b[1]:
                return b[1][args[1][1]]
            return self.uniform(b, t) if not (isinstance(b, tuple) and b[0] == 'dict') \
                else self.unknown('dynamic dictionary lookup', t)
        if name in ('warn', 'print'):
            return NA
        if name == 'zip':
            return ('T', ('seq', tuple(self.uniform(self.w(a), t) for a in args)))
        if name == 'enumerate' and args:
            return ('T', ('seq', (ZERO, self.uniform(self.w(args[0]), t))))
        if name == 'reversed' and args:
            return self.w(args[0])
        # default: an opaque function -- sound only for invariant inputs
        label = full or ('method .%s' % name)
        ok = self.args_dimensionless(t, list(args) + kwvals, 'opaque callee %s' % label)
        return ZERO if ok else UNK
