"""E5 algebraic normaliser: terms -> quotients of Laurent polynomials with exact
rational coefficients over atoms.  Equality of two values = equality of the
cross-multiplied normal forms.  No search, no solver.

Rewrite rules (each an identity of the underlying structure):
  ring axioms; I*I = -1; sqrt(u)**2 = u (rational exponents on atoms and on
  non-monomial sub-polynomials); sin(u)**2 = 1 - cos(u)**2;
  exp(a)*exp(b) = exp(a+b); module-prefix erasure (np.cos == cos == math.cos).
Optional (enabled per rule): log(a*b) = log a + log b, log(a**k) = k log a,
log(exp(a)) = a.
"""
from fractions import Fraction

from .terms import T, intern, is_num, NONE

ONE = Fraction(1)
ZERO = Fraction(0)
I_ATOM = intern(('I',))

ELEMENTWISE = {'sin', 'cos', 'tan', 'exp', 'log', 'sqrt', 'abs', 'arctan2',
               'arccos', 'arcsin', 'arctan', 'conj', 'real', 'imag', 'floor',
               'ceil', 'log10', 'sinh', 'cosh', 'tanh', 'angle', 'sign',
               'isnan', 'isinf', 'isfinite', 'square', 'power', 'absolute',
               'conjugate', 'pi', 'inf', 'e'}
PREFIXES = ('numpy.', 'math.', 'cmath.', 'scipy.', 'numexpr.')


def fname(name):
    if not isinstance(name, str):
        return name
    for p in PREFIXES:
        if name.startswith(p):
            short = name[len(p):]
            if short in ELEMENTWISE:
                return {'absolute': 'abs', 'conjugate': 'conj'}.get(short, short)
    return name


class Rat:
    __slots__ = ('num', 'den')

    def __init__(self, num, den=None):
        self.num = num
        self.den = den if den is not None else {(): ONE}

    def is_const(self):
        return self.den == {(): ONE} and all(m == () for m in self.num)

    def const(self):
        return self.num.get((), ZERO)


def mono_key(m):
    return tuple((a._n, e) for a, e in m)


class Canon:
    def __init__(self, log_rules=False, atom_rewrite=None, trig=True,
                 assume_positive=True, trig_expand=False):
        self.trig_expand = trig_expand
        self.log_rules = log_rules
        self.atom_rewrite = atom_rewrite
        self.trig = trig
        self._memo = {}
        self._tmemo = {}

    # ---------------- polynomial arithmetic ---------------------------
    @staticmethod
    def padd(p, q, s=ONE):
        r = dict(p)
        for m, c in q.items():
            v = r.get(m, ZERO) + s * c
            if v == 0:
                r.pop(m, None)
            else:
                r[m] = v
        return r

    def mmul(self, m1, m2):
        """product of two monomials -> (coeff, monomial, needs_norm)"""
        if not m1:
            return m2
        if not m2:
            return m1
        d = dict(m1)
        for a, e in m2:
            v = d.get(a, ZERO) + e
            if v == 0:
                d.pop(a, None)
            else:
                d[a] = v
        return tuple(sorted(d.items(), key=lambda ae: ae[0]._n))

    def pmul(self, p, q):
        r = {}
        for m1, c1 in p.items():
            for m2, c2 in q.items():
                m = self.mmul(m1, m2)
                v = r.get(m, ZERO) + c1 * c2
                if v == 0:
                    r.pop(m, None)
                else:
                    r[m] = v
        return self.normalize(r)

    def normalize(self, p):
        """Apply I**2, polyatom integer parts, trig and exp-merging rewrites."""
        for _ in range(64):
            changed = False
            out = {}
            for m, c in p.items():
                rw = self.rewrite_mono(m)
                if rw is None:
                    v = out.get(m, ZERO) + c
                    if v == 0:
                        out.pop(m, None)
                    else:
                        out[m] = v
                else:
                    changed = True
                    for m2, c2 in rw.items():
                        v = out.get(m2, ZERO) + c * c2
                        if v == 0:
                            out.pop(m2, None)
                        else:
                            out[m2] = v
            p = out
            if not changed:
                return p
        raise ValueError('normalisation did not converge')

    def rewrite_mono(self, m):
        """None if m is normal, else an equal polynomial."""
        exps = []
        for i, (a, e) in enumerate(m):
            rest = m[:i] + m[i + 1:]
            if a is I_ATOM and (e >= 2 or e < 0) and e.denominator == 1:
                k = int(e) % 4
                coeff = {0: ONE, 1: ONE, 2: -ONE, 3: -ONE}[k]
                mm = rest if k in (0, 2) else self.mmul(rest, ((I_ATOM, ONE),))
                return {mm: coeff}
            if a[0] == 'polyatom' and (e >= 1 or e <= -1):
                ip = e.numerator // e.denominator if e > 0 else \
                    -((-e.numerator) // e.denominator)
                fp = e - ip
                base = self.rat(a[1])
                if base.den != {(): ONE}:
                    continue
                if ip > 0:
                    pw = {(): ONE}
                    for _ in range(ip):
                        pw = self._pmul_raw(pw, base.num)
                    mm = rest if fp == 0 else self.mmul(rest, ((a, fp),))
                    return self._pmul_raw(pw, {mm: ONE})
                continue
            if self.trig and a[0] == 'call' and a[1] == 'sin' and e >= 2 \
                    and e.denominator == 1:
                cosa = intern(('call', 'cos', a[2], a[3]))
                mm = rest if e == 2 else self.mmul(rest, ((a, e - 2),))
                m_cos = self.mmul(mm, ((cosa, Fraction(2)),))
                return self.padd({mm: ONE}, {m_cos: -ONE})
            if a[0] == 'call' and a[1] == 'exp':
                exps.append((i, a, e))
        if len(exps) > 1 or (exps and exps[0][2] != 1):
            total = Rat({})
            for i, a, e in exps:
                total = self.radd(total, self.rscale(self.rat(a[2][0]), e))
            rest = tuple(ae for j, ae in enumerate(m)
                         if j not in {i for i, _, _ in exps})
            if not total.num:
                return {rest: ONE}
            atom = intern(('call', 'exp', (self.to_term(total),), ()))
            return {self.mmul(rest, ((atom, ONE),)): ONE}
        if len(exps) == 1:
            # exp(0) = 1
            a = exps[0][1]
            r = self.rat(a[2][0])
            if not r.num:
                rest = tuple(ae for j, ae in enumerate(m) if j != exps[0][0])
                return {rest: ONE}
        return None

    def _pmul_raw(self, p, q):
        r = {}
        for m1, c1 in p.items():
            for m2, c2 in q.items():
                m = self.mmul(m1, m2)
                v = r.get(m, ZERO) + c1 * c2
                if v == 0:
                    r.pop(m, None)
                else:
                    r[m] = v
        return r

    # ---------------- rational arithmetic -----------------------------
    def rnorm(self, r):
        num, den = r.num, r.den
        if not num:
            return Rat({}, {(): ONE})
        if len(den) == 1:
            (m, c), = den.items()
            if m == () and c == 1:
                return r
            inv = tuple((a, -e) for a, e in m)
            num = self.normalize({self.mmul(mm, inv): cc / c
                                  for mm, cc in num.items()})
            return Rat(num, {(): ONE})
        return r

    def radd(self, a, b, s=ONE):
        if a.den == b.den:
            return self.rnorm(Rat(self.padd(a.num, b.num, s), a.den))
        num = self.padd(self.pmul(a.num, b.den), self.pmul(b.num, a.den), s)
        return self.rnorm(Rat(num, self.pmul(a.den, b.den)))

    def rmul(self, a, b):
        return self.rnorm(Rat(self.pmul(a.num, b.num), self.pmul(a.den, b.den)))

    def rdiv(self, a, b):
        if not b.num:
            raise ZeroDivisionError
        return self.rnorm(Rat(self.pmul(a.num, b.den), self.pmul(a.den, b.num)))

    def rscale(self, a, c):
        return Rat({m: v * c for m, v in a.num.items()} if c != 0 else {}, a.den)

    def rpow(self, a, e):
        """a ** e for rational constant e"""
        if e == 0:
            return self.atom_rat(None)
        if not a.num:
            return a
        if e.denominator == 1:
            n = int(e)
            base = a if n > 0 else self.rdiv(self.atom_rat(None), a)
            n = abs(n)
            if len(base.num) == 1 and base.den == {(): ONE}:
                (m, c), = base.num.items()
                return Rat(self.normalize(
                    {tuple((x, ex * n) for x, ex in m): c ** n}))
            if n > 12:
                return self.opaque_pow(a, e)
            r = self.atom_rat(None)
            for _ in range(n):
                r = self.rmul(r, base)
            return r
        # fractional exponent
        a = self.rnorm(a)
        if len(a.num) == 1 and a.den == {(): ONE}:
            (m, c), = a.num.items()
            cr = self.const_pow(c, e)
            if cr is not None:
                mono = tuple((x, ex * e) for x, ex in m)
                return Rat(self.normalize({mono: cr}))
            if c < 0:
                return self.opaque_pow(a, e)
            mono = tuple((x, ex * e) for x, ex in m)
            catom = intern(('polyatom', intern(('num', c))))
            return Rat(self.normalize({self.mmul(mono, ((catom, e),)): ONE}))
        return self.opaque_pow(a, e)

    def opaque_pow(self, a, e):
        atom = intern(('polyatom', self.to_term(a)))
        return Rat(self.normalize({((atom, e),): ONE}))

    @staticmethod
    def const_pow(c, e):
        """exact c**e for rational c>0, or None"""
        if c <= 0:
            return None

        def root(n, k):
            r = round(n ** (1.0 / k))
            for cand in (r - 1, r, r + 1):
                if cand >= 0 and cand ** k == n:
                    return cand
            return None
        k = e.denominator
        p, q = root(c.numerator, k), root(c.denominator, k)
        if p is None or q is None:
            return None
        return Fraction(p, q) ** e.numerator

    def atom_rat(self, atom):
        if atom is None:
            return Rat({(): ONE})
        return Rat({((atom, ONE),): ONE})

    # ---------------- term -> Rat -------------------------------------
    def rat(self, t):
        t = intern(t)
        key = id(t)
        hit = self._memo.get(key)
        if hit is not None:
            return hit
        r = self._rat(t)
        self._memo[key] = r
        return r

    def _rat(self, t):
        k = t[0]
        if k == 'num':
            return Rat({(): t[1]} if t[1] != 0 else {})
        if k == 'I':
            return self.atom_rat(I_ATOM)
        if k == 'const' and isinstance(t[1], bool):
            return Rat({(): ONE}) if t[1] else Rat({})
        if k == 'rat':
            return self.from_term(t)
        if k == 'bin':
            op = t[1]
            if op in ('+', '-', '*', '/'):
                a, b = self.rat(t[2]), self.rat(t[3])
                if op == '+':
                    return self.radd(a, b)
                if op == '-':
                    return self.radd(a, b, -ONE)
                if op == '*':
                    return self.rmul(a, b)
                try:
                    return self.rdiv(a, b)
                except ZeroDivisionError:
                    return self.atom_rat(self.canon_atom(t))
            if op == '**':
                b = self.rat(t[3])
                if b.is_const():
                    e = b.const()
                    if abs(e.numerator) <= 64 and e.denominator <= 64:
                        return self.rpow(self.rat(t[2]), e)
                a = self.rat(t[2])
                if a.is_const() and a.const() == 1:
                    return a
                return self.atom_rat(intern(
                    ('pow', self.to_term(a), self.to_term(b))))
            return self.atom_rat(self.canon_atom(t))
        if k == 'un':
            if t[1] == '-':
                return self.rscale(self.rat(t[2]), -ONE)
            if t[1] == '+':
                return self.rat(t[2])
            return self.atom_rat(self.canon_atom(t))
        if k == 'call':
            f = fname(t[1])
            args = t[2]
            if f == 'sqrt' and len(args) == 1:
                return self.rpow(self.rat(args[0]), Fraction(1, 2))
            if f == 'square' and len(args) == 1:
                return self.rpow(self.rat(args[0]), Fraction(2))
            if f == 'power' and len(args) == 2:
                return self._rat(intern(('bin', '**', args[0], args[1])))
            if f in ('float', 'complex', 'numpy.float64', 'numpy.complex128') \
                    and len(args) == 1 and not t[3] and args[0][0] != 'const':
                return self.rat(args[0])
            if f == 'exp' and len(args) == 1:
                a = self.rat(args[0])
                if not a.num:
                    return self.atom_rat(None)
                if self.log_rules:
                    # exp(log u) = u for a bare log atom
                    if a.den == {(): ONE} and len(a.num) == 1:
                        (m, c), = a.num.items()
                        if c == 1 and len(m) == 1 and m[0][1] == 1 and \
                                m[0][0][0] == 'call' and m[0][0][1] == 'log':
                            return self.rat(m[0][0][2][0])
                atom = intern(('call', 'exp', (self.to_term(a),), ()))
                return Rat(self.normalize({((atom, ONE),): ONE}))
            if f == 'log' and len(args) == 1 and self.log_rules:
                return self.log_of(self.rat(args[0]))
            if f == 'abs' and len(args) == 1:
                a = self.rat(args[0])
                if a.is_const():
                    return Rat({(): abs(a.const())} if a.const() else {})
            if f in ('sin', 'cos') and len(args) == 1 and not t[3] and self.trig_expand:
                a = self.rnorm(self.rat(args[0]))
                if a.den == {(): ONE} and a.num:
                    monos = sorted(a.num.items(), key=lambda mc: mono_key(mc[0]))
                    if len(monos) > 1:
                        u = Rat(dict([monos[0]]))
                        v = Rat(dict(monos[1:]))
                        tu, tv = self.to_term(u), self.to_term(v)

                        def fn(name, x):
                            return self.rat(intern(('call', name, (x,), ())))
                        if f == 'sin':
                            return self.radd(
                                self.rmul(fn('sin', tu), fn('cos', tv)),
                                self.rmul(fn('cos', tu), fn('sin', tv)))
                        return self.radd(
                            self.rmul(fn('cos', tu), fn('cos', tv)),
                            self.rmul(fn('sin', tu), fn('sin', tv)), -ONE)
                    (m, c), = monos
                    if c < 0:
                        pos = self.to_term(Rat({m: -c}))
                        r = self.rat(intern(('call', f, (pos,), ())))
                        return self.rscale(r, -ONE) if f == 'sin' else r
                elif not a.num:
                    return Rat({}) if f == 'sin' else Rat({(): ONE})
        if k == 'extref':
            f = fname(t[1])
            if f in ('pi', 'e', 'inf'):
                return self.atom_rat(intern(('sym', f)))
        a = self.canon_atom(t)
        if a is t or a[0] == t[0] == 'call' and a[1] == fname(t[1]) == t[1]:
            return self.atom_rat(a)
        if a[0] in ('rat', 'num', 'bin', 'un', 'I') or (
                self.atom_rewrite is not None and a[0] != t[0]):
            return self.rat(a)
        return self.atom_rat(a)

    def log_of(self, a):
        a = self.rnorm(a)
        if a.den == {(): ONE} and len(a.num) == 1:
            (m, c), = a.num.items()
            total = Rat({})
            if c != 1:
                if c <= 0:
                    return self.atom_rat(intern(
                        ('call', 'log', (self.to_term(a),), ())))
                total = self.atom_rat(intern(
                    ('call', 'log', (intern(('num', c)),), ())))
            for x, e in m:
                if x[0] == 'call' and x[1] == 'exp':
                    total = self.radd(total, self.rscale(self.rat(x[2][0]), e))
                elif x[0] == 'polyatom':
                    total = self.radd(total, self.rscale(
                        self.log_of(self.rat(x[1])), e))
                else:
                    total = self.radd(total, self.rscale(self.atom_rat(intern(
                        ('call', 'log', (x,), ()))), e))
            return total
        if a.den != {(): ONE}:
            return self.radd(self.log_of(Rat(a.num)), self.log_of(Rat(a.den)), -ONE)
        return self.atom_rat(intern(('call', 'log', (self.to_term(a),), ())))

    # ---------------- canonical terms ---------------------------------
    def canon_atom(self, t):
        """Rebuild a non-arithmetic node with canonicalised children."""
        key = id(t)
        hit = self._tmemo.get(key)
        if hit is not None:
            return hit
        k = t[0]
        if k in ('sym', 'const', 'num', 'I', 'extref', 'modref', 'classref',
                 'funcref', 'global', 'unk', 'phi', 'bound', 'closure'):
            r = t
            if k == 'extref':
                r = intern(('extref', fname(t[1])))
        elif k == 'call':
            f = t[1]
            f2 = fname(f) if isinstance(f, str) else self.canon_term(f)
            r = intern(('call', f2, tuple(self.canon_term(x) for x in t[2]),
                        tuple((kk, self.canon_term(v)) for kk, v in t[3])))
        else:
            r = intern(tuple(self._canon_child(x) for x in t))
        if self.atom_rewrite is not None:
            r2 = self.atom_rewrite(self, r)
            if r2 is not None:
                r = intern(r2)
        self._tmemo[key] = r
        return r

    def _canon_child(self, x):
        if type(x) is T:
            return self.canon_term(x)
        if isinstance(x, tuple):
            return tuple(self._canon_child(y) for y in x)
        return x

    def canon_term(self, t):
        """Canonical term of any term (arithmetic parts normalised)."""
        t = intern(t)
        k = t[0]
        if k in ('num', 'I') or (k == 'bin' and t[1] in ('+', '-', '*', '/', '**')) \
                or (k == 'un' and t[1] in ('-', '+')) or \
                (k == 'call' and fname(t[1]) in ('sqrt', 'square', 'power', 'exp',
                                                 'log', 'abs')) or k == 'extref':
            return self.to_term(self.rat(t))
        return self.canon_atom(t)

    def to_term(self, r):
        r = self.rnorm(r)
        if r.den == {(): ONE}:
            if not r.num:
                return intern(('num', ZERO))
            if len(r.num) == 1:
                (m, c), = r.num.items()
                if m == ():
                    return intern(('num', c))
                if c == 1 and len(m) == 1 and m[0][1] == 1:
                    return m[0][0]
        ni = tuple(sorted(((m, c) for m, c in r.num.items()),
                          key=lambda mc: mono_key(mc[0])))
        di = tuple(sorted(((m, c) for m, c in r.den.items()),
                          key=lambda mc: mono_key(mc[0])))
        # scale so that the leading denominator coefficient is 1
        lead = di[0][1]
        if lead != 1:
            ni = tuple((m, c / lead) for m, c in ni)
            di = tuple((m, c / lead) for m, c in di)
        return intern(('rat', ni, di))

    def from_term(self, t):
        return Rat(dict(t[1]), dict(t[2]))

    # ---------------- queries ------------------------------------------
    def equal(self, a, b):
        ra, rb = self.rat(a), self.rat(b)
        return self.req(ra, rb)

    def req(self, ra, rb):
        if ra.den == rb.den:
            return ra.num == rb.num
        return self.pmul(ra.num, rb.den) == self.pmul(rb.num, ra.den)

    def is_zero(self, a):
        return not self.rat(a).num

    def atoms(self, t):
        r = self.rat(t)
        out = set()
        for p in (r.num, r.den):
            for m in p:
                for a, e in m:
                    out.add(a)
        return out

    def degree_in(self, t, pred):
        """(min, max) total degree over monomials of atoms satisfying pred;
        requires a trivial denominator w.r.t. those atoms."""
        r = self.rat(t)
        degs = []
        for m in r.num:
            degs.append(sum((e for a, e in m if pred(a)), ZERO))
        dd = []
        for m in r.den:
            dd.append(sum((e for a, e in m if pred(a)), ZERO))
        return degs, dd

    def show(self, t):
        from .terms import show
        return show(self.canon_term(t))
