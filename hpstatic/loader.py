"""Front end: parse tree of the repository, import/name resolution, class table, MRO.

No type information is available (mypy/pyright absent), so resolution is by
the import table of each module, followed through package ``__init__``
re-exports.  External names resolve to ('external', 'numpy.fft.fftshift').
"""
import ast
import hashlib
import os

REPO = os.environ.get('HOLOPY_REPO', '/repo')
PKG = 'holopy'


class AnalysisError(Exception):
    """The analyser cannot decide (vanished anchor, unsupported construct)."""


class Module:
    def __init__(self, name, path, relpath, src, is_pkg):
        self.name = name
        self.path = path
        self.relpath = relpath
        self.src = src
        self.is_pkg = is_pkg
        self.tree = ast.parse(src, filename=path)
        self.imports = {}     # local name -> ('mod', dotted) | ('obj', mod, name)
        self.defs = {}        # top-level def/class name -> node
        self.assigns = {}     # top-level NAME = value -> value node
        self.multi = set()    # names assigned more than once (value unknown)
        self._index()

    def _package(self):
        return self.name if self.is_pkg else self.name.rpartition('.')[0]

    def _abs(self, module, level):
        if level == 0:
            return module
        base = self._package().split('.')
        if level > 1:
            base = base[:-(level - 1)]
        return '.'.join(base + ([module] if module else []))

    def _index_stmt(self, st):
        if isinstance(st, ast.Import):
            for a in st.names:
                if a.asname:
                    self.imports[a.asname] = ('mod', a.name)
                else:
                    top = a.name.split('.')[0]
                    self.imports[top] = ('mod', top)
        elif isinstance(st, ast.ImportFrom):
            mod = self._abs(st.module, st.level)
            for a in st.names:
                if a.name == '*':
                    self.imports.setdefault('*', []).append(mod)
                else:
                    self.imports[a.asname or a.name] = ('obj', mod, a.name)
        elif isinstance(st, (ast.FunctionDef, ast.ClassDef)):
            self.defs[st.name] = st
        elif isinstance(st, ast.Assign):
            for t in st.targets:
                if isinstance(t, ast.Name):
                    if t.id in self.assigns:
                        self.multi.add(t.id)
                    self.assigns[t.id] = st.value
                elif isinstance(t, ast.Tuple) and isinstance(st.value, ast.Tuple) \
                        and len(t.elts) == len(st.value.elts):
                    for tt, vv in zip(t.elts, st.value.elts):
                        if isinstance(tt, ast.Name):
                            self.assigns[tt.id] = vv
        elif isinstance(st, ast.Try):
            for s in st.body:
                self._index_stmt(s)
            for h in st.handlers:
                for s in h.body:
                    self._index_stmt(s)
            for s in st.orelse:
                self._index_stmt(s)
        elif isinstance(st, ast.If):
            for s in st.body + st.orelse:
                self._index_stmt(s)

    def _index(self):
        for st in self.tree.body:
            self._index_stmt(st)


class ClassInfo:
    def __init__(self, qual, module, node):
        self.qual = qual
        self.name = node.name
        self.module = module
        self.node = node
        self.bases = []       # resolved: class quals or 'external:...'
        self.methods = {}
        self.properties = {}  # name -> {'getter': fd, 'setter': fd or None}
        self.class_attrs = {}
        self.decorators = {}
        for st in node.body:
            if isinstance(st, ast.FunctionDef):
                decos = [ast.unparse(d) for d in st.decorator_list]
                self.decorators[st.name] = decos
                if 'property' in decos:
                    self.properties.setdefault(
                        st.name, {'getter': None, 'setter': None})['getter'] = st
                elif any(d.endswith('.setter') for d in decos):
                    self.properties.setdefault(
                        st.name, {'getter': None, 'setter': None})['setter'] = st
                else:
                    self.methods[st.name] = st
            elif isinstance(st, ast.Assign):
                for t in st.targets:
                    if isinstance(t, ast.Name):
                        self.class_attrs[t.id] = st.value
            elif isinstance(st, ast.AnnAssign) and isinstance(st.target, ast.Name) \
                    and st.value is not None:
                self.class_attrs[st.target.id] = st.value

    def __repr__(self):
        return '<class %s>' % self.qual


class Program:
    def __init__(self, root=None, overrides=None, include_tests=False):
        self.root = root or os.environ.get('HOLOPY_REPO', REPO)
        self.overrides = overrides or {}
        self.modules = {}
        self.extra_modules = {}   # synthetic (oracle) modules
        self.classes = {}
        self._mro_cache = {}
        self.digest = hashlib.sha256()
        pkgroot = os.path.join(self.root, PKG)
        if not os.path.isdir(pkgroot):
            raise AnalysisError('no package at %s' % pkgroot)
        for dirpath, dirnames, filenames in os.walk(pkgroot):
            dirnames[:] = sorted(d for d in dirnames
                                 if d != '__pycache__' and
                                 (include_tests or d != 'tests'))
            for fn in sorted(filenames):
                if not fn.endswith('.py'):
                    continue
                path = os.path.join(dirpath, fn)
                rel = os.path.relpath(path, self.root)
                parts = rel[:-3].split(os.sep)
                is_pkg = parts[-1] == '__init__'
                if is_pkg:
                    parts = parts[:-1]
                name = '.'.join(parts)
                if rel in self.overrides:
                    src = self.overrides[rel]
                else:
                    with open(path, encoding='utf-8') as f:
                        src = f.read()
                self.digest.update(rel.encode() + b'\0' + src.encode())
                try:
                    self.modules[name] = Module(name, path, rel, src, is_pkg)
                except SyntaxError as e:
                    raise AnalysisError('cannot parse %s: %s' % (rel, e))
        for m in self.modules.values():
            for n, node in m.defs.items():
                if isinstance(node, ast.ClassDef):
                    self.classes[m.name + '.' + n] = ClassInfo(
                        m.name + '.' + n, m, node)
        for c in self.classes.values():
            for b in c.node.bases:
                r = self.resolve_expr(c.module.name, b)
                if r[0] == 'class':
                    c.bases.append(r[1])
                else:
                    c.bases.append('external:' + ast.unparse(b))

    # ------------------------------------------------------------------
    def module(self, name):
        if name not in self.modules:
            raise AnalysisError('module %s not found' % name)
        return self.modules[name]

    def resolve_name(self, modname, name, _seen=None):
        """Resolve a bare name used in module `modname`."""
        _seen = _seen or set()
        if (modname, name) in _seen:
            return ('external', modname + '.' + name)
        _seen.add((modname, name))
        m = self.modules.get(modname) or self.extra_modules.get(modname)
        if m is None:
            return ('external', modname + '.' + name)
        if name in m.defs:
            node = m.defs[name]
            kind = 'class' if isinstance(node, ast.ClassDef) else 'func'
            return (kind, modname + '.' + name)
        if name in m.imports:
            imp = m.imports[name]
            if imp[0] == 'mod':
                return ('module', imp[1])
            _, src, obj = imp
            if src + '.' + obj in self.modules:
                return ('module', src + '.' + obj)
            if src in self.modules:
                return self.resolve_name(src, obj, _seen)
            return ('external', src + '.' + obj)
        if name in m.assigns:
            return ('value', modname, name)
        for star in m.imports.get('*', []):
            if star in self.modules:
                r = self.resolve_name(star, name, _seen)
                if r[0] != 'external':
                    return r
        return ('external', name)

    def resolve_expr(self, modname, node):
        """Resolve a Name / dotted Attribute expression to a program entity."""
        if isinstance(node, ast.Name):
            return self.resolve_name(modname, node.id)
        if isinstance(node, ast.Attribute):
            base = self.resolve_expr(modname, node.value)
            if base[0] == 'module':
                if base[1] + '.' + node.attr in self.modules:
                    return ('module', base[1] + '.' + node.attr)
                if base[1] in self.modules:
                    return self.resolve_name(base[1], node.attr)
                return ('external', base[1] + '.' + node.attr)
            if base[0] == 'external':
                return ('external', base[1] + '.' + node.attr)
            if base[0] == 'class':
                return ('classattr', base[1], node.attr)
        return ('unknown', ast.unparse(node))

    # ------------------------------------------------------------------
    def cls(self, qual):
        if qual not in self.classes:
            raise AnalysisError('class %s not found' % qual)
        return self.classes[qual]

    def find_class(self, shortname):
        hits = [q for q, c in self.classes.items() if c.name == shortname]
        if len(hits) != 1:
            raise AnalysisError('class name %s resolves to %r' % (shortname, hits))
        return hits[0]

    def mro(self, qual):
        if qual in self._mro_cache:
            return self._mro_cache[qual]
        c = self.cls(qual)
        seqs = []
        for b in c.bases:
            if b in self.classes:
                seqs.append(list(self.mro(b)))
        seqs.append([b for b in c.bases if b in self.classes])
        res = [qual]
        seqs = [s for s in seqs if s]
        while seqs:
            for s in seqs:
                cand = s[0]
                if not any(cand in t[1:] for t in seqs):
                    break
            else:
                raise AnalysisError('inconsistent MRO for %s' % qual)
            res.append(cand)
            seqs = [[x for x in s if x != cand] for s in seqs]
            seqs = [s for s in seqs if s]
        self._mro_cache[qual] = res
        return res

    def is_subclass(self, qual, base):
        return qual in self.classes and base in self.mro(qual)

    def subclasses(self, base, strict=False):
        out = [q for q in sorted(self.classes) if self.is_subclass(q, base)]
        if strict:
            out = [q for q in out if q != base]
        return out

    def lookup(self, classqual, name, after=None):
        """Find attribute `name` through the MRO of `classqual`.

        Returns (kind, owner, node) with kind in method / property /
        classattr, or None.  `after`: start searching after this class (super).
        """
        mro = self.mro(classqual)
        if after is not None:
            mro = mro[mro.index(after) + 1:]
        for q in mro:
            c = self.classes[q]
            if name in c.methods:
                return ('method', q, c.methods[name])
            if name in c.properties:
                return ('property', q, c.properties[name])
            if name in c.class_attrs:
                return ('classattr', q, c.class_attrs[name])
        return None

    def func(self, qual):
        """FunctionDef for 'pkg.mod.func' or 'pkg.mod.Class.method'."""
        mod, _, name = qual.rpartition('.')
        if mod in self.modules:
            node = self.modules[mod].defs.get(name)
            if isinstance(node, ast.FunctionDef):
                return node
        if mod in self.classes:
            c = self.classes[mod]
            if name in c.methods:
                return c.methods[name]
            if name in c.properties and c.properties[name]['getter']:
                return c.properties[name]['getter']
        raise AnalysisError('anchor function %s not found' % qual)

    def has_func(self, qual):
        try:
            self.func(qual)
            return True
        except AnalysisError:
            return False

    def module_of(self, qual):
        """Module object that defines function / class / method `qual`."""
        parts = qual.split('.')
        for i in range(len(parts), 0, -1):
            n = '.'.join(parts[:i])
            if n in self.modules:
                return self.modules[n]
        raise AnalysisError('no module for %s' % qual)

    def loc(self, qual_or_module, node):
        m = qual_or_module if isinstance(qual_or_module, Module) \
            else self.module_of(qual_or_module)
        return '%s:%d' % (m.relpath, getattr(node, 'lineno', 0))


def walk_no_nested(node):
    """ast.walk that does not descend into nested defs / lambdas / classes."""
    todo = list(ast.iter_child_nodes(node))
    while todo:
        n = todo.pop()
        yield n
        if isinstance(n, (ast.FunctionDef, ast.AsyncFunctionDef, ast.Lambda,
                          ast.ClassDef)):
            continue
        todo.extend(ast.iter_child_nodes(n))


def norm_src(node):
    """Normalised statement text, used to key findings (never line numbers)."""
    return ' '.join(ast.unparse(node).split())
