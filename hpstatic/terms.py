"""Term language for the value-numbering engine (E5/E7).

Terms are hashable nested tuples.  They are *descriptions of values* recovered
from the source by forward substitution of reaching definitions; nothing is
ever executed.

  ('num', Fraction)               exact rational literal (floats via their repr)
  ('I',)                          imaginary unit
  ('const', v)                    str / None / bool / Ellipsis literal
  ('sym', name)                   an input: parameter, free variable
  ('attr', t, name)               t.name
  ('idx', t, i)                   t[i]
  ('slice', lo, hi, step)
  ('call', f, args, kwargs)       f: str (resolved dotted name) or term (method)
  ('bin', op, a, b)               + - * / ** % // @ & | ^ << >>
  ('un', op, a)                   - + ~ not
  ('cmp', op, a, b)
  ('bool', 'and'|'or', items)
  ('ite', c, a, b)
  ('tuple', items) ('list', items) ('set', items)
  ('dict', ((k, v), ...))
  ('upd', base, 'attr'|'item', key, value)   functional update of base
  ('elem', iter, loopid)          element of an iteration that is not unrolled
  ('loop', name, loopid, init, step)  value of `name` after a summarised loop;
                                  step is one iteration's value over ('phi', name, loopid)
  ('phi', name, loopid)           value of `name` on loop entry (recurrence variable)
  ('comp', kind, elt, gens)       comprehension, gens = ((target, iter, conds), ...)
  ('bound', name, cid)            comprehension / lambda bound variable
  ('closure', key)                nested def / lambda (body kept in a side table)
  ('new', classqual, args, kwargs) instance construction of a repository class
  ('fstr', parts)                 f-string
  ('unk', reason)                 construct outside the modelled idioms
"""
from fractions import Fraction


class T(tuple):
    """Hash-consed term node: structural equality is identity, hash cached.

    Terms are DAGs with heavy sharing (phi nodes duplicate references to the
    incoming values); plain tuples would make hashing and comparison
    exponential in the nesting depth.
    """
    _table = {}

    def __new__(cls, items):
        key = items
        hit = cls._table.get(key)
        if hit is not None:
            return hit
        self = tuple.__new__(cls, items)
        self._h = tuple.__hash__(self)
        self._n = len(cls._table)      # creation serial: a total order
        cls._table[key] = self
        return self

    def __hash__(self):
        return self._h

    def __eq__(self, other):
        if self is other:
            return True
        if type(other) is T:
            return False
        return tuple.__eq__(self, other)

    def __ne__(self, other):
        return not self.__eq__(other)


def intern(t):
    """Convert nested plain tuples to hash-consed nodes (stops at T nodes)."""
    if type(t) is T:
        return t
    if isinstance(t, tuple):
        items = tuple(intern(x) for x in t)
        if items and isinstance(items[0], str):
            return T(items)
        return items
    return t


NONE = intern(('const', None))
TRUE = intern(('const', True))
FALSE = intern(('const', False))


def num(v):
    if isinstance(v, bool):
        return intern(('const', v))
    if isinstance(v, int):
        return intern(('num', Fraction(v)))
    if isinstance(v, float):
        if v != v or v in (float('inf'), float('-inf')):
            return intern(('call', 'float', (('const', repr(v)),), ()))
        return intern(('num', Fraction(repr(v))))
    if isinstance(v, Fraction):
        return intern(('num', v))
    raise TypeError(v)


def is_num(t):
    return isinstance(t, tuple) and t and t[0] == 'num'


def sym(name):
    return intern(('sym', name))


def call(f, *args, **kwargs):
    return intern(('call', f, tuple(args), tuple(sorted(kwargs.items()))))


def subterms(t):
    """All distinct sub-terms of t (pre-order), including t."""
    stack = [t]
    seen = set()
    while stack:
        x = stack.pop()
        if not isinstance(x, tuple):
            continue
        if id(x) in seen:
            continue
        seen.add(id(x))
        if x and isinstance(x[0], str):
            yield x
        for y in x:
            if isinstance(y, tuple):
                stack.append(y)


def contains(t, sub):
    return any(x == sub for x in subterms(t))


def atoms_of(t, kinds=('sym',)):
    return {x for x in subterms(t) if x[0] in kinds}


def calls_in(t, name=None):
    out = []
    for x in subterms(t):
        if x[0] == 'call':
            f = x[1]
            fname = f if isinstance(f, str) else (
                '.' + f[2] if isinstance(f, tuple) and f[0] == 'attr' else None)
            if name is None or fname == name or (
                    isinstance(fname, str) and fname.endswith('.' + name)):
                out.append(x)
    return out


def kw(t, key, default=None):
    """keyword argument of a call term"""
    for k, v in t[3]:
        if k == key:
            return v
    return default


def show(t, depth=0):
    """Compact human-readable rendering of a term (for reports)."""
    if not isinstance(t, tuple) or not t:
        return repr(t)
    k = t[0]
    if depth > 9:
        return '...'
    d = depth + 1
    if k == 'num':
        f = t[1]
        return str(f.numerator) if f.denominator == 1 else '%s/%s' % (
            f.numerator, f.denominator)
    if k == 'I':
        return '1j'
    if k == 'const':
        return repr(t[1])
    if k == 'sym':
        return t[1]
    if k == 'attr':
        return '%s.%s' % (show(t[1], d), t[2])
    if k == 'idx':
        return '%s[%s]' % (show(t[1], d), show(t[2], d))
    if k == 'slice':
        return ':'.join('' if x == NONE else show(x, d) for x in t[1:])
    if k == 'call':
        f = t[1] if isinstance(t[1], str) else show(t[1], d)
        a = [show(x, d) for x in t[2]] + ['%s=%s' % (kk, show(v, d))
                                          for kk, v in t[3]]
        return '%s(%s)' % (f, ', '.join(a))
    if k == 'bin':
        return '(%s %s %s)' % (show(t[2], d), t[1], show(t[3], d))
    if k == 'un':
        return '(%s%s)' % (t[1] + (' ' if t[1] == 'not' else ''), show(t[2], d))
    if k == 'cmp':
        return '(%s %s %s)' % (show(t[2], d), t[1], show(t[3], d))
    if k == 'bool':
        return '(' + (' %s ' % t[1]).join(show(x, d) for x in t[2]) + ')'
    if k == 'ite':
        return '(%s if %s else %s)' % (show(t[2], d), show(t[1], d), show(t[3], d))
    if k in ('tuple', 'list', 'set'):
        br = {'tuple': '()', 'list': '[]', 'set': '{}'}[k]
        return br[0] + ', '.join(show(x, d) for x in t[1]) + br[1]
    if k == 'dict':
        return '{' + ', '.join('%s: %s' % (show(a, d), show(b, d))
                               for a, b in t[1]) + '}'
    if k == 'upd':
        key = t[3] if isinstance(t[3], str) else show(t[3], d)
        return '%s{%s%s := %s}' % (show(t[1], d), '.' if t[2] == 'attr' else '#',
                                   key, show(t[4], d))
    if k == 'elem':
        return 'elem(%s)' % show(t[1], d)
    if k == 'loop':
        return 'loop[%s](init=%s, step=%s)' % (t[1], show(t[3], d), show(t[4], d))
    if k == 'phi':
        return 'phi(%s)' % t[1]
    if k == 'comp':
        return '%s(%s for %s)' % (t[1], show(t[2], d), ', '.join(
            '%s in %s' % (show(g[0], d), show(g[1], d)) for g in t[3]))
    if k == 'bound':
        return t[1]
    if k == 'new':
        a = [show(x, d) for x in t[2]] + ['%s=%s' % (kk, show(v, d))
                                          for kk, v in t[3]]
        return '%s(%s)' % (t[1].rpartition('.')[2], ', '.join(a))
    if k == 'unk':
        return '<?%s>' % (t[1],)
    if k == 'rat':
        def mono(m, c):
            parts = [] if (c == 1 and m) else [str(c)]
            for a, e in m:
                s = show(a, d)
                parts.append(s if e == 1 else '%s^%s' % (s, e))
            return '*'.join(parts)
        n = ' + '.join(mono(m, c) for m, c in t[1]) or '0'
        if t[2] == (((), Fraction(1)),):
            return '[' + n + ']'
        return '[(%s) / (%s)]' % (n, ' + '.join(mono(m, c) for m, c in t[2]))
    if k in ('SUM', 'MEAN'):
        return '%s[%s](%s)' % (k, show(t[1], d), show(t[2], d))
    if k == 'SEL':
        return 'SEL[%s=%s](%s)' % (t[1], show(t[2], d), show(t[3], d))
    if k == 'star':
        return '*' + show(t[1], d)
    if k == 'copy':
        return '%scopy(%s)' % ('deep' if t[1] == 'deep' else '', show(t[2], d))
    if k == 'mut':
        return '%s.%s!(%s)' % (show(t[1], d), t[2], ', '.join(show(x, d) for x in t[3]))
    if k == 'polyatom':
        return '{%s}' % show(t[1], d)
    if k == 'pow':
        return '(%s ** %s)' % (show(t[1], d), show(t[2], d))
    if k in ('extref', 'modref', 'classref', 'funcref', 'global'):
        return t[1]
    if k == 'method':
        return '%s.%s' % (show(t[3], d), t[2])
    if k == 'raise':
        return 'raise %s' % show(t[1], d)
    return repr(t)
