"""E2: effect / purity analysis on top of the forward-substitution engine.

Every store the interpreter saw (attribute store, subscript store, augmented
assignment, mutator-method call, del) carries the term of the object it writes
to.  The *root* of that term says whose storage it is: a parameter of the
entry point (argument mutated), `self`, a module-level value, a class -- or a
fresh object created during the call (harmless)."""
from .terms import subterms, show

VIEW_ATTRS_FRESH = set()     # attribute reads never create fresh storage

FRESH_CALLS = ('copy', 'deepcopy', 'astype', 'tolist', 'item')

ALIASING_FUNCS = frozenset((
    'numpy.asarray', 'numpy.asanyarray', 'numpy.ascontiguousarray',
    'numpy.atleast_1d', 'numpy.atleast_2d', 'numpy.ravel', 'numpy.reshape',
    'numpy.squeeze', 'numpy.transpose', 'numpy.asfarray'))


_LOOPS = {}         # loop summaries of the run being inspected (set by writes())
_PHI_OPEN = set()


def roots(t, depth=0):
    """Set of root descriptors of the storage term t may alias."""
    if depth > 60:
        return {('unknown',)}
    k = t[0]
    if k == 'sym':
        return {('param', t[1])}
    if k == 'attr':
        return roots(t[1], depth + 1)
    if k == 'idx':
        # an element may be (an alias of) anything stored into the container
        return roots(t[1], depth + 1) | element_roots(t[1], depth + 1)
    if k in ('upd', 'mut'):
        return roots(t[1], depth + 1)
    if k == 'copy':
        if t[1] == 'shallow':
            # attribute rebinding on a shallow copy is private to the copy;
            # handled by the caller (interior stores go through attr/idx)
            return {('fresh',)}
        return {('fresh',)}
    if k == 'ite':
        return roots(t[2], depth + 1) | roots(t[3], depth + 1)
    if k in ('global',):
        return {('module', t[1])}
    if k in ('classref',):
        return {('class', t[1])}
    if k in ('modref', 'extref'):
        return {('module', t[1])}
    if k in ('phi', 'loop'):
        if k == 'loop':
            return roots(t[3], depth + 1) | roots(t[4], depth + 1)
        # the value a loop variable has at the top of an iteration is what it
        # had before the loop or what the previous iteration left
        summary = _LOOPS.get(t[2])
        pair = summary['vars'].get(t[1]) if summary else None
        if not pair or (t[1], t[2]) in _PHI_OPEN:
            return {('fresh',)}
        _PHI_OPEN.add((t[1], t[2]))
        try:
            out = set()
            for x in pair:
                if x is not None:
                    out |= roots(x, depth + 1)
            return out or {('fresh',)}
        finally:
            _PHI_OPEN.discard((t[1], t[2]))
    if k == 'elem':
        return roots(t[1], depth + 1) | element_roots(t[1], depth + 1)
    if k == 'call':
        f = t[1]
        # type(self) / self.__class__
        if f == 'type' and len(t[2]) == 1:
            return {('class-of', show(t[2][0]))}
        if f == 'getattr' and t[2]:
            return roots(t[2][0], depth + 1)
        if isinstance(f, tuple) and f[0] == 'attr' and f[2] in (
                'values', 'items', 'keys', '__getitem__', 'get', 'sel', 'isel',
                'squeeze', 'transpose', 'reshape', 'ravel', 'view', 'setdefault',
                'stack', 'unstack'):
            # may return a view / element of the receiver
            return roots(f[1], depth + 1) | {('maybe-fresh',)}
        if f in ALIASING_FUNCS and t[2]:
            # np.asarray(x) *is* x when x already is an array of that type
            return roots(t[2][0], depth + 1) | {('maybe-fresh',)}
        return {('fresh',)}
    if k in ('list', 'tuple', 'dict', 'set', 'new', 'bin', 'un', 'num', 'const',
             'cmp', 'bool', 'comp', 'closure', 'fstr', 'I'):
        return {('fresh',)}
    if k == 'attr' and t[2] == '__class__':
        return {('class-of', show(t[1]))}
    return {('unknown',)}


def element_roots(t, depth=0):
    """roots of the values held by container term t"""
    if depth > 60:
        return set()
    k = t[0]
    out = set()
    if k == 'upd' and t[2] == 'item':
        out |= roots(t[4], depth + 1)
        out |= element_roots(t[1], depth + 1)
    elif k == 'upd':
        out |= element_roots(t[1], depth + 1)
    elif k == 'mut':
        for a in t[3]:
            out |= roots(a, depth + 1)
        out |= element_roots(t[1], depth + 1)
    elif k in ('list', 'tuple', 'set'):
        for a in t[1]:
            out |= roots(a, depth + 1)
    elif k == 'dict':
        for kk, v in t[1]:
            out |= roots(v, depth + 1)
    elif k == 'comp':
        out |= roots(t[2], depth + 1)
    elif k == 'loop':
        out |= element_roots(t[3], depth + 1) | element_roots(t[4], depth + 1)
    elif k == 'phi':
        summary = _LOOPS.get(t[2])
        pair = summary['vars'].get(t[1]) if summary else None
        if pair and ('e', t[1], t[2]) not in _PHI_OPEN:
            _PHI_OPEN.add(('e', t[1], t[2]))
            try:
                for x in pair:
                    if x is not None:
                        out |= element_roots(x, depth + 1)
            finally:
                _PHI_OPEN.discard(('e', t[1], t[2]))
    elif k == 'ite':
        out |= element_roots(t[2], depth + 1) | element_roots(t[3], depth + 1)
    elif k == 'call' and isinstance(t[1], tuple) and t[1][0] == 'attr' and \
            t[1][2] in ('items', 'values', 'keys'):
        out |= element_roots(t[1][1], depth + 1)
    elif k == 'call' and t[1] in ('zip', 'enumerate', 'reversed', 'list', 'tuple',
                                  'sorted', 'dict', 'set', 'copy.copy'):
        # (a shallow copy is a new outer container around the same elements)
        for a in t[2]:
            out |= element_roots(a, depth + 1) | roots(a, depth + 1)
    elif k == 'call' and isinstance(t[1], tuple) and t[1][0] == 'attr' and \
            t[1][2] == 'copy' and not t[2]:
        out |= element_roots(t[1][1], depth + 1) | roots(t[1][1], depth + 1)
    elif k == 'copy' and t[1] == 'shallow':
        out |= element_roots(t[2], depth + 1) | roots(t[2], depth + 1)
    out.discard(('fresh',))
    return out


def interior(t):
    """True if the storage written is *inside* a shallow copy (shared)."""
    # copy(x).attrs[k] = v  -> interior of the original
    depth = 0
    cur = t
    path = []
    while cur[0] in ('attr', 'idx', 'upd', 'mut'):
        path.append(cur[0])
        cur = cur[1]
    return cur[0] == 'copy' and cur[1] == 'shallow' and len(path) >= 1


def writes(it, kinds=('setattr', 'setitem', 'augassign', 'mutcall', 'delete')):
    """Yield (effect, storage_term, roots) for every store the engine saw."""
    _LOOPS.clear()
    _LOOPS.update(it.loops)
    for e in it.effects:
        if e['kind'] not in kinds:
            continue
        if e['kind'] == 'setattr':
            st = e['base']
        elif e['kind'] == 'setitem':
            st = e['base']
        elif e['kind'] == 'mutcall':
            st = e['base']
        elif e['kind'] == 'augassign':
            st = e['target']
            v = e.get('value')
            if v is not None and (v[0] == 'fstr' or (
                    v[0] == 'const' and isinstance(v[1], (str, bytes)))):
                continue       # strings are immutable: a rebinding, not a store
        else:
            st = e.get('base')
            if st is None:
                continue       # `del name`: unbinds a local, no store
        rs = roots(st)
        if st[0] == 'copy' and st[1] == 'shallow' and e['kind'] == 'setattr':
            rs = {('fresh',)}
        elif interior(st):
            cur = st
            while cur[0] in ('attr', 'idx', 'upd', 'mut'):
                cur = cur[1]
            rs = roots(cur[2])
        yield e, st, rs


def describe(e):
    return '%s %s (%s:%d in %s)' % (e['kind'], e.get('target_src') or
                                    e.get('method', ''), e['module'], e['lineno'],
                                    e['func'].rpartition('.')[2])
