"""Three-valued (Kleene) evaluation of condition terms under a partial
assignment of their atoms -- the 'constant propagation under a hypothesis'
of engine E8."""
from .terms import TRUE, FALSE, NONE, is_num


def eval3(t, atom_value):
    """atom_value(term) -> True / False / None(unknown)."""
    if t == TRUE:
        return True
    if t == FALSE or t == NONE:
        return False
    if is_num(t):
        return t[1] != 0
    k = t[0]
    if k == 'un' and t[1] == 'not':
        v = eval3(t[2], atom_value)
        return None if v is None else (not v)
    if k == 'bool':
        vals = [eval3(x, atom_value) for x in t[2]]
        if t[1] == 'and':
            if any(v is False for v in vals):
                return False
            if all(v is True for v in vals):
                return True
            return None
        if any(v is True for v in vals):
            return True
        if all(v is False for v in vals):
            return False
        return None
    if k == 'ite':
        c = eval3(t[1], atom_value)
        if c is True:
            return eval3(t[2], atom_value)
        if c is False:
            return eval3(t[3], atom_value)
        a, b = eval3(t[2], atom_value), eval3(t[3], atom_value)
        return a if a == b else None
    if k == 'call' and t[1] in ('numpy.logical_or', 'numpy.logical_and',
                                'numpy.logical_not') and not t[3]:
        vals = [eval3(x, atom_value) for x in t[2]]
        if t[1] == 'numpy.logical_not':
            return None if vals[0] is None else (not vals[0])
        if t[1] == 'numpy.logical_and':
            if any(v is False for v in vals):
                return False
            return True if all(v is True for v in vals) else None
        if any(v is True for v in vals):
            return True
        return False if all(v is False for v in vals) else None
    return atom_value(t)


def cond3(cond, atom_value, skip=lambda t: False):
    """Evaluate a path condition (tuple of (term, polarity))."""
    vals = []
    for t, pol in cond:
        if skip(t):
            continue
        v = eval3(t, atom_value)
        vals.append(None if v is None else (v if pol else (not v)))
    if any(v is False for v in vals):
        return False
    if all(v is True for v in vals):
        return True
    return None


NEG = {'<': '>=', '<=': '>', '>': '<=', '>=': '<', '==': '!=', '!=': '==',
       'is': 'is not', 'is not': 'is', 'in': 'not in', 'not in': 'in'}
FLIP = {'<': '>', '<=': '>=', '>': '<', '>=': '<=', '==': '==', '!=': '!='}


def nnf(t, neg=False):
    """Negation normal form over not / and / or / numpy.logical_* / cmp.
    Returns ('or', [..]) / ('and', [..]) / ('atom', cmp-term or other term)."""
    k = t[0]
    if k == 'un' and t[1] == 'not':
        return nnf(t[2], not neg)
    if k == 'call' and t[1] == 'numpy.logical_not' and len(t[2]) == 1:
        return nnf(t[2][0], not neg)
    if k == 'bool' or (k == 'call' and t[1] in ('numpy.logical_or',
                                                 'numpy.logical_and')):
        if k == 'bool':
            op, items = t[1], t[2]
        else:
            op, items = ('or' if t[1].endswith('or') else 'and'), t[2]
        if neg:
            op = 'and' if op == 'or' else 'or'
        parts = [nnf(x, neg) for x in items]
        flat = []
        for p in parts:
            if p[0] == op:
                flat.extend(p[1])
            else:
                flat.append(p)
        return (op, flat)
    if k == 'bin' and t[1] in ('|', '&'):
        op = 'or' if t[1] == '|' else 'and'
        if neg:
            op = 'and' if op == 'or' else 'or'
        parts = [nnf(t[2], neg), nnf(t[3], neg)]
        flat = []
        for p in parts:
            if p[0] == op:
                flat.extend(p[1])
            else:
                flat.append(p)
        return (op, flat)
    if k == 'cmp':
        op = NEG[t[1]] if neg else t[1]
        return ('atom', ('cmp', op, t[2], t[3]))
    return ('atom', ('un', 'not', t) if neg else t)


def disjunction_atoms(t, var):
    """If t is (after NNF) a disjunction of comparisons of `var` with other
    terms, return frozenset{(op, other)} with var on the left; else None."""
    f = nnf(t)
    items = f[1] if f[0] == 'or' else [f] if f[0] == 'atom' else None
    if items is None:
        return None
    out = set()
    for it in items:
        if it[0] != 'atom' or it[1][0] != 'cmp':
            return None
        _, op, a, b = it[1]
        if a == var and op in FLIP:
            out.add((op, b))
        elif b == var and op in FLIP:
            out.add((FLIP[op], a))
        else:
            return None
    return frozenset(out)


def cmp_is(t, op, a, b):
    """t is the comparison `a op b`, in either orientation"""
    if t[0] != 'cmp':
        return False
    if t[1] == op and t[2] == a and t[3] == b:
        return True
    return op in FLIP and t[1] == FLIP[op] and t[2] == b and t[3] == a


def cmp_parts(t, x):
    """for a comparison involving x return (op, other) with x on the left"""
    if t[0] != 'cmp':
        return None
    if t[2] == x:
        return t[1], t[3]
    if t[3] == x and t[1] in FLIP:
        return FLIP[t[1]], t[2]
    return None


def select(t, atom_value):
    """Leaf of a nested-conditional value under a total assignment of the guard
    atoms; None if a guard cannot be evaluated."""
    while t[0] == 'ite':
        c = eval3(t[1], atom_value)
        if c is None:
            return None
        t = t[2] if c else t[3]
    return t


def guard_atoms(t):
    """atoms (non-boolean-connective sub-conditions) of the guards of a nested
    conditional value"""
    out = []

    def atoms(c):
        if c[0] == 'un' and c[1] == 'not':
            atoms(c[2])
        elif c[0] == 'bool':
            for x in c[2]:
                atoms(x)
        elif c not in out:
            out.append(c)
    while t[0] == 'ite':
        atoms(t[1])
        # nested conditionals in the true branch
        for a in guard_atoms(t[2]):
            if a not in out:
                out.append(a)
        t = t[3]
    return out


def resolve(t, atom_value, _memo=None):
    """Rewrite `t` with every conditional (anywhere inside it) whose guard is
    decided by `atom_value` replaced by the selected branch; undecided
    conditionals are kept."""
    from .terms import intern
    memo = {} if _memo is None else _memo

    def go(x):
        if not isinstance(x, tuple) or not x:
            return x
        k = id(x)
        if k in memo:
            return memo[k][1]
        if isinstance(x[0], str) and x[0] == 'ite' and len(x) == 4:
            c = eval3(x[1], atom_value)
            if c is not None:
                r = go(x[2] if c else x[3])
                memo[k] = (x, r)
                return r
        r = tuple(go(y) for y in x)
        memo[k] = (x, r)
        return r
    out = go(t)
    try:
        return intern(out)
    except Exception:
        return out
