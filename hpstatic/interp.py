"""Forward-substitution engine: recovers, for every value a function computes,
an expression tree (term) over the function's inputs.

This is the reaching-definitions / value-numbering step of the analysis, done
on the AST with phi-nodes ('ite') at control-flow joins and recurrence nodes
('loop'/'phi') for loops that are not unrolled.  It never executes repository
code and hands nothing to a solver; rules inspect the resulting terms (shape,
atoms, canonical polynomial form, effects).
"""
import ast
from fractions import Fraction

from .loader import AnalysisError
from .terms import NONE, TRUE, FALSE, num, is_num, sym, intern

BINOPS = {ast.Add: '+', ast.Sub: '-', ast.Mult: '*', ast.Div: '/',
          ast.Pow: '**', ast.Mod: '%', ast.FloorDiv: '//', ast.MatMult: '@',
          ast.BitAnd: '&', ast.BitOr: '|', ast.BitXor: '^',
          ast.LShift: '<<', ast.RShift: '>>'}
UNOPS = {ast.USub: '-', ast.UAdd: '+', ast.Invert: '~', ast.Not: 'not'}
CMPOPS = {ast.Eq: '==', ast.NotEq: '!=', ast.Lt: '<', ast.LtE: '<=',
          ast.Gt: '>', ast.GtE: '>=', ast.Is: 'is', ast.IsNot: 'is not',
          ast.In: 'in', ast.NotIn: 'not in'}

FLIPPED = {'<': '>', '<=': '>=', '>': '<', '>=': '<=', '==': '==', '!=': '!='}
ALIASES = {'np': 'numpy', 'xr': 'xarray', 'sp': 'scipy', 'ne': 'numexpr'}
MAX_UNROLL = 24
# attributes that expose the elements of an array
CONTENT_ATTRS = frozenset(('values', 'data', 'T', 'real', 'imag'))
# methods of an array whose result holds (a view or a function of) its elements
CONTENT_METHODS = frozenset((
    'transpose', 'assign_coords', 'astype', 'squeeze', 'ravel', 'flatten', 'reshape',
    'isel', 'sel', 'sum', 'mean', 'std', 'max', 'min', 'any', 'all', 'rename',
    'stack', 'unstack', 'conj', 'conjugate', 'swapaxes', 'tolist', 'item'))


def norm_cmp(o, left, right):
    """one canonical orientation per comparison: a literal goes to the right;
    otherwise > / >= are written as < / <= with swapped operands"""
    if o in FLIPPED:
        llit = left[0] in ('num',) or (left[0] == 'un' and left[2][0] == 'num')
        rlit = right[0] in ('num',) or (right[0] == 'un' and right[2][0] == 'num')
        if llit and not rlit:
            return ('cmp', FLIPPED[o], right, left)
        if not llit and not rlit and o in ('>', '>='):
            return ('cmp', FLIPPED[o], right, left)
    return ('cmp', o, left, right)


class Outcome:
    __slots__ = ('kind', 'env', 'value', 'cond', 'lineno')

    def __init__(self, kind, env, value=None, cond=(), lineno=0):
        self.kind, self.env, self.value, self.cond, self.lineno = \
            kind, env, value, cond, lineno


class Frame:
    def __init__(self, module, owner, selfcls, selfname, depth, qual):
        self.module = module      # Module object
        self.owner = owner        # class that defines the running method
        self.selfcls = selfcls    # class of the receiver (MRO dispatch)
        self.selfname = selfname
        self.depth = depth
        self.qual = qual


class Result:
    def __init__(self, interp, outcomes, qual):
        self.interp = interp
        self.outcomes = outcomes
        self.qual = qual
        self.effects = interp.effects
        self.calls = interp.calls

    @property
    def returns(self):
        return [o for o in self.outcomes if o.kind in ('return', 'fall')]

    @property
    def raises(self):
        return [o for o in self.outcomes if o.kind == 'raise']

    @property
    def ret(self):
        """Return value as one term; raising paths dropped."""
        return combine(self.returns)

    @property
    def ret_with_raises(self):
        return combine(self.outcomes, keep_raises=True)


def conj(conds):
    conds = [c for c in conds]
    if not conds:
        return TRUE
    items = []
    for t, pol in conds:
        items.append(t if pol else ('un', 'not', t))
    if len(items) == 1:
        return intern(items[0])
    return intern(('bool', 'and', tuple(items)))


def combine(outcomes, keep_raises=False):
    outs = [o for o in outcomes
            if o.kind in ('return', 'fall') or (keep_raises and o.kind == 'raise')]
    if not outs:
        return ('unk', 'no-return')

    def val(o):
        if o.kind == 'raise':
            return ('raise', o.value)
        if o.kind == 'fall':
            return NONE
        return o.value
    # strip the common prefix of conditions
    t = val(outs[-1])
    for o in reversed(outs[:-1]):
        v = val(o)
        if v == t:
            continue
        # condition relative to later outcomes: use full conjunction
        t = intern(('ite', conj(o.cond), v, t))
    return intern(t)


def assume(t, cond):
    """Resolve phi nodes of t whose condition is fixed by the path condition."""
    facts = {}
    for c, pol in cond:
        facts[c] = pol
    memo = {}

    def go(x):
        if not isinstance(x, tuple) or not x:
            return x
        k = id(x)
        if k in memo:
            return memo[k]
        if x[0] == 'ite' and x[1] in facts:
            r = go(x[2] if facts[x[1]] else x[3])
        elif isinstance(x[0], str):
            r = intern(tuple(go(y) if isinstance(y, tuple) else y for y in x))
        else:
            r = tuple(go(y) if isinstance(y, tuple) else y for y in x)
        memo[k] = r
        return r
    return go(intern(t))


def strip_raises(t):
    if isinstance(t, tuple) and t and t[0] == 'ite':
        a, b = strip_raises(t[2]), strip_raises(t[3])
        if isinstance(a, tuple) and a[:1] == ('raise',):
            return b
        if isinstance(b, tuple) and b[:1] == ('raise',):
            return a
        return ('ite', t[1], a, b)
    return t


def _dead(t):
    """value of a variable on a path where it was never bound (reading it
    raises NameError, so it cannot contribute a value)"""
    return t[0] == 'unk' and isinstance(t[1], str) and t[1].startswith('unbound:')


def phi_node(c, a, b):
    if a == b:
        return a
    if _dead(a):
        return b
    if _dead(b):
        return a
    return intern(('ite', c, a, b))


class Interp:
    def __init__(self, prog, types=None, max_depth=8, opaque=(), decide=None,
                 no_inline_external_methods=True, inline_new=True,
                 module_values=True):
        self.prog = prog
        self.types = dict(types or {})    # term -> classqual
        self.max_depth = max_depth
        self.opaque = set(opaque)         # function quals never inlined
        self.decide = decide              # callback(cond_term) -> True/False/None
        self.effects = []
        self.calls = []
        self.closures = {}
        self.uid = 0
        self.stack = []
        self.inline_new = inline_new
        self._fields_cache = {}
        self.warnings = []
        self.loops = {}     # loop id -> summary of a loop that was not unrolled
        # False: a module-level mutable container keeps its identity (a
        # ('global', name) symbol) instead of being folded to its initial value
        self.module_values = module_values

    # ------------------------------------------------------------------
    def fresh(self):
        self.uid += 1
        return self.uid

    def effect(self, kind, frame, node, cond, **data):
        self.effects.append(dict(kind=kind, func=frame.qual,
                                 module=frame.module.relpath,
                                 lineno=getattr(node, 'lineno', 0),
                                 cond=cond, **data))

    # ------------------------------------------------------------------
    def analyze(self, qual, args=None, selfcls=None, defaults=(), owner=None):
        """Analyse function `qual` with symbolic (or given) arguments."""
        fd = self.prog.func(qual)
        module = self.prog.module_of(qual)
        clsq = qual.rpartition('.')[0]
        if clsq in self.prog.classes:
            owner = owner or clsq
            selfcls = selfcls or clsq
        env = self.bind_params(fd, args or {}, module, owner, selfcls,
                               use_defaults=defaults, symbolic=True)
        selfname = None
        if owner and fd.args.args and not self._is_static(owner, fd):
            selfname = fd.args.args[0].arg
            if self._is_classmethod(owner, fd):
                env[selfname] = ('classref', selfcls)
            elif selfname not in (args or {}):
                env[selfname] = sym(selfname)
                self.types.setdefault(sym(selfname), selfcls)
        frame = Frame(module, owner, selfcls, selfname, 0, qual)
        self.stack.append(qual)
        try:
            outs = self.exec_block(fd.body, env, frame, ())
        finally:
            self.stack.pop()
        return Result(self, outs, qual)

    def _is_static(self, owner, fd):
        c = self.prog.classes.get(owner)
        return bool(c) and 'staticmethod' in c.decorators.get(fd.name, [])

    def _is_classmethod(self, owner, fd):
        c = self.prog.classes.get(owner)
        return bool(c) and 'classmethod' in c.decorators.get(fd.name, [])

    def bind_params(self, fd, given, module, owner, selfcls, use_defaults=(),
                    symbolic=False, pos=(), kws=()):
        """Bind parameters.  symbolic=True: unbound params become ('sym', p)."""
        a = fd.args
        names = [x.arg for x in a.posonlyargs + a.args]
        env = {}
        defaults = {}
        nd = len(a.defaults)
        for n, d in zip(names[len(names) - nd:], a.defaults):
            defaults[n] = d
        for k, d in zip(a.kwonlyargs, a.kw_defaults):
            if d is not None:
                defaults[k.arg] = d
        kwonly = [k.arg for k in a.kwonlyargs]
        pos = list(pos)
        for n in names:
            if n in given:
                env[n] = given[n]
        i = 0
        for n in names:
            if n in env:
                continue
            if i < len(pos):
                env[n] = pos[i]
                i += 1
        extra_pos = pos[i:]
        kws = dict(kws)
        for n in names + kwonly:
            if n in kws and n not in env:
                env[n] = kws.pop(n)
        dframe = Frame(module, owner, selfcls, None, 99, '<defaults>')
        for n in names + kwonly:
            if n in env:
                continue
            if n in defaults and (not symbolic or n in use_defaults
                                  or use_defaults == 'all'):
                env[n] = self.eval(defaults[n], {}, dframe, ())
            elif symbolic:
                env[n] = sym(n)
            else:
                env[n] = ('unk', 'missing-arg:' + n)
        if a.vararg:
            env[a.vararg.arg] = given.get(a.vararg.arg) or (
                ('tuple', tuple(extra_pos)) if not symbolic else
                sym('*' + a.vararg.arg))
        if a.kwarg:
            if a.kwarg.arg in given:
                env[a.kwarg.arg] = given[a.kwarg.arg]
            elif symbolic:
                env[a.kwarg.arg] = sym('**' + a.kwarg.arg)
            else:
                env[a.kwarg.arg] = ('dict', tuple(
                    (('const', k), v) for k, v in sorted(kws.items())))
        return env

    # ------------------------------------------------------------------
    # statements
    def exec_block(self, stmts, env, frame, cond):
        """Returns list of Outcome.  At most one 'fall' outcome (merged)."""
        outs = []
        cur = env
        for st in stmts:
            res = self.exec_stmt(st, cur, frame, cond)
            falls = [o for o in res if o.kind == 'fall']
            outs.extend(o for o in res if o.kind != 'fall')
            if not falls:
                return outs
            if len(falls) == 1:
                # the only way past this statement: what it assumed stays known
                # (after `if c: return ...` the rest of the block runs under not c)
                cur = falls[0].env
                if len(falls[0].cond) >= len(cond) and \
                        falls[0].cond[:len(cond)] == tuple(cond):
                    cond = falls[0].cond
            else:
                cur = self.merge(falls)
                common = self._common(falls)
                if len(common) >= len(cond) and common[:len(cond)] == tuple(cond):
                    cond = common
        outs.append(Outcome('fall', cur, None, cond))
        return outs

    def merge(self, falls):
        """Merge several fall-through outcomes into one env (phi nodes)."""
        base = falls[-1].env
        env = dict(base)
        for o in reversed(falls[:-1]):
            c = conj(o.cond[len(self._common(falls)):])
            for k in set(env) | set(o.env):
                a = o.env.get(k, ('unk', 'unbound:' + k))
                b = env.get(k, ('unk', 'unbound:' + k))
                if a != b:
                    env[k] = phi_node(c, a, b)
        return env

    @staticmethod
    def _common(falls):
        conds = [o.cond for o in falls]
        n = min(len(c) for c in conds)
        i = 0
        while i < n and all(c[i] == conds[0][i] for c in conds):
            i += 1
        return conds[0][:i]

    def exec_stmt(self, st, env, frame, cond):
        ev = lambda e: self.eval(e, env, frame, cond)
        if isinstance(st, ast.Expr):
            if isinstance(st.value, ast.Constant):
                return [Outcome('fall', env, None, cond)]
            env = dict(env)
            c = st.value
            if isinstance(c, ast.Call) and isinstance(c.func, ast.Name) and \
                    c.func.id == 'setattr' and 'setattr' not in env and \
                    len(c.args) == 3 and not c.keywords:
                # setattr(obj, <name that evaluates to a string constant>, v)
                # is the assignment obj.<name> = v
                nm = self.eval(c.args[1], env, frame, cond)
                if nm[0] == 'const' and isinstance(nm[1], str) and nm[1].isidentifier():
                    v = self.eval(c.args[2], env, frame, cond, stmt_env=env)
                    tgt = ast.copy_location(
                        ast.Attribute(c.args[0], nm[1], ast.Store()), c)
                    self.assign(tgt, v, env, frame, cond)
                    return [Outcome('fall', env, None, cond)]
            v = self.eval(st.value, env, frame, cond, stmt_env=env)
            return [Outcome('fall', env, None, cond)]
        if isinstance(st, ast.Assign):
            env = dict(env)
            v = self.eval(st.value, env, frame, cond, stmt_env=env)
            for t in st.targets:
                self.assign(t, v, env, frame, cond)
            self._record_alias(st, env, frame, cond)
            return [Outcome('fall', env, None, cond)]
        if isinstance(st, ast.AnnAssign):
            env = dict(env)
            if st.value is not None:
                self.assign(st.target, ev(st.value), env, frame, cond)
            return [Outcome('fall', env, None, cond)]
        if isinstance(st, ast.AugAssign):
            env = dict(env)
            cur = self.eval(self._load(st.target), env, frame, cond)
            rhs = self.eval(st.value, env, frame, cond, stmt_env=env)
            v = ('bin', BINOPS[type(st.op)], cur, rhs)
            self.effect('augassign', frame, st, cond, target=cur, value=rhs,
                        op=BINOPS[type(st.op)],
                        target_src=ast.unparse(st.target))
            self.assign(st.target, v, env, frame, cond, aug=True)
            return [Outcome('fall', env, None, cond)]
        if isinstance(st, ast.Return):
            env2 = dict(env)
            v = NONE if st.value is None else self.eval(
                st.value, env2, frame, cond, stmt_env=env2)
            return [Outcome('return', env2, v, cond, st.lineno)]
        if isinstance(st, ast.Assert):
            # assert c  ==  if not c: raise AssertionError
            c = self.eval(st.test, env, frame, cond, stmt_env=env)
            d = self.decide_in(c, cond)
            if d is True:
                return [Outcome('fall', env, None, cond)]
            exc = intern(('call', 'AssertionError', (), ()))
            pol = False
            while c[0] == 'un' and c[1] == 'not':
                c, pol = c[2], not pol
            if d is False:
                self.effect('raise', frame, st, cond, exc=exc)
                return [Outcome('raise', env, exc, cond, st.lineno)]
            self.effect('raise', frame, st, cond + ((c, pol),), exc=exc)
            return [Outcome('raise', env, exc, cond + ((c, pol),), st.lineno),
                    Outcome('fall', env, None, cond + ((c, not pol),))]
        if isinstance(st, ast.Raise):
            v = NONE if st.exc is None else ev(st.exc)
            self.effect('raise', frame, st, cond, exc=v)
            return [Outcome('raise', env, v, cond, st.lineno)]
        if isinstance(st, ast.Pass) or isinstance(st, (ast.Import, ast.ImportFrom,
                                                       ast.Global, ast.Nonlocal)):
            return [Outcome('fall', env, None, cond)]
        if isinstance(st, ast.If):
            return self.exec_if(st, env, frame, cond)
        if isinstance(st, ast.For):
            return self.exec_for(st, env, frame, cond)
        if isinstance(st, ast.While):
            return self.exec_while(st, env, frame, cond)
        if isinstance(st, ast.Break):
            return [Outcome('break', env, None, cond)]
        if isinstance(st, ast.Continue):
            return [Outcome('continue', env, None, cond)]
        if isinstance(st, ast.FunctionDef):
            env = dict(env)
            key = self.fresh()
            self.closures[key] = (st, env, frame)
            env[st.name] = ('closure', key)
            return [Outcome('fall', env, None, cond)]
        if isinstance(st, ast.ClassDef):
            env = dict(env)
            env[st.name] = ('unk', 'local-class')
            return [Outcome('fall', env, None, cond)]
        if isinstance(st, ast.With):
            env = dict(env)
            for item in st.items:
                v = self.eval(item.context_expr, env, frame, cond, stmt_env=env)
                if item.optional_vars is not None:
                    self.assign(item.optional_vars, ('call', '__enter__', (v,), ()),
                                env, frame, cond)
            return self.exec_block(st.body, env, frame, cond)
        if isinstance(st, ast.Try):
            return self.exec_try(st, env, frame, cond)
        if isinstance(st, ast.Assert):
            t = ev(st.test)
            self.effect('assert', frame, st, cond, test=t)
            return [Outcome('fall', env, None, cond)]
        if isinstance(st, ast.Delete):
            env = dict(env)
            for t in st.targets:
                tt = self.eval(self._load(t), env, frame, cond)
                bt = self.eval(self._load(t.value), env, frame, cond) \
                    if isinstance(t, (ast.Attribute, ast.Subscript)) else None
                self.effect('delete', frame, st, cond, target=tt, base=bt,
                            target_src=ast.unparse(t))
                if isinstance(t, ast.Name):
                    env.pop(t.id, None)
            return [Outcome('fall', env, None, cond)]
        self.warnings.append('unsupported statement %s at %s:%s' % (
            type(st).__name__, frame.module.relpath, st.lineno))
        return [Outcome('fall', env, None, cond)]

    @staticmethod
    def _load(target):
        t = ast.parse(ast.unparse(target), mode='eval').body
        ast.copy_location(t, target)
        for n in ast.walk(t):
            if not hasattr(n, 'lineno'):
                n.lineno = getattr(target, 'lineno', 0)
        return t

    def decide_cond(self, t):
        if t == TRUE:
            return True
        if t == FALSE or t == NONE:
            return False
        if is_num(t):
            return t[1] != 0
        if t[0] == 'const' and isinstance(t[1], str):
            return bool(t[1])
        if t[0] in ('list', 'tuple', 'dict') and isinstance(t[1], tuple):
            return len(t[1]) > 0
        if t[0] == 'un' and t[1] == 'not':
            d = self.decide_cond(t[2])
            return None if d is None else (not d)
        if t[0] == 'bool':
            ds = [self.decide_cond(x) for x in t[2]]
            if t[1] == 'and':
                if any(d is False for d in ds):
                    return False
                if all(d is True for d in ds):
                    return True
            else:
                if any(d is True for d in ds):
                    return True
                if all(d is False for d in ds):
                    return False
            return None
        if t[0] == 'cmp':
            op, a, b = t[1], t[2], t[3]
            if op in ('is', 'is not', '==', '!='):
                ka, kb = self._known_kind(a), self._known_kind(b)
                res = None
                if a == b and ka != 'unknown':
                    res = True
                elif ka != 'unknown' and kb != 'unknown':
                    if ka == 'lit' and kb == 'lit':
                        res = (a == b)
                    elif 'lit' in (ka, kb) and 'obj' in (ka, kb):
                        res = False
                if res is not None:
                    return res if op in ('is', '==') else (not res)
            if is_num(a) and is_num(b) and op in ('<', '<=', '>', '>='):
                return {'<': a[1] < b[1], '<=': a[1] <= b[1],
                        '>': a[1] > b[1], '>=': a[1] >= b[1]}[op]
        if self.decide is not None:
            return self.decide(t)
        return None

    def decide_in(self, t, cond):
        d = self.decide_cond(t)
        if d is not None:
            return d
        for c, pol in cond:
            if c is t or c == t:
                return pol
            if c[0] == 'un' and c[1] == 'not' and c[2] == t:
                return not pol
            if t[0] == 'un' and t[1] == 'not' and t[2] == c:
                return not pol
        return None

    @staticmethod
    def _known_kind(t):
        if t[0] in ('const', 'num'):
            return 'lit'
        if t[0] in ('list', 'tuple', 'dict', 'new', 'closure', 'classref',
                    'funcref'):
            return 'obj'
        return 'unknown'

    def exec_if(self, st, env, frame, cond):
        env = dict(env)
        c = self.eval(st.test, env, frame, cond, stmt_env=env)
        d = self.decide_in(c, cond)
        if d is True:
            return self.exec_block(st.body, env, frame, cond)
        if d is False:
            return self.exec_block(st.orelse, env, frame, cond)
        body, orelse = st.body, st.orelse
        while c[0] == 'un' and c[1] == 'not':
            # `if not c: A else: B` is analysed as `if c: B else: A`
            c = c[2]
            body, orelse = orelse, body
        a = self.exec_block(body, dict(env), frame, cond + ((c, True),))
        b = self.exec_block(orelse, dict(env), frame, cond + ((c, False),))
        outs = [o for o in a + b if o.kind != 'fall']
        falls = [o for o in a + b if o.kind == 'fall']
        if len(falls) == 2:
            fa, fb = falls
            merged = {}
            for k in set(fa.env) | set(fb.env):
                x = fa.env.get(k, ('unk', 'unbound:' + k))
                y = fb.env.get(k, ('unk', 'unbound:' + k))
                merged[k] = phi_node(c, x, y)
            if self.ALIAS in merged:
                # `if c: x = a  else: x = b` makes x a conditional alias
                ra, rb = self._alias_records(fa.env), self._alias_records(fb.env)
                recs = tuple(r for r in ra if r in rb)
                for r1 in ra:
                    for r2 in rb:
                        if r1 not in rb and r2 not in ra and r1[0] == r2[0] and \
                                r1[2] == '' and r2[2] == '' and r1[1] != r2[1]:
                            recs += ((r1[0], r1[1], r2[1], c),)
                merged[self.ALIAS] = intern(('aliasrec', recs))
            outs.append(Outcome('fall', merged, None, cond))
        elif len(falls) == 1:
            # the other branch left the function: no phi needed, but the
            # remaining code runs under the surviving branch's condition
            outs.append(Outcome('fall', falls[0].env, None, falls[0].cond))
        return outs

    def exec_try(self, st, env, frame, cond):
        outs = self.exec_block(st.body, dict(env), frame, cond)
        assigned = set()
        for s in st.body:
            for n in ast.walk(s):
                if isinstance(n, ast.Name) and isinstance(n.ctx, ast.Store):
                    assigned.add(n.id)
        henv0 = dict(env)
        for n in assigned:
            if n in env:
                henv0[n] = ('unk', 'assigned-in-try:' + n)
            else:
                henv0[n] = ('unk', 'unbound:' + n)
        tid = self.fresh()
        result = []
        falls = []
        for o in outs:
            if o.kind == 'fall':
                if st.orelse:
                    for o2 in self.exec_block(st.orelse, o.env, frame, o.cond):
                        (falls if o2.kind == 'fall' else result).append(o2)
                else:
                    falls.append(o)
            else:
                result.append(o)
        for h in st.handlers:
            henv = dict(henv0)
            et = NONE if h.type is None else self.eval(h.type, henv, frame, cond)
            hc = cond + ((('exc', et, tid), True),)
            if h.name:
                henv[h.name] = ('exc', et, tid)
            for o2 in self.exec_block(h.body, henv, frame, hc):
                (falls if o2.kind == 'fall' else result).append(o2)
        if st.finalbody:
            new_falls = []
            for o in falls:
                for o2 in self.exec_block(st.finalbody, o.env, frame, o.cond):
                    (new_falls if o2.kind == 'fall' else result).append(o2)
            falls = new_falls
        if falls:
            if len(falls) == 1:
                result.append(falls[0])
            else:
                env2 = self.merge_by_cond(falls, cond)
                result.append(Outcome('fall', env2, None, cond))
        return result

    def merge_by_cond(self, falls, cond):
        env = dict(falls[-1].env)
        n = len(cond)
        for o in reversed(falls[:-1]):
            c = conj(o.cond[n:])
            for k in set(env) | set(o.env):
                a = o.env.get(k, ('unk', 'unbound:' + k))
                b = env.get(k, ('unk', 'unbound:' + k))
                if a != b:
                    env[k] = phi_node(c, a, b)
        return env

    def iter_items(self, it):
        """Known finite item list of an iterable term, or None."""
        if it[0] in ('list', 'tuple', 'set'):
            return list(it[1])
        if it[0] == 'dict':
            return [k for k, v in it[1]]
        if it[0] == 'call' and it[1] == 'range' and all(is_num(a) for a in it[2]) \
                and not it[3]:
            vals = [int(a[1]) for a in it[2]]
            r = range(*vals)
            if len(r) <= MAX_UNROLL:
                return [num(i) for i in r]
        if it[0] == 'call' and it[1] == 'enumerate' and len(it[2]) == 1 and not it[3]:
            items = self.iter_items(it[2][0])
            if items is not None:
                return [('tuple', (num(i), x)) for i, x in enumerate(items)]
        if it[0] == 'call' and it[1] == 'zip' and not it[3]:
            lists = [self.iter_items(a) for a in it[2]]
            if lists and all(l is not None for l in lists):
                return [('tuple', tuple(xs)) for xs in zip(*lists)]
            known = [l for l in lists if l is not None]
            if known:
                # zip stops at the shortest: the known finite operands bound the
                # length; unknown operands contribute their i-th element
                n = min(len(l) for l in known)
                cols = []
                for a, l in zip(it[2], lists):
                    cols.append(l[:n] if l is not None else
                                [self.getitem_term(a, num(i)) for i in range(n)])
                return [('tuple', tuple(xs)) for xs in zip(*cols)]
        if it[0] == 'call' and it[1] == 'itertools.product' and it[2] and not it[3]:
            lists = [self.iter_items(a) for a in it[2]]
            if all(l is not None for l in lists):
                import itertools as _it
                n = 1
                for l in lists:
                    n *= len(l)
                if n <= MAX_UNROLL:
                    return [('tuple', tuple(xs)) for xs in _it.product(*lists)]
        if it[0] == 'call' and it[1] == 'reversed' and len(it[2]) == 1:
            items = self.iter_items(it[2][0])
            if items is not None:
                return list(reversed(items))
        if it[0] == 'call' and isinstance(it[1], tuple) and it[1][0] == 'attr' \
                and it[1][2] in ('items', 'keys', 'values') and it[1][1][0] == 'dict':
            d = it[1][1][1]
            if it[1][2] == 'items':
                return [('tuple', (k, v)) for k, v in d]
            if it[1][2] == 'keys':
                return [k for k, v in d]
            return [v for k, v in d]
        return None

    def exec_for(self, st, env, frame, cond):
        env = dict(env)
        it = self.eval(st.iter, env, frame, cond, stmt_env=env)
        items = self.iter_items(it)
        if items is not None and len(items) <= MAX_UNROLL:
            outs = []
            cur = env
            broke = []
            alive = True
            alias_names = None
            if isinstance(st.iter, (ast.List, ast.Tuple)) and \
                    isinstance(st.target, ast.Name) and \
                    all(isinstance(e, ast.Name) for e in st.iter.elts) and \
                    len(st.iter.elts) == len(items) and any(
                        isinstance(n, ast.AugAssign) and isinstance(n.target, ast.Name)
                        and n.target.id == st.target.id
                        for b in st.body for n in ast.walk(b)):
                # `for a in [x, y]: a *= c` updates the arrays x, y in place
                alias_names = [e.id for e in st.iter.elts]
            for ix, x in enumerate(items):
                cur = dict(cur)
                self.assign(st.target, x, cur, frame, cond)
                res = self.exec_block(st.body, cur, frame, cond)
                if alias_names is not None:
                    for o in res:
                        if o.kind in ('fall', 'continue') and st.target.id in o.env:
                            o.env[alias_names[ix]] = o.env[st.target.id]
                nxt = []
                for o in res:
                    if o.kind in ('fall', 'continue'):
                        nxt.append(Outcome('fall', o.env, None, o.cond))
                    elif o.kind == 'break':
                        broke.append(Outcome('fall', o.env, None, o.cond))
                    else:
                        outs.append(o)
                if not nxt:
                    alive = False
                    break
                cur = nxt[0].env if len(nxt) == 1 else self.merge_by_cond(nxt, cond)
            falls = list(broke)
            if alive:
                if st.orelse:
                    for o in self.exec_block(st.orelse, cur, frame, cond):
                        (falls if o.kind == 'fall' else outs).append(o)
                else:
                    falls.append(Outcome('fall', cur, None, cond))
            if falls:
                e = falls[0].env if len(falls) == 1 else self.merge_by_cond(falls, cond)
                outs.append(Outcome('fall', e, None, cond))
            return outs
        return self.summarise_loop(st, st.body, env, frame, cond, it)

    def exec_while(self, st, env, frame, cond):
        return self.summarise_loop(st, st.body, dict(env), frame, cond, None)

    def summarise_loop(self, st, body, env, frame, cond, it):
        """One symbolic iteration; assigned names become recurrence nodes."""
        lid = self.fresh()
        assigned = []
        for s in body:
            for n in ast.walk(s):
                if isinstance(n, ast.Name) and isinstance(n.ctx, ast.Store) \
                        and n.id not in assigned:
                    assigned.append(n.id)
                elif isinstance(n, (ast.Attribute, ast.Subscript)) and \
                        isinstance(n.ctx, ast.Store):
                    root = n
                    while isinstance(root, (ast.Attribute, ast.Subscript)):
                        root = root.value
                    if isinstance(root, ast.Name) and root.id not in assigned:
                        assigned.append(root.id)
                elif isinstance(n, ast.Call) and isinstance(n.func, ast.Attribute) \
                        and n.func.attr in MUTATORS:
                    root = n.func.value
                    while isinstance(root, (ast.Attribute, ast.Subscript)):
                        root = root.value
                    if isinstance(root, ast.Name) and root.id not in assigned:
                        assigned.append(root.id)
        # a store through a name bound in the body to other local names
        # (`x = a`, `x = a if c else b`) is a store into those objects
        sources = {}
        for s in body:
            for n in ast.walk(s):
                if isinstance(n, ast.Assign) and len(n.targets) == 1 and \
                        isinstance(n.targets[0], ast.Name):
                    v = n.value
                    vs = [v] if isinstance(v, ast.Name) else (
                        [v.body, v.orelse] if isinstance(v, ast.IfExp) else [])
                    if vs and all(isinstance(y, ast.Name) for y in vs):
                        sources.setdefault(n.targets[0].id, []).extend(y.id for y in vs)
        work = list(assigned)
        seen = set(work)
        while work:
            n = work.pop()
            for y in sources.get(n, ()):
                if y not in seen:
                    seen.add(y)
                    work.append(y)
                    if y in env and y not in assigned:
                        assigned.append(y)
        benv = dict(env)
        for n in assigned:
            if n in env:
                benv[n] = intern(('phi', n, lid))
        if it is not None:
            self.assign(st.target, intern(('elem', it, lid)), benv, frame, cond)
            lc = (('loop-iter', lid), True)
        else:
            tc = self.eval(st.test, benv, frame, cond)
            lc = (tc, True)
        res = self.exec_block(body, benv, frame, cond + (lc,))
        outs = []
        falls = []
        for o in res:
            if o.kind in ('fall', 'continue', 'break'):
                falls.append(Outcome('fall', o.env, None, o.cond))
            else:
                outs.append(o)
        out_env = dict(env)
        summary = dict(func=frame.qual, lineno=st.lineno, vars={},
                       cond=None if it is not None else lc[0], iter=it)
        self.loops[lid] = summary
        if falls:
            benv2 = falls[0].env if len(falls) == 1 else \
                self.merge_by_cond(falls, cond + (lc,))
            for n in assigned:
                summary['vars'][n] = (env.get(n), benv2.get(n))
            for n in assigned:
                step = benv2.get(n, ('unk', 'unbound:' + n))
                init = env.get(n, ('unk', 'unbound:' + n))
                extra = (it,) if it is not None else (lc[0],)
                out_env[n] = intern(('loop', n, lid, init, step) + extra)
        if st.orelse:
            for o in self.exec_block(st.orelse, out_env, frame, cond):
                if o.kind == 'fall':
                    out_env = o.env
                else:
                    outs.append(o)
        outs.append(Outcome('fall', out_env, None, cond))
        return outs

    # ------------------------------------------------------------------
    # assignment
    def assign(self, target, v, env, frame, cond, aug=False):
        v = intern(v)
        if isinstance(target, ast.Name):
            env[target.id] = v
            self._drop_alias(target.id, env)
            return
        if isinstance(target, (ast.Tuple, ast.List)):
            n = len(target.elts)
            items = None
            if v[0] in ('tuple', 'list') and len(v[1]) == n and not any(
                    isinstance(e, ast.Starred) for e in target.elts):
                items = v[1]
            for i, e in enumerate(target.elts):
                if isinstance(e, ast.Starred):
                    self.assign(e.value, ('unk', 'starred'), env, frame, cond)
                else:
                    x = items[i] if items is not None else self.getitem_term(v, num(i))
                    self.assign(e, x, env, frame, cond)
            return
        if isinstance(target, (ast.Attribute, ast.Subscript)):
            base_t = self.eval(self._load(target.value), env, frame, cond)
            if isinstance(target, ast.Attribute):
                if target.attr == 'attrs' and not aug:
                    # xarray's attrs setter stores dict(value): a new dict
                    v = intern(('copy', 'shallow', v))
                new = intern(('upd', base_t, 'attr', target.attr, v))
                if not aug:
                    self.effect('setattr', frame, target, cond, base=base_t,
                                attr=target.attr, value=v,
                                target_src=ast.unparse(target))
            else:
                key = self.eval_slice(target.slice, env, frame, cond)
                new = intern(('upd', base_t, 'item', key, v))
                if not aug:
                    self.effect('setitem', frame, target, cond, base=base_t,
                                key=key, value=v,
                                target_src=ast.unparse(target))
            self._store_back(target.value, new, env, frame, cond)
            return
        if isinstance(target, ast.Starred):
            self.assign(target.value, v, env, frame, cond)
            return
        self.warnings.append('unsupported target %s' % ast.dump(target)[:60])

    def _store_back(self, node, newval, env, frame, cond):
        """After base.x = v, rebind the root name to the updated object."""
        if isinstance(node, ast.Name):
            self._store_through_aliases(node.id, newval, env)
            env[node.id] = newval
        elif isinstance(node, ast.Attribute):
            b = self.eval(self._load(node.value), env, frame, cond)
            self._store_back(node.value, intern(('upd', b, 'attr', node.attr, newval)),
                             env, frame, cond)
        elif isinstance(node, ast.Subscript):
            b = self.eval(self._load(node.value), env, frame, cond)
            key = self.eval_slice(node.slice, env, frame, cond)
            self._store_back(node.value, intern(('upd', b, 'item', key, newval)),
                             env, frame, cond)
        # calls etc: value is a temporary, nothing to rebind

    # ------------------------------------------------------------------
    # local aliases: `x = a` and `x = a if c else b` (a, b local names) make x
    # another name of the same object; a store through one name is a store
    # into the object the other names denote.  The record lives in the path's
    # environment; it is used only while the values it relates are still the
    # terms they were when it was made (any rebinding or merge drops it).
    ALIAS = '$alias'

    def _alias_records(self, env):
        r = env.get(self.ALIAS)
        if r is None or r[0] != 'aliasrec':
            return ()
        return r[1]

    def _drop_alias(self, name, env):
        recs = self._alias_records(env)
        if recs:
            keep = tuple(r for r in recs if name not in (r[0], r[1], r[2]))
            if len(keep) != len(recs):
                env[self.ALIAS] = intern(('aliasrec', keep))

    def _record_alias(self, st, env, frame, cond):
        if len(st.targets) != 1 or not isinstance(st.targets[0], ast.Name):
            return
        x = st.targets[0].id
        v = st.value
        rec = None
        more = ()
        if isinstance(v, ast.Name) and v.id in env and v.id != x:
            rec = (x, v.id, '', NONE)
            # ... and of whatever that name is an alias of
            more = tuple((x, r[1], r[2], r[3]) for r in self._alias_records(env)
                         if r[0] == v.id and r[2] != '' and x not in (r[1], r[2]))
        elif isinstance(v, ast.IfExp) and isinstance(v.body, ast.Name) and \
                isinstance(v.orelse, ast.Name) and v.body.id in env and \
                v.orelse.id in env and x not in (v.body.id, v.orelse.id) and \
                v.body.id != v.orelse.id:
            c = self.eval(v.test, env, frame, cond)
            A, B = env[v.body.id], env[v.orelse.id]
            if env[x] == (A if A == B else intern(('ite', c, A, B))):
                rec = (x, v.body.id, v.orelse.id, c)
        if rec is not None:
            env[self.ALIAS] = intern(('aliasrec', self._alias_records(env) + (rec,) + more))

    def _store_through_aliases(self, name, newval, env):
        from .logic import resolve
        for x, a, b, c in self._alias_records(env):
            if b == '':
                # x and a are one object
                if name in (x, a) and env.get(x) == env.get(a):
                    env[a if name == x else x] = newval
                continue
            if name != x or a not in env or b not in env:
                continue
            yes = lambda t, c=c: True if t == c else None
            no = lambda t, c=c: False if t == c else None
            if resolve(env[x], yes) != resolve(env[a], yes) or \
                    resolve(env[x], no) != resolve(env[b], no):
                continue
            env[a] = intern(('ite', c, resolve(newval, yes), env[a]))
            env[b] = intern(('ite', c, env[b], resolve(newval, no)))

    # ------------------------------------------------------------------
    # expressions
    def eval_slice(self, s, env, frame, cond):
        if isinstance(s, ast.Slice):
            lower = NONE if s.lower is None else self.eval(s.lower, env, frame, cond)
            step = NONE if s.step is None else self.eval(s.step, env, frame, cond)
            # a[0:n] is a[:n] and a[i:j:1] is a[i:j]: one spelling
            if lower == num(0) and step in (NONE, num(1)):
                lower = NONE
            if step == num(1):
                step = NONE
            return ('slice', lower,
                    NONE if s.upper is None else self.eval(s.upper, env, frame, cond),
                    step)
        if isinstance(s, ast.Tuple):
            return ('tuple', tuple(self.eval_slice(e, env, frame, cond)
                                   for e in s.elts))
        return self.eval(s, env, frame, cond)

    def eval(self, e, env, frame, cond, stmt_env=None):
        m = getattr(self, 'e_' + type(e).__name__, None)
        if m is None:
            return intern(('unk', 'expr:' + type(e).__name__))
        return intern(m(e, env, frame, cond))

    def e_Constant(self, e, env, frame, cond):
        v = e.value
        if isinstance(v, bool) or v is None or isinstance(v, (str, bytes)) \
                or v is Ellipsis:
            return ('const', v)
        if isinstance(v, complex):
            if v.real == 0:
                im = num(v.imag)
                return ('I',) if im == num(1) else ('bin', '*', im, ('I',))
            return ('bin', '+', num(v.real), ('bin', '*', num(v.imag), ('I',)))
        return num(v)

    def e_Name(self, e, env, frame, cond):
        if e.id in env:
            return env[e.id]
        return self.global_name(e.id, frame)

    def global_name(self, name, frame, _depth=0):
        r = self.prog.resolve_name(frame.module.name, name)
        return self.entity(r, _depth)

    def entity(self, r, _depth=0):
        k = r[0]
        if k == 'class':
            return ('classref', r[1])
        if k == 'func':
            return ('funcref', r[1])
        if k == 'module':
            if r[1].split('.')[0] == 'holopy':
                return ('modref', r[1])
            return ('extref', r[1])
        if k == 'value':
            m = self.prog.modules[r[1]]
            node = m.assigns[r[2]]
            if r[2] in m.multi:
                return ('global', r[1] + '.' + r[2])
            if _depth > 4:
                return ('global', r[1] + '.' + r[2])
            if not self.module_values and isinstance(node, (
                    ast.Dict, ast.List, ast.Set, ast.ListComp, ast.DictComp,
                    ast.SetComp, ast.Call)):
                return ('global', r[1] + '.' + r[2])
            f = Frame(m, None, None, None, 50, '<module %s>' % r[1])
            v = self.eval(node, {}, f, ())
            if any(x[0] == 'unk' for x in _sub(v)):
                return ('global', r[1] + '.' + r[2])
            return v
        if k == 'external':
            parts = r[1].split('.')
            parts[0] = ALIASES.get(parts[0], parts[0])
            return ('extref', '.'.join(parts))
        return ('unk', 'name:' + str(r))

    def e_Attribute(self, e, env, frame, cond):
        base = self.eval(e.value, env, frame, cond)
        return self.getattr_term(base, e.attr, frame, cond)

    def class_of(self, t):
        if t in self.types:
            return self.types[t]
        if t[0] == 'new':
            return t[1]
        if t[0] == 'upd':
            return self.class_of(t[1])
        if t[0] == 'copy':
            return self.class_of(t[2])
        if t[0] == 'ite':
            a, b = self.class_of(t[2]), self.class_of(t[3])
            return a if a == b else None
        return None

    def getattr_term(self, base, name, frame, cond, depth=None):
        # see through functional updates: the receiver stays `base`
        root = base
        while root[0] in ('upd', 'copy'):
            if root[0] == 'copy':
                root = root[2]
                continue
            if root[2] == 'attr' and root[3] == name:
                return root[4]
            if root[2] == 'item' and name in CONTENT_ATTRS:
                # x[k] = v changes what x.values / x.T / ... hold: keep the
                # stores in the receiver
                return ('attr', base, name)
            root = root[1]
        k = root[0]
        if k == 'modref':
            sub = root[1] + '.' + name
            if sub in self.prog.modules:
                return ('modref', sub)
            if root[1] in self.prog.modules:
                return self.entity(self.prog.resolve_name(root[1], name))
            return ('extref', sub)
        if k == 'extref':
            return ('extref', root[1] + '.' + name)
        if k == 'classref':
            hit = self.prog.lookup(root[1], name) if root[1] in self.prog.classes \
                else None
            if hit:
                kind, owner, node = hit
                if kind == 'method':
                    c = self.prog.classes[owner]
                    decos = c.decorators.get(name, [])
                    if 'classmethod' in decos:
                        return ('method', owner, name, root)
                    return ('funcref', owner + '.' + name)
                if kind == 'classattr':
                    return self.eval_classattr(owner, node)
            return ('attr', root, name)
        if k == 'ite':
            a = self.getattr_term(root[2], name, frame, cond)
            b = self.getattr_term(root[3], name, frame, cond)
            return a if a == b else ('ite', root[1], a, b)
        cq = self.class_of(root)
        if cq is not None and cq in self.prog.classes:
            if root[0] == 'new' and self.inline_new:
                fields = self.instance_fields(root, frame)
                if fields is not None and name in fields:
                    return fields[name]
            hit = self.prog.lookup(cq, name)
            if hit:
                kind, owner, node = hit
                if kind == 'method':
                    c = self.prog.classes[owner]
                    decos = c.decorators.get(name, [])
                    if 'staticmethod' in decos:
                        return ('funcref', owner + '.' + name)
                    if 'classmethod' in decos:
                        return ('method', owner, name, ('classref', cq))
                    return ('method', owner, name, base)
                if kind == 'property':
                    g = node['getter']
                    if g is not None and (frame.depth < self.max_depth) and \
                            (owner + '.' + name) not in self.opaque and \
                            (owner + '.' + name) not in self.stack:
                        return self.inline(owner + '.' + name, g, owner, cq,
                                           [base], {}, frame, cond)
                    return ('attr', base, name)
                if kind == 'classattr':
                    return self.eval_classattr(owner, node)
        return ('attr', root, name)

    def eval_classattr(self, owner, node):
        m = self.prog.classes[owner].module
        f = Frame(m, owner, owner, None, 50, '<class %s>' % owner)
        return self.eval(node, {}, f, ())

    def instance_fields(self, new_t, frame):
        """Attributes set by __init__ of a ('new', cls, args, kwargs) term."""
        if new_t in self._fields_cache:
            return self._fields_cache[new_t]
        self._fields_cache[new_t] = None
        cq = new_t[1]
        hit = self.prog.lookup(cq, '__init__')
        if not hit or hit[0] != 'method' or len(self.stack) > self.max_depth:
            return None
        _, owner, fd = hit
        sub = Interp(self.prog, types=self.types, max_depth=self.max_depth,
                     opaque=self.opaque, decide=self.decide)
        sub.stack = list(self.stack) + ['<new %s>' % cq]
        sub._fields_cache = self._fields_cache
        selfsym = ('sym', '<self:%s>' % cq)
        sub.types[selfsym] = cq
        module = self.prog.classes[owner].module
        try:
            env = sub.bind_params(fd, {fd.args.args[0].arg: selfsym}, module,
                                  owner, cq, pos=new_t[2], kws=new_t[3])
            fr = Frame(module, owner, cq, fd.args.args[0].arg, frame.depth + 1,
                       owner + '.__init__')
            outs = sub.exec_block(fd.body, env, fr, ())
        except RecursionError:
            return None
        falls = [o for o in outs if o.kind in ('fall', 'return')]
        if len(falls) != 1:
            # several normal exits: merge
            if not falls:
                return None
            e = sub.merge_by_cond(falls, ())
        else:
            e = falls[0].env
        obj = e.get(fd.args.args[0].arg)
        fields = {}
        while obj is not None and obj[0] == 'upd':
            if obj[2] == 'attr' and obj[3] not in fields:
                fields[obj[3]] = obj[4]
            obj = obj[1]
        self._fields_cache[new_t] = fields
        return fields

    def e_Subscript(self, e, env, frame, cond):
        base = self.eval(e.value, env, frame, cond)
        key = self.eval_slice(e.slice, env, frame, cond)
        return self.getitem_term(base, key)

    @staticmethod
    def _disjoint_keys(k1, k2):
        if k1[0] in ('const', 'num') and k2[0] in ('const', 'num'):
            return k1 != k2
        if k1[0] == 'tuple' and k2[0] == 'tuple' and k1[1] and k2[1]:
            a, b = k1[1][0], k2[1][0]
            if a[0] in ('const', 'num') and b[0] in ('const', 'num'):
                return a != b
        if k1[0] in ('bin', 'elem', 'sym', 'num', 'idx') and \
                k2[0] in ('bin', 'elem', 'sym', 'num', 'idx') and k1 != k2:
            # symbolic indices that differ by a non-zero constant (n vs n - 1)
            from .poly import Canon
            try:
                r = Canon().rat(('bin', '-', k1, k2))
            except Exception:
                return False
            return r.is_const() and r.const() != 0
        return False

    def getitem_term(self, base, key):
        if base[0] in ('tuple', 'list') and is_num(key) and key[1].denominator == 1:
            i = int(key[1])
            if -len(base[1]) <= i < len(base[1]):
                return base[1][i]
        if base[0] in ('tuple', 'list') and key[0] == 'slice' and all(
                x == NONE or (is_num(x) and x[1].denominator == 1) for x in key[1:]):
            sl = slice(*[None if x == NONE else int(x[1]) for x in key[1:]])
            return (base[0], tuple(base[1][sl]))
        if base[0] == 'call' and base[1] == 'numpy.repeat' and len(base[2]) == 2 and \
                not base[3] and is_num(base[2][1]) and is_num(key) and \
                key[1].denominator == 1 and base[2][1][1] > 0 and key[1] >= 0:
            # np.repeat(a, k)[j] == a[j // k] for a 1-D array a
            return self.getitem_term(base[2][0],
                                     num(int(key[1]) // int(base[2][1][1])))
        if base[0] == 'elem' and base[1][0] == 'call' and base[1][1] == 'zip' and \
                not base[1][3] and is_num(key) and key[1].denominator == 1 and \
                0 <= int(key[1]) < len(base[1][2]):
            return intern(('elem', base[1][2][int(key[1])], base[2]))
        if base[0] == 'elem' and base[1][0] == 'call' and base[1][1] == 'enumerate' \
                and len(base[1][2]) == 1 and key == num(1) and not base[1][3]:
            return intern(('elem', base[1][2][0], base[2]))
        if base[0] == 'elem' and base[1][0] == 'call' and base[1][1] == 'enumerate' \
                and base[1][2] and is_num(key) and key[1] in (0, 1):
            # enumerate(x, start): the count is the zero-based position + start
            args, kws = base[1][2], dict(base[1][3])
            start = args[1] if len(args) == 2 else kws.get('start')
            if start is not None and len(args) <= 2 and set(kws) <= {'start'}:
                plain = intern(('elem', ('call', 'enumerate', (args[0],), ()), base[2]))
                if key == num(1):
                    return intern(('elem', args[0], base[2]))
                return intern(('bin', '+', ('idx', plain, num(0)), start))
        if base[0] == 'call' and base[1] in ('numpy.array', 'numpy.asarray') and \
                len(base[2]) == 1 and base[2][0][0] in ('list', 'tuple') and \
                is_num(key) and key[1].denominator == 1:
            items = base[2][0][1]
            i = int(key[1])
            if -len(items) <= i < len(items):
                return items[i]
        if base[0] == 'ite' and is_num(key) and key[1].denominator == 1:
            # a join of literal tuples (a helper returning (a, b) on each path):
            # the position is taken per branch
            def leaves(t):
                if t[0] == 'ite':
                    return leaves(t[2]) + leaves(t[3])
                return [t]
            i = int(key[1])
            if all(x[0] in ('tuple', 'list') and -len(x[1]) <= i < len(x[1])
                   for x in leaves(base)):
                def push(t):
                    if t[0] == 'ite':
                        a, b = push(t[2]), push(t[3])
                        return a if a == b else intern(('ite', t[1], a, b))
                    return t[1][i]
                return push(base)
        if base[0] == 'dict' and key[0] in ('const', 'num'):
            for k, v in base[1]:
                if k == key:
                    return v
        if base[0] == 'upd' and base[2] == 'item':
            if base[3] == key:
                return base[4]
            if self._disjoint_keys(base[3], key):
                return self.getitem_term(base[1], key)
        return ('idx', base, key)

    def e_BinOp(self, e, env, frame, cond):
        a = self.eval(e.left, env, frame, cond)
        b = self.eval(e.right, env, frame, cond)
        op = BINOPS[type(e.op)]
        if op == '+' and a[0] == b[0] and a[0] in ('list', 'tuple'):
            return (a[0], a[1] + b[1])
        if op == '+' and a[0] == 'const' and b[0] == 'const' and \
                isinstance(a[1], str) and isinstance(b[1], str):
            return ('const', a[1] + b[1])
        if op == '*' and a[0] == 'list' and is_num(b) and b[1].denominator == 1 \
                and 0 <= b[1] <= 8:
            return ('list', a[1] * int(b[1]))
        return ('bin', op, a, b)

    def e_UnaryOp(self, e, env, frame, cond):
        a = self.eval(e.operand, env, frame, cond)
        op = UNOPS[type(e.op)]
        if op == 'not':
            d = self.decide_cond(a)
            if d is not None:
                return FALSE if d else TRUE
        if op == '-' and is_num(a):
            return num(-a[1])
        return ('un', op, a)

    def e_BoolOp(self, e, env, frame, cond):
        items = tuple(self.eval(v, env, frame, cond) for v in e.values)
        op = 'and' if isinstance(e.op, ast.And) else 'or'
        t = ('bool', op, items)
        d = self.decide_cond(t)
        if d is not None and all(self.decide_cond(x) is not None for x in items):
            # python returns an operand, but every use here is boolean
            return TRUE if d else FALSE
        return t

    def e_Compare(self, e, env, frame, cond):
        left = self.eval(e.left, env, frame, cond)
        parts = []
        for op, r in zip(e.ops, e.comparators):
            right = self.eval(r, env, frame, cond)
            o = CMPOPS[type(op)]
            parts.append(norm_cmp(o, left, right))
            left = right
        t = parts[0] if len(parts) == 1 else ('bool', 'and', tuple(parts))
        d = self.decide_cond(t) if self.decide is None else None
        if d is not None:
            return TRUE if d else FALSE
        return t

    def e_IfExp(self, e, env, frame, cond):
        c = self.eval(e.test, env, frame, cond)
        d = self.decide_in(c, cond)
        if d is True:
            return self.eval(e.body, env, frame, cond)
        if d is False:
            return self.eval(e.orelse, env, frame, cond)
        eb, eo = e.body, e.orelse
        while c[0] == 'un' and c[1] == 'not':
            c = c[2]
            eb, eo = eo, eb
        a = self.eval(eb, env, frame, cond + ((c, True),))
        b = self.eval(eo, env, frame, cond + ((c, False),))
        return a if a == b else ('ite', c, a, b)

    def e_Tuple(self, e, env, frame, cond):
        return ('tuple', self._elts(e.elts, env, frame, cond))

    def e_List(self, e, env, frame, cond):
        return ('list', self._elts(e.elts, env, frame, cond))

    def e_Set(self, e, env, frame, cond):
        return ('set', self._elts(e.elts, env, frame, cond))

    def _elts(self, elts, env, frame, cond):
        out = []
        for x in elts:
            if isinstance(x, ast.Starred):
                v = self.eval(x.value, env, frame, cond)
                items = self.iter_items(v)
                if items is not None:
                    out.extend(items)
                else:
                    out.append(('star', v))
            else:
                out.append(self.eval(x, env, frame, cond))
        return tuple(out)

    def e_Dict(self, e, env, frame, cond):
        items = []
        for k, v in zip(e.keys, e.values):
            vv = self.eval(v, env, frame, cond)
            if k is None:
                if vv[0] == 'dict':
                    items.extend(vv[1])
                else:
                    items.append((('const', '**'), vv))
            else:
                items.append((self.eval(k, env, frame, cond), vv))
        return ('dict', tuple(items))

    def e_JoinedStr(self, e, env, frame, cond):
        parts = []
        for v in e.values:
            if isinstance(v, ast.Constant):
                parts.append(('const', v.value))
            else:
                parts.append(self.eval(v.value, env, frame, cond))
        return ('fstr', tuple(parts))

    def e_FormattedValue(self, e, env, frame, cond):
        return self.eval(e.value, env, frame, cond)

    def e_Starred(self, e, env, frame, cond):
        return ('star', self.eval(e.value, env, frame, cond))

    def e_NamedExpr(self, e, env, frame, cond):
        v = self.eval(e.value, env, frame, cond)
        env[e.target.id] = v
        return v

    def e_Slice(self, e, env, frame, cond):
        return self.eval_slice(e, env, frame, cond)

    def e_Yield(self, e, env, frame, cond):
        v = NONE if e.value is None else self.eval(e.value, env, frame, cond)
        self.effect('yield', frame, e, cond, value=v)
        return NONE

    def e_YieldFrom(self, e, env, frame, cond):
        v = self.eval(e.value, env, frame, cond)
        self.effect('yield-from', frame, e, cond, value=v)
        return NONE

    def e_Lambda(self, e, env, frame, cond):
        key = self.fresh()
        self.closures[key] = (e, dict(env), frame)
        return ('closure', key)

    def _comp(self, kind, e, elt_nodes, env, frame, cond):
        gens = e.generators
        # try full unrolling when every iterable is a known finite list

        def rec(i, env2):
            if i == len(gens):
                if kind == 'dict':
                    return [(self.eval(elt_nodes[0], env2, frame, cond),
                             self.eval(elt_nodes[1], env2, frame, cond))]
                return [self.eval(elt_nodes[0], env2, frame, cond)]
            g = gens[i]
            it = self.eval(g.iter, env2, frame, cond)
            items = self.iter_items(it)
            if items is None or len(items) > MAX_UNROLL:
                raise _NoUnroll()
            out = []
            for x in items:
                e3 = dict(env2)
                self.assign(g.target, x, e3, frame, cond)
                keep = True
                for c in g.ifs:
                    d = self.decide_cond(self.eval(c, e3, frame, cond))
                    if d is None:
                        raise _NoUnroll()
                    if not d:
                        keep = False
                        break
                if keep:
                    out.extend(rec(i + 1, e3))
            return out
        neff, ncalls = len(self.effects), len(self.calls)
        try:
            items = rec(0, dict(env))
            if kind == 'dict':
                return ('dict', tuple(items))
            return ('list' if kind in ('list', 'gen') else kind, tuple(items))
        except _NoUnroll:
            del self.effects[neff:]
            del self.calls[ncalls:]
        cid = self.fresh()
        env2 = dict(env)
        gl = []
        for g in gens:
            it = self.eval(g.iter, env2, frame, cond)
            self.assign(g.target, ('elem', it, cid), env2, frame, cond)
            conds = tuple(self.eval(c, env2, frame, cond) for c in g.ifs)
            gl.append((('elem', it, cid), it, conds))
        if kind == 'dict':
            elt = ('tuple', (self.eval(elt_nodes[0], env2, frame, cond),
                             self.eval(elt_nodes[1], env2, frame, cond)))
        else:
            elt = self.eval(elt_nodes[0], env2, frame, cond)
        return ('comp', kind, elt, tuple(gl))

    def e_ListComp(self, e, env, frame, cond):
        return self._comp('list', e, [e.elt], env, frame, cond)

    def e_GeneratorExp(self, e, env, frame, cond):
        return self._comp('gen', e, [e.elt], env, frame, cond)

    def e_SetComp(self, e, env, frame, cond):
        return self._comp('set', e, [e.elt], env, frame, cond)

    def e_DictComp(self, e, env, frame, cond):
        return self._comp('dict', e, [e.key, e.value], env, frame, cond)

    # ------------------------------------------------------------------
    # calls
    def e_Call(self, e, env, frame, cond):
        # super()
        f = e.func
        pos = []
        pos_nodes = []
        for a in e.args:
            v = self.eval(a, env, frame, cond)
            if isinstance(a, ast.Starred):
                inner = v[1] if v[0] == 'star' else v
                items = self.iter_items(inner)
                if items is not None:
                    pos.extend(items)
                    pos_nodes.extend([None] * len(items))
                else:
                    pos.append(('star', inner))
                    pos_nodes.append(None)
            else:
                pos.append(v)
                pos_nodes.append(a)
        kws = {}
        kw_nodes = {}
        star_kw = []
        for k in e.keywords:
            v = self.eval(k.value, env, frame, cond)
            if k.arg is not None:
                kw_nodes[k.arg] = k.value
            if k.arg is None:
                if v[0] == 'dict' and all(kk[0] == 'const' and isinstance(kk[1], str)
                                          for kk, _ in v[1]):
                    for kk, vv in v[1]:
                        kws[kk[1]] = vv
                else:
                    star_kw.append(v)
            else:
                kws[k.arg] = v
        if star_kw:
            kws['**'] = star_kw[0] if len(star_kw) == 1 else ('tuple', tuple(star_kw))
        if isinstance(f, ast.Attribute) and isinstance(f.value, ast.Call) and \
                isinstance(f.value.func, ast.Name) and f.value.func.id == 'super' \
                and frame.owner is not None:
            hit = self.prog.lookup(frame.selfcls or frame.owner, f.attr,
                                   after=frame.owner) \
                if frame.owner in self.prog.mro(frame.selfcls or frame.owner) \
                else self.prog.lookup(frame.owner, f.attr, after=frame.owner)
            selft = env.get(frame.selfname, sym('self')) if frame.selfname \
                else sym('self')
            if hit and hit[0] == 'method':
                ft = ('method', hit[1], f.attr, selft)
            else:
                ft = ('attr', ('call', 'super', (), ()), f.attr)
            recv = ast.Name(id=frame.selfname, ctx=ast.Load(),
                            lineno=e.lineno) if frame.selfname else None
        else:
            ft = self.eval(f, env, frame, cond)
            recv = f.value if isinstance(f, ast.Attribute) else None
            if ft[0] == 'attr' and isinstance(f, ast.Attribute):
                # an opaque method is called on the receiver *as it is now*:
                # attribute stores made so far stay visible in the call term
                full = self.eval(f.value, env, frame, cond)
                if full[0] == 'upd' and full[2] == 'attr' and full != ft[1] and \
                        ft[2] == f.attr:
                    ft = intern(('attr', full, f.attr))
                elif full[0] in ('upd', 'mut') and full != ft[1] and \
                        ft[2] == f.attr and (f.attr in MUTATORS or
                                             f.attr in CONTENT_METHODS):
                    # a mutating method acts on the container with the items
                    # stored so far (d['m'] = ...; d.pop('y') keeps 'm')
                    ft = intern(('attr', full, f.attr))
        return self.apply(ft, pos, kws, frame, cond, e, env,
                          wb=(recv, pos_nodes, kw_nodes))

    def record_call(self, name, pos, kws, frame, node, cond):
        self.calls.append(dict(name=name, args=tuple(pos),
                               kwargs=tuple(sorted(kws.items())),
                               func=frame.qual, module=frame.module.relpath,
                               lineno=getattr(node, 'lineno', 0), cond=cond))

    def apply(self, ft, pos, kws, frame, cond, node=None, env=None, wb=None):
        k = ft[0]
        if k == 'funcref':
            qual = ft[1]
            pos, kws, wb = self._bind_leading(qual, pos, kws, 0, wb)
            self.record_call(qual, pos, kws, frame, node, cond)
            if self._can_inline(qual, frame, pos, kws):
                fd = self.prog.func(qual)
                owner = qual.rpartition('.')[0]
                owner = owner if owner in self.prog.classes else None
                return self.inline(qual, fd, owner, owner, pos, kws, frame, cond,
                                   wb=wb and (None, wb[1], wb[2]), cenv=env)
            return ('call', qual, tuple(pos), tuple(sorted(kws.items())))
        if k == 'method':
            _, owner, name, selft = ft
            qual = owner + '.' + name
            pos, kws, wb = self._bind_leading(qual, pos, kws, 1, wb)
            self.record_call(qual, [selft] + list(pos), kws, frame, node, cond)
            if self._can_inline(qual, frame, pos, kws):
                fd = self.prog.classes[owner].methods[name]
                selfcls = self.class_of(selft) or (
                    selft[1] if selft[0] == 'classref' else owner)
                return self.inline(qual, fd, owner, selfcls, [selft] + list(pos),
                                   kws, frame, cond,
                                   wb=wb and (None, [wb[0]] + list(wb[1]), wb[2]),
                                   cenv=env)
            return ('call', ('attr', selft, name), tuple(pos),
                    tuple(sorted(kws.items())))
        if k == 'classref':
            cq = ft[1]
            self.record_call(cq, pos, kws, frame, node, cond)
            hit = self.prog.lookup(cq, '__init__') if cq in self.prog.classes else None
            if hit and hit[0] == 'method' and '**' not in kws and not any(
                    p[0] == 'star' for p in pos):
                fd = hit[2]
                names = [a.arg for a in fd.args.args][1:]
                if len(pos) <= len(names) or fd.args.vararg:
                    kw2 = dict(kws)
                    rest = []
                    for i, p in enumerate(pos):
                        if i < len(names):
                            kw2[names[i]] = p
                        else:
                            rest.append(p)
                    return ('new', cq, tuple(rest), tuple(sorted(kw2.items())))
            return ('new', cq, tuple(pos), tuple(sorted(kws.items())))
        if k == 'closure':
            node_c, cenv, cframe = self.closures[ft[1]]
            self.record_call('<closure>', pos, kws, frame, node, cond)
            if frame.depth < self.max_depth:
                return self.inline_closure(node_c, cenv, cframe, pos, kws, frame, cond)
            return ('call', ft, tuple(pos), tuple(sorted(kws.items())))
        if k == 'extref':
            name = ft[1]
            self.record_call(name, pos, kws, frame, node, cond)
            if name == 'numexpr.evaluate' and len(pos) == 1 and not kws and \
                    pos[0][0] == 'const' and isinstance(pos[0][1], str) and \
                    env is not None:
                # numexpr evaluates the string in the caller's scope
                try:
                    expr = ast.parse(pos[0][1].strip(), mode='eval').body
                except SyntaxError:
                    expr = None
                if expr is not None:
                    for n in ast.walk(expr):
                        n.lineno = getattr(node, 'lineno', 0)
                    env2 = dict(env)
                    for fn in ('exp', 'cos', 'sin', 'sqrt', 'log', 'tan', 'abs',
                               'arctan2', 'conj', 'real', 'imag', 'where'):
                        env2.setdefault(fn, ('extref', 'numpy.' + fn))
                    return self.eval(expr, env2, frame, cond)
            folded = self.fold_builtin(name, pos, kws, frame, cond)
            if folded is not None:
                return folded
            return ('call', name, tuple(pos), tuple(sorted(kws.items())))
        if k == 'ite':
            d = self.decide_in(ft[1], cond)
            if d is True:
                return self.apply(ft[2], pos, kws, frame, cond, node, env, wb)
            if d is False:
                return self.apply(ft[3], pos, kws, frame, cond, node, env, wb)
            a = self.apply(ft[2], pos, kws, frame, cond + ((ft[1], True),), node,
                           env, None)
            b = self.apply(ft[3], pos, kws, frame, cond + ((ft[1], False),), node,
                           env, None)
            a, b = intern(a), intern(b)
            return a if a == b else ('ite', ft[1], a, b)
        # method call on an opaque object
        if k == 'attr':
            self.record_call('.' + ft[2], [ft[1]] + list(pos), kws, frame, node, cond)
            folded = self.fold_method(ft[1], ft[2], pos, kws, frame, cond)
            if folded is not None:
                return folded
            if ft[2] in MUTATORS:
                self.effect('mutcall', frame, node, cond, base=ft[1],
                            method=ft[2], args=tuple(pos))
                if wb is not None and env is not None and isinstance(
                        wb[0], (ast.Name, ast.Attribute, ast.Subscript)):
                    base = ft[1]
                    newv = None
                    if base[0] == 'list' and ft[2] == 'append' and len(pos) == 1:
                        newv = ('list', base[1] + (pos[0],))
                    elif base[0] == 'list' and ft[2] == 'extend' and len(pos) == 1 \
                            and pos[0][0] in ('list', 'tuple'):
                        newv = ('list', base[1] + pos[0][1])
                    elif base[0] == 'dict' and ft[2] == 'update' and len(pos) == 1 \
                            and pos[0][0] == 'dict' and not kws:
                        d = dict(base[1])
                        d.update(dict(pos[0][1]))
                        newv = ('dict', tuple(d.items()))
                    if newv is None:
                        newv = ('mut', base, ft[2], tuple(pos),
                                tuple(sorted(kws.items())))
                    self._store_back(wb[0], intern(newv), env, frame, cond)
        else:
            self.record_call('<term>', pos, kws, frame, node, cond)
        return ('call', ft, tuple(pos), tuple(sorted(kws.items())))

    def _bind_leading(self, qual, pos, kws, skip, wb=None):
        """f(a, y=b) and f(a, b) are one call: keyword arguments that name the
        next positional parameters of a resolved callee are moved into their
        slots, so call records and call terms have one canonical form."""
        if not kws or '**' in kws or any(p[0] == 'star' for p in pos):
            return pos, kws, wb
        try:
            fd = self.prog.func(qual)
        except AnalysisError:
            return pos, kws, wb
        if not isinstance(fd, (ast.FunctionDef, ast.AsyncFunctionDef)) or \
                fd.args.posonlyargs:
            return pos, kws, wb
        names = [a.arg for a in fd.args.args][skip:]
        if skip and fd.decorator_list and any(
                isinstance(d, ast.Name) and d.id == 'staticmethod'
                for d in fd.decorator_list):
            names = [a.arg for a in fd.args.args]
        pos = list(pos)
        kws = dict(kws)
        pn = list(wb[1]) if wb else None
        kn = dict(wb[2]) if wb else None
        while len(pos) < len(names) and names[len(pos)] in kws:
            nm = names[len(pos)]
            pos.append(kws.pop(nm))
            if wb:
                pn.append(kn.pop(nm, None))
        if wb:
            wb = (wb[0], pn, kn)
        return pos, kws, wb

    def _can_inline(self, qual, frame, pos, kws):
        if qual in self.opaque or qual in self.stack:
            return False
        if frame.depth >= self.max_depth:
            return False
        if '**' in kws or any(p[0] == 'star' for p in pos):
            return False
        try:
            self.prog.func(qual)
        except AnalysisError:
            return False
        return True

    @staticmethod
    def _rooted(fin, init):
        t = fin
        while True:
            if t is init:
                return True
            if t[0] == 'upd':
                t = t[1]
            elif t[0] == 'ite':
                return Interp._rooted(t[2], init) and Interp._rooted(t[3], init)
            else:
                return False

    def inline(self, qual, fd, owner, selfcls, pos, kws, frame, cond, wb=None,
               cenv=None):
        module = self.prog.module_of(qual)
        if any(isinstance(n, (ast.Yield, ast.YieldFrom)) for n in ast.walk(fd)):
            return ('call', qual, tuple(pos), tuple(sorted(kws.items())))
        env = self.bind_params(fd, {}, module, owner, selfcls, pos=pos, kws=kws)
        selfname = None
        if owner and fd.args.args and not self._is_static(owner, fd):
            selfname = fd.args.args[0].arg
        fr = Frame(module, owner, selfcls, selfname, frame.depth + 1, qual)
        self.stack.append(qual)
        try:
            outs = self.exec_block(fd.body, env, fr, cond)
        finally:
            self.stack.pop()
        n = len(cond)
        rel = [Outcome(o.kind, o.env, o.value, o.cond[n:], o.lineno) for o in outs]
        for o in rel:
            if o.kind == 'raise':
                self.effect('inlined-raise', fr, fd, cond + o.cond, exc=o.value,
                            callee=qual)
        normal = [o for o in rel if o.kind in ('return', 'fall')]
        t = combine(normal)
        if wb is not None and cenv is not None and normal:
            # propagate in-place updates of arguments back to the caller
            names = [a.arg for a in fd.args.posonlyargs + fd.args.args]
            pairs = []
            for i, nd in enumerate(wb[1]):
                if nd is not None and i < len(names):
                    pairs.append((names[i], nd))
            for k, nd in wb[2].items():
                pairs.append((k, nd))
            fin_env = normal[0].env if len(normal) == 1 else \
                self.merge_by_cond(normal, ())
            for pname, nd in pairs:
                if not isinstance(nd, (ast.Name, ast.Attribute, ast.Subscript)):
                    continue
                init, fin = env.get(pname), fin_env.get(pname)
                if init is None or fin is None or fin is init:
                    continue
                if self._rooted(fin, init):
                    self._store_back(nd, fin, cenv, frame, cond)
        return t

    def inline_closure(self, node_c, cenv, cframe, pos, kws, frame, cond,
                       keep_raises=False):
        if isinstance(node_c, ast.Lambda):
            args = node_c.args
        else:
            args = node_c.args
        fake = ast.FunctionDef(name='<closure>', args=args, body=[], decorator_list=[])
        env2 = dict(cenv)
        env2.update(self.bind_params(fake, {}, cframe.module, cframe.owner,
                                     cframe.selfcls, pos=pos, kws=kws))
        fr = Frame(cframe.module, cframe.owner, cframe.selfcls, cframe.selfname,
                   frame.depth + 1, cframe.qual + '.<closure>')
        if isinstance(node_c, ast.Lambda):
            return self.eval(node_c.body, env2, fr, cond)
        outs = self.exec_block(node_c.body, env2, fr, cond)
        n = len(cond)
        rel = [Outcome(o.kind, o.env, o.value, o.cond[n:], o.lineno) for o in outs]
        if keep_raises:
            return combine(rel, keep_raises=True)
        return combine([o for o in rel if o.kind in ('return', 'fall')])

    # ------------------------------------------------------------------
    def fold_builtin(self, name, pos, kws, frame, cond):
        if name in ('copy.copy', 'copy.deepcopy') and len(pos) == 1 and not kws:
            return ('copy', 'deep' if name.endswith('deepcopy') else 'shallow',
                    pos[0])
        if name == 'len' and len(pos) == 1:
            items = self.iter_items(pos[0]) if pos[0][0] != 'call' else None
            if items is not None:
                return num(len(items))
        if name == 'isinstance' and len(pos) == 2:
            cq = self.class_of(pos[0])
            targets = pos[1][1] if pos[1][0] == 'tuple' else (pos[1],)
            if cq is not None and all(t[0] == 'classref' for t in targets):
                return TRUE if any(
                    self.prog.is_subclass(cq, t[1]) for t in targets) else FALSE
            if pos[0][0] in ('num', 'const', 'list', 'tuple', 'dict') and \
                    all(t[0] == 'classref' for t in targets):
                return FALSE
        if name == 'getattr' and len(pos) >= 2 and pos[1][0] == 'const' and \
                isinstance(pos[1][1], str):
            t = self.getattr_term(pos[0], pos[1][1], frame, cond)
            if len(pos) == 3:
                if t[0] == 'attr':
                    return None
            return t
        if name == 'hasattr' and len(pos) == 2 and pos[1][0] == 'const':
            cq = self.class_of(pos[0])
            if cq is not None and cq in self.prog.classes:
                if self.prog.lookup(cq, pos[1][1]):
                    return TRUE
        if name in ('list', 'tuple') and len(pos) == 1:
            items = self.iter_items(pos[0])
            if items is not None:
                return (name, tuple(items))
        if name in ('list', 'tuple', 'dict') and not pos and not kws:
            return (name, ())
        if name == 'dict' and len(pos) == 1 and not kws and pos[0][0] in ('list', 'tuple') \
                and all(x[0] == 'tuple' and len(x[1]) == 2 for x in pos[0][1]):
            return ('dict', tuple((x[1][0], x[1][1]) for x in pos[0][1]))
        if name == 'dict' and len(pos) == 1 and not kws and pos[0][0] == 'call' and \
                pos[0][1] == 'zip':
            items = self.iter_items(pos[0])
            if items is not None and all(x[0] == 'tuple' and len(x[1]) == 2
                                         for x in items):
                return ('dict', tuple((x[1][0], x[1][1]) for x in items))
        if name == 'dict' and len(pos) == 1 and not kws and pos[0][0] == 'dict':
            return pos[0]
        if name == 'dict' and not pos and '**' not in kws:
            return ('dict', tuple((('const', k), v) for k, v in sorted(kws.items())))
        if name == 'range' and pos and all(is_num(a) for a in pos):
            return None
        if name in ('float', 'int', 'complex') and len(pos) == 1 and is_num(pos[0]):
            return pos[0]
        if name == 'float' and len(pos) == 1 and pos[0][0] == 'const' and \
                isinstance(pos[0][1], str):
            return ('call', 'float', tuple(pos), ())
        if name == 'sum' and len(pos) == 1:
            items = self.iter_items(pos[0]) if pos[0][0] in ('list', 'tuple') else None
            if items:
                t = items[0]
                for x in items[1:]:
                    t = ('bin', '+', t, x)
                return t
        if name == 'abs' and len(pos) == 1:
            return ('call', 'numpy.abs', tuple(pos), ())
        if name in ('numpy.pi', 'math.pi'):
            return None
        return None

    def fold_method(self, base, name, pos, kws, frame, cond):
        if base[0] == 'dict' and name in ('items', 'keys', 'values') and not pos:
            return None
        if base[0] == 'dict' and name == 'get' and pos and pos[0][0] in ('const', 'num'):
            for k, v in base[1]:
                if k == pos[0]:
                    return v
            if all(k[0] in ('const', 'num') for k, _ in base[1]):
                return pos[1] if len(pos) > 1 else NONE
        if base[0] == 'dict' and name == 'copy' and not pos:
            return base
        return None


MUTATORS = {'append', 'extend', 'update', 'pop', 'sort', 'fill', 'setdefault',
            'insert', 'remove', 'clear', 'popitem', 'reverse', 'resize', 'put',
            'itemset', '__setitem__', '__delitem__', 'add', 'discard'}


class _NoUnroll(Exception):
    pass


def _sub(t):
    from .terms import subterms
    return subterms(t)


def expr_term(prog, src, env=None, header='import numpy as np\nimport numpy\n'
              'from numpy import sin, cos, exp, sqrt, log, pi, arctan2\n',
              **opts):
    """Evaluate an oracle expression (written in the rule, never taken from
    the repository) into a term, with names bound by `env`."""
    from .loader import Module
    m = Module('<oracle>', '<oracle>', '<oracle>', header, False)
    prog.extra_modules['<oracle>'] = m
    it = Interp(prog, **opts)
    fr = Frame(m, None, None, None, 0, '<oracle>')
    node = ast.parse(src.strip(), mode='eval').body
    return it.eval(node, dict(env or {}), fr, ())
