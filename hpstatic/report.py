"""Verdicts, VIOLATION / KNOWN-FINDING lines, evidence JSON, instance floors.

Exit protocol
  0  every obligation discharged (open known findings are printed, not failed)
  1  an obligation is definitely broken by a construct not in known_findings
  2  ANALYSIS-ERROR: the analyser could not decide (vanished anchor,
     unsupported construct at a sink, instance count below its floor, a
     self-test fixture that stopped firing)
"""
import json
import os
import sys
import time

VERIF = os.path.dirname(os.path.dirname(os.path.abspath(__file__)))
KNOWN_FILE = os.path.join(VERIF, 'known_findings.json')


def load_known():
    if not os.path.exists(KNOWN_FILE):
        return []
    with open(KNOWN_FILE) as f:
        data = json.load(f)
    return data.get('findings', [])


class Check:
    def __init__(self, pid, tier='quick', level='other'):
        self.pid = pid
        self.tier = tier
        self.level = level
        self.t0 = time.time()
        self.obligations = []   # dicts: rule, construct, verdict, detail, loc
        self.analysed = {}      # kind -> list
        self.floors = []
        self.errors = []
        self.trusted = []
        self.assumptions = []
        self.explanation = ''
        self.rule_text = ''
        self.extra = {}
        self.known = [k for k in load_known() if k.get('property') == pid]

    # -- recording -----------------------------------------------------
    def note(self, kind, item):
        lst = self.analysed.setdefault(kind, [])
        if item not in lst:
            lst.append(item)

    def ok(self, rule, construct, detail='', loc=''):
        self.obligations.append(dict(rule=rule, construct=construct,
                                     verdict='discharged', detail=detail,
                                     loc=loc))

    def bad(self, rule, construct, detail='', loc=''):
        self.obligations.append(dict(rule=rule, construct=construct,
                                     verdict='violated', detail=detail,
                                     loc=loc))

    def require(self, cond, rule, construct, detail='', loc='', fail_detail=None):
        if cond:
            self.ok(rule, construct, detail, loc)
        else:
            self.bad(rule, construct, fail_detail or detail, loc)
        return bool(cond)

    def error(self, msg):
        """Analysis error: cannot decide."""
        self.errors.append(msg)

    def floor(self, name, count, minimum):
        self.floors.append(dict(name=name, count=count, minimum=minimum))
        if count < minimum:
            self.error('instance floor: %s matched %d sites, confirmed floor '
                       'is %d' % (name, count, minimum))

    def need(self, name, count, minimum, rule, construct, statement, loc='',
             missing=''):
        """A floor on constructs that *carry the behaviour* inside a function
        that exists (the store that writes an attribute, the loop that rejects a
        draw): when they are gone the behaviour is gone, which is a violation of
        the property and not a gap of the analysis."""
        self.floors.append(dict(name=name, count=count, minimum=minimum))
        self.require(count >= minimum, rule, construct, statement, loc,
                     fail_detail=missing or '%s: found %d, the behaviour needs %d'
                     % (name, count, minimum))

    # -- finishing -----------------------------------------------------
    def finish(self):
        wall = time.time() - self.t0
        violated = [o for o in self.obligations if o['verdict'] == 'violated']
        known_keys = {(k['rule'], k['construct']): k for k in self.known}
        new, known_hit = [], []
        for o in violated:
            k = known_keys.get((o['rule'], o['construct']))
            if k is not None:
                o['verdict'] = 'known-finding'
                known_hit.append((o, k))
            else:
                new.append(o)
        seen = set()
        for o, k in known_hit:
            key = (o['rule'], o['construct'])
            if key in seen:
                continue
            seen.add(key)
            print('KNOWN-FINDING: property=%s %s %s -- %s' % (
                self.pid, o['rule'], o['construct'], k.get('what', o['detail'])))
        stale = [k for key, k in known_keys.items() if key not in seen]
        for k in stale:
            print('NOTE: listed known finding no longer reported: %s %s' % (
                k['rule'], k['construct']))
        n_obl = len(self.obligations)
        n_dis = len([o for o in self.obligations if o['verdict'] == 'discharged'])
        distinct = len({(o['rule'], o['construct']) for o in self.obligations})
        samples = []
        seen_rules = {}
        for o in self.obligations:
            if seen_rules.get(o['rule'], 0) < 3 or o['verdict'] != 'discharged':
                seen_rules[o['rule']] = seen_rules.get(o['rule'], 0) + 1
                samples.append(o)
        cov = dict(
            evaluations=max(n_obl, 0),
            distinct_nontrivial=distinct,
            rule=self.rule_text or (
                'obligations are enumerated from the parse tree of /repo: one '
                'per (rule, construct); distinct = distinct (rule, construct) '
                'pairs whose subject construct exists in the tree'),
            samples=samples[:60] or [{'none': True}],
            obligations=n_obl,
            discharged=n_dis + len(known_hit),
            known_findings=len(seen),
            checker_cmd='./check %s --tier %s' % (self.pid, self.tier),
            trusted_base=self.trusted,
            explanation=self.explanation,
            exhaustive=True,
            analysed={k: v for k, v in self.analysed.items()},
            analysed_counts={k: len(v) for k, v in self.analysed.items()},
            instance_floors=self.floors,
        )
        cov.update(self.extra)
        ev = dict(property_id=self.pid, tier=self.tier,
                  seed=int(os.environ.get('VERIF_SEED', '0') or 0),
                  level=self.level, coverage=cov,
                  assumptions=self.assumptions, wall_s=round(wall, 3),
                  violations=len(new))
        evdir = os.environ.get('VERIF_EVIDENCE_DIR') or os.path.join(VERIF, 'evidence')
        os.makedirs(evdir, exist_ok=True)
        with open(os.path.join(evdir, self.pid + '.json'), 'w') as f:
            json.dump(ev, f, indent=1, sort_keys=True, default=str)
        print('%s [%s]: %d obligations, %d discharged, %d known findings, '
              '%d violations, %d analysis errors (%.2fs)' % (
                  self.pid, self.tier, n_obl, n_dis, len(seen), len(new),
                  len(self.errors), wall))
        for k, v in self.analysed.items():
            print('  analysed %s: %d' % (k, len(v)))
        if self.errors:
            for e in self.errors:
                print('ANALYSIS-ERROR property=%s %s' % (self.pid, e))
        if new:
            rdir = os.path.join(evdir, 'replay')
            os.makedirs(rdir, exist_ok=True)
            rpath = os.path.join(rdir, self.pid + '.json')
            with open(rpath, 'w') as f:
                json.dump(dict(property=self.pid, violations=new), f, indent=1,
                          default=str)
            for o in new:
                print('  violated: [%s] %s @ %s -- %s' % (
                    o['rule'], o['construct'], o['loc'], o['detail']))
            print('VIOLATION property=%s replay=%s' % (self.pid, rpath))
            return 1
        if self.errors:
            return 2
        return 0
