"""Whole-package call graph over resolved callees (no type information:
method calls on `self` / `cls` / `super()` resolve through the MRO with
dynamic dispatch to overriding subclasses; method calls on other receivers
resolve by method name over all package classes -- an over-approximation,
which is what an effect analysis needs)."""
import ast

from .loader import walk_no_nested


class CallGraph:
    def __init__(self, prog):
        self.prog = prog
        self.funcs = {}      # qual -> (fd, module, ownerclass or None)
        self.by_method = {}  # method name -> [qual]
        self.props = {}      # property name -> [getter qual]
        for m in prog.modules.values():
            for n, node in m.defs.items():
                if isinstance(node, ast.FunctionDef):
                    self.funcs[m.name + '.' + n] = (node, m, None)
        for cq, c in prog.classes.items():
            for n, fd in c.methods.items():
                self.funcs[cq + '.' + n] = (fd, c.module, cq)
                self.by_method.setdefault(n, []).append(cq + '.' + n)
            for n, p in c.properties.items():
                if p['getter'] is not None:
                    q = cq + '.' + n
                    self.funcs[q] = (p['getter'], c.module, cq)
                    self.props.setdefault(n, []).append(q)
                if p['setter'] is not None:
                    q = cq + '.' + n + '.setter'
                    self.funcs[q] = (p['setter'], c.module, cq)
        self._edges = {}

    def dispatch(self, cq, name):
        """All implementations `name` may resolve to for receivers whose class
        is cq or a subclass of cq."""
        out = []
        for sub in self.prog.subclasses(cq):
            hit = self.prog.lookup(sub, name)
            if hit and hit[0] == 'method':
                q = hit[1] + '.' + name
                if q not in out:
                    out.append(q)
            elif hit and hit[0] == 'property' and hit[2]['getter'] is not None:
                q = hit[1] + '.' + name
                if q not in out:
                    out.append(q)
        return out

    def edges(self, qual):
        if qual in self._edges:
            return self._edges[qual]
        fd, m, owner = self.funcs[qual]
        out = []

        def add(q, node):
            if q in self.funcs and (q, getattr(node, 'lineno', 0)) not in out:
                out.append((q, getattr(node, 'lineno', 0)))
        selfname = fd.args.args[0].arg if (owner and fd.args.args) else None
        locs = set()
        for x in ast.walk(fd):
            if isinstance(x, ast.arg):
                locs.add(x.arg)
            elif isinstance(x, ast.Name) and isinstance(x.ctx, ast.Store):
                locs.add(x.id)
        todo = [fd]
        nodes = []
        while todo:
            n = todo.pop()
            for ch in ast.iter_child_nodes(n):
                nodes.append(ch)
                todo.append(ch)     # nested defs/lambdas run in this context
        for n in nodes:
            if isinstance(n, ast.Call):
                f = n.func
                if isinstance(f, ast.Name):
                    r = self.prog.resolve_name(m.name, f.id)
                    if r[0] == 'func':
                        add(r[1], n)
                    elif r[0] == 'class':
                        for q in self.dispatch_exact(r[1], '__init__'):
                            add(q, n)
                    elif f.id == 'cls' and owner:
                        for q in self.dispatch(owner, '__init__'):
                            add(q, n)
                elif isinstance(f, ast.Attribute):
                    v = f.value
                    if isinstance(v, ast.Name) and v.id == selfname and owner:
                        for q in self.dispatch(owner, f.attr):
                            add(q, n)
                        continue
                    if isinstance(v, ast.Call) and isinstance(v.func, ast.Name) \
                            and v.func.id == 'super' and owner:
                        for sub in self.prog.subclasses(owner):
                            hit = self.prog.lookup(sub, f.attr, after=owner) \
                                if owner in self.prog.mro(sub) else None
                            if hit and hit[0] == 'method':
                                add(hit[1] + '.' + f.attr, n)
                        continue
                    rootn = v
                    while isinstance(rootn, (ast.Attribute, ast.Subscript, ast.Call)):
                        rootn = rootn.func if isinstance(rootn, ast.Call) else rootn.value
                    if isinstance(rootn, ast.Name) and rootn.id in locs:
                        for q in self.by_method.get(f.attr, []):
                            add(q, n)
                        continue
                    r = self.prog.resolve_expr(m.name, f)
                    if r[0] == 'func':
                        add(r[1], n)
                        continue
                    if r[0] == 'class':
                        for q in self.dispatch_exact(r[1], '__init__'):
                            add(q, n)
                        continue
                    if r[0] == 'classattr':
                        for q in self.dispatch(r[1], r[2]):
                            add(q, n)
                        continue
                    if r[0] in ('external', 'module'):
                        continue
                    for q in self.by_method.get(f.attr, []):
                        add(q, n)
            elif isinstance(n, ast.Attribute) and isinstance(n.ctx, ast.Load):
                if n.attr in self.props:
                    v = n.value
                    if isinstance(v, ast.Name) and v.id == selfname and owner:
                        for q in self.dispatch(owner, n.attr):
                            add(q, n)
                    else:
                        rootn = v
                        while isinstance(rootn, (ast.Attribute, ast.Subscript, ast.Call)):
                            rootn = rootn.func if isinstance(rootn, ast.Call) \
                                else rootn.value
                        if not (isinstance(rootn, ast.Name) and rootn.id in locs):
                            r = self.prog.resolve_expr(m.name, n)
                            if r[0] in ('external', 'module', 'func', 'class'):
                                continue
                        for q in self.props[n.attr]:
                            add(q, n)
        self._edges[qual] = out
        return out

    def dispatch_exact(self, cq, name):
        hit = self.prog.lookup(cq, name) if cq in self.prog.classes else None
        if hit and hit[0] == 'method':
            return [hit[1] + '.' + name]
        return []

    def reachable(self, entries, stop=()):
        """dict qual -> path (tuple of quals) from an entry."""
        seen = {}
        todo = [(e, (e,)) for e in entries]
        while todo:
            q, path = todo.pop(0)
            if q in seen or q not in self.funcs:
                continue
            seen[q] = path
            if q in stop:
                continue
            for c, ln in self.edges(q):
                if c not in seen:
                    todo.append((c, path + (c,)))
        return seen
